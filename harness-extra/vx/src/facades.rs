//! X08: the convenience entry points and the deprecated aliases are compositions of the session calls
//! (spec/extra/X08.tla gives the outcome of the one-shot entry point for every token sequence).
#![allow(deprecated)]

use lexpr::parse::{Options, Parser};
use lexpr::Value;
use serde_json::{json, Value as J};

fn render(toks: &[String], variant: usize) -> String {
    let mut out = String::new();
    for (i, t) in toks.iter().enumerate() {
        if i > 0 || variant % 2 == 1 {
            out.push_str(match (variant + i) % 3 { 0 => " ", 1 => "\n", _ => " ;c\n" });
        }
        out.push_str(match t.as_str() {
            "open" => "(",
            "obr" => "[",
            "vopen" => "#(",
            "quote" => ["'", "`", ",", ",@"][(i + variant) % 4],
            "dot" => ".",
            "close" => ")",
            "cbr" => "]",
            "atom" => ["a", "42", "\"s\"", "#t", "#\\x"][(i + variant) % 5],
            "junk" => ["{", "}", "#<"][(i + variant) % 3],
            x => panic!("token {}", x),
        });
    }
    if variant % 4 == 3 {
        out.push_str(" ;end");
    }
    out
}

fn show(r: &Result<Value, lexpr::parse::Error>) -> String {
    match r {
        Ok(v) => format!("ok {}", v),
        Err(e) => format!("err {:?} {}", e.classify(), e),
    }
}

fn show_opt(r: &Result<Option<Value>, lexpr::parse::Error>) -> String {
    match r {
        Ok(Some(v)) => format!("ok {}", v),
        Ok(None) => "none".to_string(),
        Err(e) => format!("err {:?} {}", e.classify(), e),
    }
}

/// All results of driving `step` until the end of input (or len + 3 calls).
fn drive<F: FnMut() -> String>(n: usize, mut step: F) -> Vec<String> {
    let mut out = Vec::new();
    for _ in 0..n + 3 {
        let s = step();
        let done = s == "none";
        out.push(s);
        if done {
            break;
        }
    }
    out
}

pub fn run(cfg: &J) -> J {
    let mut bad = Vec::new();
    let mut n = 0u64;
    for line in std::fs::read_to_string(cfg["cases_file"].as_str().unwrap()).expect("cases").lines() {
        if line.trim().is_empty() {
            continue;
        }
        let c: J = serde_json::from_str(line).unwrap();
        let toks: Vec<String> = c["toks"].as_array().unwrap().iter().map(|t| t.as_str().unwrap().to_string()).collect();
        for variant in 0..4usize {
            n += 1;
            let text = render(&toks, variant);
            let r = std::panic::catch_unwind(|| {
                let mut why: Vec<String> = Vec::new();
                // (1) the one-shot entry point: exactly one datum
                let one = lexpr::from_str(&text);
                let want = c["oneshot"].as_str().unwrap();
                let got = match &one {
                    Ok(_) => "ok",
                    Err(_) => "fail",
                };
                if (want == "ok") != (got == "ok") {
                    why.push(format!("from_str gives {} but the model says {}", show(&one), want));
                }
                if want == "eof" && !matches!(&one, Err(e) if e.classify() == lexpr::parse::error::Category::Eof) {
                    why.push(format!("empty input must be an EOF error, got {}", show(&one)));
                }
                // the other spellings of the same entry point
                let same = [
                    ("from_slice", show(&lexpr::from_slice(text.as_bytes()))),
                    // the stream source may report an error one column apart from the slice source (no listed property
                    // fixes the location across sources): compare without the location
                    ("from_reader", show(&lexpr::from_reader(text.as_bytes()))),
                    ("from_str_custom(default)", show(&lexpr::from_str_custom(&text, Options::default()))),
                    ("str::parse", show(&text.parse::<Value>())),
                ];
                let strip = |s: &str| -> String { s.split(" at line ").next().unwrap_or(s).to_string() };
                for (name, s) in same.iter() {
                    let (l, r) = if *name == "from_reader" { (strip(s), strip(&show(&one))) } else { (s.clone(), show(&one)) };
                    if l != r {
                        why.push(format!("{} gives {} but from_str gives {}", name, s, show(&one)));
                    }
                }
                let el = show(&lexpr::from_str_custom(&text, Options::elisp()));
                for (name, s) in [("from_str_elisp", show(&lexpr::parse::from_str_elisp(&text))), ("from_slice_elisp", show(&lexpr::parse::from_slice_elisp(text.as_bytes()))),
                                  ("from_reader_elisp", show(&lexpr::parse::from_reader_elisp(text.as_bytes())))] {
                    let (l, r) = if name == "from_reader_elisp" { (strip(&s), strip(&el)) } else { (s.clone(), el.clone()) };
                    if l != r {
                        why.push(format!("{} gives {} but from_str_custom(elisp) gives {}", name, s, el));
                    }
                }
                // (2) the composition: one read that must yield a datum, then expect_end
                let mut p = Parser::from_str(&text);
                let composed = match p.expect_value() {
                    Ok(v) => p.expect_end().map(|_| v),
                    Err(e) => Err(e),
                };
                if show(&composed) != show(&one) {
                    why.push(format!("expect_value + expect_end gives {} but from_str gives {}", show(&composed), show(&one)));
                }
                // (3) the deprecated aliases
                let (mut a, mut b) = (Parser::from_str(&text), Parser::from_str(&text));
                if drive(text.len(), || show_opt(&a.parse())) != drive(text.len(), || show_opt(&b.next_value())) {
                    why.push("parse() and next_value() yield different sequences".to_string());
                }
                let (mut a, mut b) = (Parser::from_str(&text), Parser::from_str(&text));
                let (x, y) = (show(&a.parse_value()), show(&b.expect_value()));
                let (xe, ye) = (a.end().map_err(|e| e.to_string()), b.expect_end().map_err(|e| e.to_string()));
                if x != y || xe != ye {
                    why.push(format!("parse_value / end give {} {:?} but expect_value / expect_end give {} {:?}", x, xe, y, ye));
                }
                // (4) expect_value = next_value with the end of input turned into an EOF error; expect_datum likewise
                let (mut a, mut b) = (Parser::from_str(&text), Parser::from_str(&text));
                for _ in 0..text.len() + 3 {
                    let nv = a.next_value();
                    let ev = b.expect_value();
                    let agree = match (&nv, &ev) {
                        (Ok(Some(v)), Ok(w)) => v == w,
                        (Ok(None), Err(e)) => e.classify() == lexpr::parse::error::Category::Eof,
                        (Err(e), Err(f)) => e.to_string() == f.to_string(),
                        _ => false,
                    };
                    if !agree {
                        why.push(format!("expect_value gives {} where next_value gives {}", show(&ev), show_opt(&nv)));
                        break;
                    }
                    if matches!(nv, Ok(None)) {
                        break;
                    }
                }
                let (mut a, mut b) = (Parser::from_str(&text), Parser::from_str(&text));
                for _ in 0..text.len() + 3 {
                    let nd = a.next_datum();
                    let ed = b.expect_datum();
                    let agree = match (&nd, &ed) {
                        (Ok(Some(v)), Ok(w)) => v == w,
                        (Ok(None), Err(e)) => e.classify() == lexpr::parse::error::Category::Eof,
                        (Err(e), Err(f)) => e.to_string() == f.to_string(),
                        _ => false,
                    };
                    if !agree {
                        why.push("expect_datum disagrees with next_datum".to_string());
                        break;
                    }
                    if matches!(nd, Ok(None)) {
                        break;
                    }
                }
                why
            });
            match r {
                Ok(why) => {
                    for w in why {
                        bad.push(json!({"rule":"facade","why":w,"toks":c["toks"],"variant":variant,"text":text}));
                    }
                }
                Err(_) => bad.push(json!({"rule":"panic","why":"an entry point panicked","toks":c["toks"],"variant":variant,"text":text})),
            }
        }
    }
    json!({"bad": bad, "trace": [], "texts": n})
}
