//! Conformance harness for the specification modules that go beyond the listed properties
//! (spec/Mutation.tla, spec/Formatter.tla, ...).  `vx <cmd> cfg.json out.json trace.ndjson`.

#[allow(dead_code)]
#[path = "../../../harness/vh/src/codec.rs"]
mod codec;
mod errors;
mod facades;
mod formatter;
mod intoiter;
mod mutation;
mod options;

use serde_json::Value as J;
use std::io::Write;

fn main() {
    let a: Vec<String> = std::env::args().collect();
    if a.len() < 5 {
        eprintln!("usage: vx <cmd> cfg.json out.json trace.ndjson");
        std::process::exit(2);
    }
    let cfg: J = serde_json::from_str(&std::fs::read_to_string(&a[2]).expect("cfg")).expect("cfg json");
    std::panic::set_hook(Box::new(|_| {}));
    let mut out = match a[1].as_str() {
        "x01" => mutation::run(&cfg),
        "x02" => formatter::run(&cfg),
        "x05" => options::run(&cfg),
        "x07" => intoiter::run(&cfg),
        "x08" => facades::run(&cfg),
        "x09" => errors::run(&cfg),
        other => {
            eprintln!("unknown command {}", other);
            std::process::exit(2);
        }
    };
    let trace = out.as_object_mut().and_then(|o| o.remove("trace")).unwrap_or(J::Array(vec![]));
    let mut f = std::io::BufWriter::new(std::fs::File::create(&a[4]).unwrap());
    for e in trace.as_array().unwrap() {
        writeln!(f, "{}", e).unwrap();
    }
    std::fs::write(&a[3], serde_json::to_string(&out).unwrap()).unwrap();
}
