//! X02: the Formatter protocol (spec/Formatter.tla).  A logging formatter records every callback
//! the printer makes (with the text the default formatter writes for it) while a value is printed.

use crate::codec::*;
use lexpr::print::{CharEscape, DefaultFormatter, Formatter, Printer, VectorType};
use lexpr::{Number, Value};
use serde_json::{json, Value as J};
use std::io;

struct Logging {
    log: Vec<J>,
}

fn null() -> J {
    json!({"k":"null"})
}

impl Logging {
    fn record<W, F>(&mut self, writer: &mut W, c: &str, arg: J, first: bool, f: F) -> io::Result<()>
    where
        W: io::Write + ?Sized,
        F: FnOnce(&mut DefaultFormatter, &mut Vec<u8>) -> io::Result<()>,
    {
        let mut buf = Vec::new();
        f(&mut DefaultFormatter, &mut buf)?;
        self.log.push(json!({"c": c, "arg": arg, "first": first, "out": bytes_j(&buf)}));
        writer.write_all(&buf)
    }
}

impl Formatter for Logging {
    fn write_nil<W: io::Write + ?Sized>(&mut self, w: &mut W) -> io::Result<()> {
        self.record(w, "write_nil", null(), false, |d, b| d.write_nil(b))
    }
    fn write_null<W: io::Write + ?Sized>(&mut self, w: &mut W) -> io::Result<()> {
        self.record(w, "write_null", null(), false, |d, b| d.write_null(b))
    }
    fn write_bool<W: io::Write + ?Sized>(&mut self, w: &mut W, value: bool) -> io::Result<()> {
        self.record(w, "write_bool", val_to_json(&Value::Bool(value)), false, |d, b| d.write_bool(b, value))
    }
    fn write_number<W: io::Write + ?Sized>(&mut self, w: &mut W, value: &Number) -> io::Result<()> {
        self.record(w, "write_number", val_to_json(&Value::Number(value.clone())), false, |d, b| d.write_number(b, value))
    }
    fn write_char<W: io::Write + ?Sized>(&mut self, w: &mut W, c: char) -> io::Result<()> {
        self.record(w, "write_char", val_to_json(&Value::Char(c)), false, |d, b| d.write_char(b, c))
    }
    fn begin_string<W: io::Write + ?Sized>(&mut self, w: &mut W) -> io::Result<()> {
        self.record(w, "begin_string", null(), false, |d, b| d.begin_string(b))
    }
    fn end_string<W: io::Write + ?Sized>(&mut self, w: &mut W) -> io::Result<()> {
        self.record(w, "end_string", null(), false, |d, b| d.end_string(b))
    }
    fn write_string_fragment<W: io::Write + ?Sized>(&mut self, w: &mut W, fragment: &str) -> io::Result<()> {
        self.record(w, "write_string_fragment", val_to_json(&Value::string(fragment)), false, |d, b| d.write_string_fragment(b, fragment))
    }
    fn write_char_escape<W: io::Write + ?Sized>(&mut self, w: &mut W, e: CharEscape) -> io::Result<()> {
        let (kind, byte) = match e {
            CharEscape::Quote => ("Quote", b'"'),
            CharEscape::ReverseSolidus => ("ReverseSolidus", b'\\'),
            CharEscape::Alert => ("Alert", 7),
            CharEscape::Backspace => ("Backspace", 8),
            CharEscape::LineFeed => ("LineFeed", 10),
            CharEscape::CarriageReturn => ("CarriageReturn", 13),
            CharEscape::Tab => ("Tab", 9),
            CharEscape::AsciiControl(b) => ("AsciiControl", b),
        };
        self.record(w, "write_char_escape", json!({"k":"esc","kind":kind,"byte":byte}), false, |d, b| d.write_char_escape(b, e))
    }
    fn write_symbol<W: io::Write + ?Sized>(&mut self, w: &mut W, name: &str) -> io::Result<()> {
        self.record(w, "write_symbol", val_to_json(&Value::symbol(name)), false, |d, b| d.write_symbol(b, name))
    }
    fn write_keyword<W: io::Write + ?Sized>(&mut self, w: &mut W, name: &str) -> io::Result<()> {
        self.record(w, "write_keyword", val_to_json(&Value::keyword(name)), false, |d, b| d.write_keyword(b, name))
    }
    fn write_bytes<W: io::Write + ?Sized>(&mut self, w: &mut W, bytes: &[u8]) -> io::Result<()> {
        self.record(w, "write_bytes", val_to_json(&Value::bytes(bytes)), false, |d, b| d.write_bytes(b, bytes))
    }
    fn begin_list<W: io::Write + ?Sized>(&mut self, w: &mut W) -> io::Result<()> {
        self.record(w, "begin_list", null(), false, |d, b| d.begin_list(b))
    }
    fn end_list<W: io::Write + ?Sized>(&mut self, w: &mut W) -> io::Result<()> {
        self.record(w, "end_list", null(), false, |d, b| d.end_list(b))
    }
    fn begin_seq_element<W: io::Write + ?Sized>(&mut self, w: &mut W, first: bool) -> io::Result<()> {
        self.record(w, "begin_seq_element", null(), first, |d, b| d.begin_seq_element(b, first))
    }
    fn end_seq_element<W: io::Write + ?Sized>(&mut self, w: &mut W) -> io::Result<()> {
        self.record(w, "end_seq_element", null(), false, |d, b| d.end_seq_element(b))
    }
    fn begin_vector<W: io::Write + ?Sized>(&mut self, kind: VectorType, w: &mut W) -> io::Result<()> {
        let name = match kind {
            VectorType::Generic => "g",
            VectorType::Byte => "b",
        };
        self.record(w, "begin_vector", val_to_json(&Value::symbol(name)), false, |d, b| d.begin_vector(kind, b))
    }
    fn end_vector<W: io::Write + ?Sized>(&mut self, w: &mut W) -> io::Result<()> {
        self.record(w, "end_vector", null(), false, |d, b| d.end_vector(b))
    }
    fn write_dot<W: io::Write + ?Sized>(&mut self, w: &mut W) -> io::Result<()> {
        self.record(w, "write_dot", null(), false, |d, b| d.write_dot(b))
    }
}

/// Print `v` through the logging formatter: (events, text).
fn observe(v: &Value) -> (Vec<J>, Vec<u8>) {
    let mut p = Printer::with_formatter(Vec::new(), Logging { log: Vec::new() });
    p.print(v).expect("printing into a Vec cannot fail");
    // Printer gives the writer back but not the formatter; print again into a formatter we keep
    let text = p.into_inner();
    let mut fmt = Logging { log: Vec::new() };
    let mut sink = Vec::new();
    print_with(&mut fmt, &mut sink, v);
    (fmt.log, if sink == text { text } else { b"<two runs of the same printer differ>".to_vec() })
}

/// `Printer` owns its formatter, so to read the log afterwards the formatter is a `&mut` wrapper.
struct ByRef<'a>(&'a mut Logging);

macro_rules! fwd {
    ($($name:ident($($arg:ident : $ty:ty),*);)*) => {
        $(fn $name<W: io::Write + ?Sized>(&mut self, w: &mut W $(, $arg: $ty)*) -> io::Result<()> { self.0.$name(w $(, $arg)*) })*
    };
}

impl<'a> Formatter for ByRef<'a> {
    fwd! {
        write_nil(); write_null(); write_bool(v: bool); write_number(v: &Number); write_char(c: char);
        begin_string(); end_string(); write_string_fragment(f: &str); write_char_escape(e: CharEscape);
        write_symbol(n: &str); write_keyword(n: &str); write_bytes(b: &[u8]); begin_list(); end_list();
        begin_seq_element(first: bool); end_seq_element(); end_vector(); write_dot();
    }
    fn begin_vector<W: io::Write + ?Sized>(&mut self, kind: VectorType, w: &mut W) -> io::Result<()> {
        self.0.begin_vector(kind, w)
    }
}

fn print_with(fmt: &mut Logging, sink: &mut Vec<u8>, v: &Value) {
    let mut p = Printer::with_formatter(sink, ByRef(fmt));
    p.print(v).expect("printing into a Vec cannot fail");
}

#[allow(dead_code)]
#[path = "../../../harness/vh/src/gen.rs"]
mod gen;

pub fn run(cfg: &J) -> J {
    let mut bad = Vec::new();
    let mut trace = Vec::new();
    let mut n = 0u64;
    let mut vals: Vec<Value> = Vec::new();
    if let Some(p) = cfg["cases_file"].as_str() {
        for line in std::fs::read_to_string(p).expect("cases").lines() {
            if !line.trim().is_empty() {
                let c: J = serde_json::from_str(line).unwrap();
                vals.push(json_to_val(&c["v"]));
            }
        }
    }
    let mut g = gen::Gen::new(cfg["seed"].as_u64().unwrap_or(1));
    for _ in 0..cfg["random"].as_u64().unwrap_or(0) {
        vals.push(g.value());
    }
    for v in &vals {
        n += 1;
        let r = std::panic::catch_unwind(|| observe(v));
        match r {
            Ok((evs, text)) => {
                let direct = lexpr::to_string(v).map(|s| s.into_bytes()).unwrap_or_default();
                if direct != text {
                    bad.push(json!({"rule":"text","why":"printing through a delegating formatter differs from to_string","v":val_to_json(v)}));
                }
                // Display is documented as the default printer's text
                if format!("{}", v).into_bytes() != text {
                    bad.push(json!({"rule":"text","why":"Display differs from to_string","v":val_to_json(v)}));
                }
                let mut w = Vec::new();
                if lexpr::to_writer(&mut w, v).is_err() || w != text || lexpr::to_vec(v).ok() != Some(text.clone()) {
                    bad.push(json!({"rule":"text","why":"to_writer / to_vec differ from to_string","v":val_to_json(v)}));
                }
                let cat: Vec<u8> = evs.iter().flat_map(|e| j_bytes(&e["out"])).collect();
                if cat != text {
                    bad.push(json!({"rule":"text","why":"the output is not the concatenation of what the callbacks wrote","v":val_to_json(v)}));
                }
                trace.push(json!({"ev":"print","v":val_to_json(v),"evs":evs,"text":bytes_j(&text)}));
            }
            Err(p) => bad.push(json!({"rule":"panic","why":format!("printing panicked: {}", panic_json(p)["msg"]),"v":val_to_json(v)})),
        }
    }
    json!({"bad": bad, "trace": trace, "values": n})
}
