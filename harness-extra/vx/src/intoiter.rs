//! X07: replay of the consuming-iterator machine (spec/extra/X07.tla): cons::IntoIter with peek / peek_mut.

use crate::codec::*;
use lexpr::Value;
use serde_json::{json, Value as J};

fn none() -> J {
    json!({"k":"-"})
}

pub fn run(cfg: &J) -> J {
    let mut bad = Vec::new();
    let mut trace = Vec::new();
    let (mut nb, mut ns) = (0u64, 0u64);
    let every = cfg["trace_every"].as_u64().unwrap_or(1);
    for (ci, line) in std::fs::read_to_string(cfg["cases_file"].as_str().unwrap()).expect("cases").lines().enumerate() {
        if line.trim().is_empty() {
            continue;
        }
        nb += 1;
        let c: J = serde_json::from_str(line).unwrap();
        let r = std::panic::catch_unwind(|| {
            let mut local_bad: Vec<String> = Vec::new();
            let mut events: Vec<J> = Vec::new();
            let root = json_to_val(&c["init"]);
            let mut it = match root {
                Value::Cons(cell) => cell.into_iter(),
                _ => return (vec!["the initial root is not a cons cell".to_string()], events),
            };
            for (si, st) in c["steps"].as_array().unwrap().iter().enumerate() {
                let act = &st["act"];
                let mut y = json!({"item": none(), "tail": none(), "has": false});
                match act["op"].as_str().unwrap() {
                    "next" => {
                        if let Some((item, tail)) = it.next() {
                            y = json!({"item": val_to_json(&item), "tail": tail.as_ref().map(val_to_json).unwrap_or_else(none), "has": true});
                        }
                    }
                    "setcar" => {
                        if it.peek_mut().map(|cell| cell.set_car(json_to_val(&act["v"]))).is_none() {
                            local_bad.push(format!("step {}: peek_mut gives nothing although the model has a current cell", si));
                        }
                    }
                    "setcdr" => {
                        if it.peek_mut().map(|cell| cell.set_cdr(json_to_val(&act["v"]))).is_none() {
                            local_bad.push(format!("step {}: peek_mut gives nothing although the model has a current cell", si));
                        }
                    }
                    _ => {}
                }
                let peek = it.peek().map(|cell| val_to_json(&Value::Cons(cell.clone()))).unwrap_or_else(none);
                if y != st["yield"] {
                    local_bad.push(format!("step {} ({}): yields {} but the model says {}", si, act["op"], y, st["yield"]));
                }
                if peek != st["peek"] {
                    local_bad.push(format!("step {} ({}): the remainder is {} but the model says {}", si, act["op"], peek, st["peek"]));
                }
                events.push(json!({"ev":"step","first": si == 0,"init": if si == 0 { c["init"].clone() } else { json!({"k":"null"}) },"act":act,"yield":y,"peek":peek}));
            }
            (local_bad, events)
        });
        match r {
            Ok((lb, evs)) => {
                ns += evs.len() as u64;
                for w in lb {
                    bad.push(json!({"rule":"intoiter","why":w,"case":c}));
                }
                if ci as u64 % every == 0 {
                    trace.extend(evs);
                }
            }
            Err(p) => bad.push(json!({"rule":"panic","why":format!("IntoIter panicked: {}", panic_json(p)["msg"]),"case":c})),
        }
    }
    json!({"bad": bad, "trace": trace, "behaviours": nb, "steps": ns})
}
