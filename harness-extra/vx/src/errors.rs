//! X09: the error values of lexpr and serde-lexpr and the conversions between them and std::io::Error
//! (spec/ErrorModel.tla).  Every behaviour of spec/extra/X09.tla - an origin and a chain of `From` conversions -
//! is executed on real errors; the observers of the final error are compared with the model's (spec -> code)
//! and logged with their texts for spec/extra/X09Trace.tla (code -> spec).  A second pass raises errors from a
//! corpus of malformed texts and passes each through the fixed conversion chains.

use serde_json::{json, Value as J};
use std::collections::BTreeMap;
use std::error::Error as StdError;
use std::io;

enum E {
    Parse(lexpr::parse::Error),
    Serde(serde_lexpr::Error),
    Io(io::Error),
}

struct FailWith(Option<io::Error>);
impl io::Read for FailWith {
    fn read(&mut self, _buf: &mut [u8]) -> io::Result<usize> {
        match self.0.take() {
            Some(e) => Err(e),
            None => Ok(0),
        }
    }
}

fn kind_of(name: &str) -> io::ErrorKind {
    match name {
        "Other" => io::ErrorKind::Other,
        "NotFound" => io::ErrorKind::NotFound,
        "BrokenPipe" => io::ErrorKind::BrokenPipe,
        "UnexpectedEof" => io::ErrorKind::UnexpectedEof,
        "InvalidData" => io::ErrorKind::InvalidData,
        "TimedOut" => io::ErrorKind::TimedOut,
        x => panic!("kind {}", x),
    }
}

fn into_parse(e: io::Error) -> lexpr::parse::Error {
    match lexpr::from_reader(FailWith(Some(e))) {
        Err(e) => e,
        Ok(v) => panic!("a failing reader produced {}", v),
    }
}

fn parse_text(text: &str, elisp: bool) -> Option<lexpr::parse::Error> {
    if text == "<deep>" {
        return lexpr::from_str(&"(".repeat(400)).err();
    }
    if elisp {
        lexpr::parse::from_str_elisp(text).err()
    } else {
        lexpr::from_str(text).err()
    }
}

fn step(e: E, how: &str) -> E {
    match (e, how) {
        (E::Parse(p), "into_io") => E::Io(io::Error::from(p)),
        (E::Serde(s), "into_io") => E::Io(io::Error::from(s)),
        (E::Parse(p), "into_serde") => E::Serde(serde_lexpr::Error::from(p)),
        (E::Io(i), "into_serde") => E::Serde(serde_lexpr::Error::from(i)),
        (E::Io(i), "into_parse") => E::Parse(into_parse(i)),
        (_, h) => panic!("conversion {} not applicable", h),
    }
}

fn loc_j(l: Option<lexpr::parse::error::Location>) -> J {
    match l {
        Some(l) => json!([l.line(), l.column()]),
        None => json!([]),
    }
}

/// The observers of an error; `why` collects incoherences between accessors of the same error.
fn observe(e: &E, why: &mut Vec<String>) -> J {
    match e {
        E::Parse(p) => {
            let cat = format!("{:?}", p.classify());
            if (p.is_io(), p.is_syntax(), p.is_eof()) != (cat == "Io", cat == "Syntax", cat == "Eof") {
                why.push(format!("is_io/is_syntax/is_eof disagree with classify() = {}", cat));
            }
            json!({"layer": "parse", "category": cat, "loc": loc_j(p.location()), "display": p.to_string(), "debug": format!("{:?}", p),
                   "source": p.source().map(|s| s.to_string()).unwrap_or_else(|| "none".to_string()), "kind": "n/a"})
        }
        E::Serde(s) => {
            json!({"layer": "serde", "category": format!("{:?}", s.classify()), "loc": loc_j(s.location()), "display": s.to_string(),
                   "debug": format!("{:?}", s), "source": s.source().map(|x| x.to_string()).unwrap_or_else(|| "none".to_string()), "kind": "n/a"})
        }
        E::Io(i) => {
            let inner = match i.get_ref() {
                None => "none",
                Some(r) if r.is::<lexpr::parse::Error>() => "parse",
                Some(r) if r.is::<serde_lexpr::Error>() => "serde",
                Some(_) => "plain",
            };
            json!({"layer": "io", "category": "n/a", "loc": [], "display": i.to_string(), "debug": format!("{:?}", i),
                   "source": "none", "kind": format!("{:?}", i.kind()), "inner": inner})
        }
    }
}

fn raise(origin: &J, triggers: &BTreeMap<String, (String, bool)>) -> Result<E, String> {
    let io_err = |o: &J| io::Error::new(kind_of(o["io"].as_str().unwrap()), "boom");
    Ok(match origin["kind"].as_str().unwrap() {
        "code" => {
            let msg = origin["message"].as_str().unwrap();
            let (text, elisp) = triggers.get(msg).ok_or_else(|| format!("no text in the corpus raises '{}'", msg))?;
            E::Parse(parse_text(text, *elisp).expect("trigger"))
        }
        "parse_io" => E::Parse(into_parse(io_err(origin))),
        "serde_msg" => E::Serde(<serde_lexpr::Error as serde::de::Error>::custom(origin["text"].as_str().unwrap())),
        "serde_io" => E::Serde(serde_lexpr::Error::from(io_err(origin))),
        "io_plain" => E::Io(io_err(origin)),
        x => panic!("origin {}", x),
    })
}

const MESSAGES: [(&str, &str); 18] = [
    ("EofWhileParsingList", "EOF while parsing a list"),
    ("EofWhileParsingVector", "EOF while parsing a vector"),
    ("EofWhileParsingString", "EOF while parsing a string"),
    ("EofWhileParsingValue", "EOF while parsing a value"),
    ("EofWhileParsingCharacterConstant", "EOF while parsing a character constant"),
    ("ExpectedSomeIdent", "expected ident"),
    ("ExpectedSomeValue", "expected value"),
    ("ExpectedVector", "expected vector"),
    ("ExpectedOctet", "expected octet"),
    ("InvalidEscape", "invalid escape"),
    ("InvalidNumber", "invalid number"),
    ("InvalidSymbol", "invalid symbol"),
    ("MismatchedParenthesis", "mismatched parenthesis"),
    ("NumberOutOfRange", "number out of range"),
    ("InvalidUnicodeCodePoint", "invalid unicode code point"),
    ("InvalidCharacterConstant", "invalid character constant"),
    ("TrailingCharacters", "trailing characters"),
    ("RecursionLimitExceeded", "recursion limit exceeded"),
];

/// The code a parse error's text names (the code itself is private): the text up to " at line ".
fn code_of(display: &str) -> Option<&'static str> {
    let msg = display.split(" at line ").next().unwrap_or("");
    MESSAGES.iter().find(|(_, m)| *m == msg).map(|(c, _)| *c)
}

pub fn run(cfg: &J) -> J {
    let mut bad = Vec::new();
    let mut trace = Vec::new();
    // which text raises which message
    let corpus: Vec<String> = cfg["corpus"].as_array().unwrap().iter().map(|t| t.as_str().unwrap().to_string()).collect();
    let mut triggers: BTreeMap<String, (String, bool)> = BTreeMap::new();
    for t in &corpus {
        for elisp in [false, true] {
            if let Ok(Some(e)) = std::panic::catch_unwind(|| parse_text(t, elisp)) {
                let d = e.to_string();
                let msg = d.split(" at line ").next().unwrap_or("").to_string();
                triggers.entry(msg).or_insert((t.clone(), elisp));
            }
        }
    }
    // (1) spec -> code: the behaviours of X09.tla
    let mut cases = 0u64;
    for line in std::fs::read_to_string(cfg["cases_file"].as_str().unwrap()).expect("cases").lines() {
        if line.trim().is_empty() {
            continue;
        }
        let c: J = serde_json::from_str(line).unwrap();
        cases += 1;
        let mut origin = c["origin"].clone();
        if origin["kind"] == "code" {
            origin["message"] = c["message"].clone();
        }
        let path: Vec<String> = c["path"].as_array().unwrap().iter().map(|s| s.as_str().unwrap().to_string()).collect();
        let r = std::panic::catch_unwind(|| {
            let mut why = Vec::new();
            let mut e = match raise(&origin, &triggers) {
                Ok(e) => e,
                Err(w) => return (vec![format!("untriggered: {}", w)], J::Null, J::Null),
            };
            let o0 = observe(&e, &mut why);
            for h in &path {
                e = step(e, h);
            }
            let o = observe(&e, &mut why);
            let want = &c["obs"];
            if o["layer"] != want["layer"] {
                why.push(format!("layer {} where the model has {}", o["layer"], want["layer"]));
            }
            if o["category"] != want["category"] {
                why.push(format!("category {} where the model has {}", o["category"], want["category"]));
            }
            if o["kind"] != want["kind"] {
                why.push(format!("io::ErrorKind {} where the model has {}", o["kind"], want["kind"]));
            }
            if (o["loc"].as_array().map_or(0, |a| a.len()) > 0) != want["has_loc"].as_bool().unwrap() {
                why.push(format!("location {} where the model has has_loc = {}", o["loc"], want["has_loc"]));
            }
            if o["layer"] != "io" && (o["source"] == "none") != (want["source"] == "none") {
                why.push(format!("source() {} where the model has {}", o["source"], want["source"]));
            }
            if (o["display"] == o0["display"]) != want["display_is_origin"].as_bool().unwrap() {
                why.push(format!("Display changed on the way up: {} then {}", o0["display"], o["display"]));
            }
            (why, o0, o)
        });
        match r {
            Ok((why, o0, o)) => {
                for w in why {
                    bad.push(json!({"rule": if w.starts_with("untriggered") { "untriggered" } else { "model" }, "origin": origin, "path": path, "why": w}));
                }
                if !o.is_null() {
                    let mut org = origin.clone();
                    if org["kind"] == "code" {
                        org["loc"] = o0["loc"].clone();
                        org["code"] = c["origin"]["code"].clone();
                    }
                    trace.push(json!({"origin": org, "path": path, "obs": o}));
                }
            }
            Err(_) => bad.push(json!({"rule": "panic", "origin": origin, "path": path, "why": "a conversion or an accessor panicked"})),
        }
    }
    // (2) code -> spec: errors as the parser raises them, from every text of the corpus, through the fixed chains
    let chains: [&[&str]; 6] = [&[], &["into_io"], &["into_serde"], &["into_serde", "into_io"], &["into_io", "into_serde"],
                               &["into_io", "into_parse", "into_serde", "into_io"]];
    let mut natural = 0u64;
    let mut seen_codes: BTreeMap<String, u64> = BTreeMap::new();
    for t in &corpus {
        for elisp in [false, true] {
            for chain in chains.iter() {
                let r = std::panic::catch_unwind(|| {
                    let p = parse_text(t, elisp)?;
                    let mut why = Vec::new();
                    let o0 = observe(&E::Parse(p), &mut why);
                    let mut e = E::Parse(parse_text(t, elisp).unwrap());
                    for h in chain.iter() {
                        e = step(e, h);
                    }
                    let o = observe(&e, &mut why);
                    Some((why, o0, o))
                });
                match r {
                    Ok(None) => {}
                    Ok(Some((why, o0, o))) => {
                        natural += 1;
                        let d = o0["display"].as_str().unwrap().to_string();
                        match code_of(&d) {
                            None => bad.push(json!({"rule": "message", "origin": {"kind": "code", "text": t}, "path": chain, "why": format!("'{}' is not the text of any error code", d)})),
                            Some(code) => {
                                *seen_codes.entry(code.to_string()).or_insert(0) += 1;
                                let eof_prefix = d.starts_with("EOF while parsing");
                                if eof_prefix != (o0["category"] == "Eof") {
                                    bad.push(json!({"rule": "eof-text", "origin": {"kind": "code", "text": t}, "path": chain,
                                                    "why": format!("'{}' has category {}", d, o0["category"])}));
                                }
                                trace.push(json!({"origin": {"kind": "code", "code": code, "loc": o0["loc"], "text": t}, "path": chain, "obs": o}));
                            }
                        }
                        for w in why {
                            bad.push(json!({"rule": "accessors", "origin": {"kind": "code", "text": t}, "path": chain, "why": w}));
                        }
                    }
                    Err(_) => bad.push(json!({"rule": "panic", "origin": {"kind": "code", "text": t}, "path": chain, "why": "a conversion or an accessor panicked"})),
                }
            }
        }
    }
    // (3) errors as serde-lexpr raises them: a failing reader, a failing writer, a type mismatch
    for kind in ["Other", "NotFound", "BrokenPipe", "UnexpectedEof", "InvalidData", "TimedOut"] {
        for chain in [&[][..], &["into_io"][..], &["into_io", "into_serde"][..]] {
            let r = std::panic::catch_unwind(|| {
                let mut why = Vec::new();
                let e0 = serde_lexpr::from_reader::<u8>(FailWith(Some(io::Error::new(kind_of(kind), "boom")))).err().expect("failing reader");
                let mut e = E::Serde(e0);
                for h in chain.iter() {
                    e = step(e, h);
                }
                (observe(&e, &mut why), why)
            });
            match r {
                Ok((o, why)) => {
                    natural += 1;
                    let mut p = vec!["into_serde".to_string()];
                    p.extend(chain.iter().map(|s| s.to_string()));
                    trace.push(json!({"origin": {"kind": "parse_io", "io": kind}, "path": p, "obs": o}));
                    for w in why {
                        bad.push(json!({"rule": "accessors", "origin": {"kind": "parse_io", "io": kind}, "path": chain, "why": w}));
                    }
                }
                Err(_) => bad.push(json!({"rule": "panic", "origin": {"kind": "serde from_reader", "io": kind}, "path": chain, "why": "a conversion or an accessor panicked"})),
            }
        }
    }
    for (what, e) in [("u8 from a symbol", serde_lexpr::from_str::<u8>("x").err()), ("char from a number", serde_lexpr::from_str::<char>("12").err()), ("bool from nil", serde_lexpr::from_str::<bool>("#nil").err()),
                      ("unit from a list", serde_lexpr::from_str::<()>("(1 2)").err())] {
        match e {
            None => {}
            Some(e) => {
                let text = e.to_string();
                if text.contains('"') || text.contains('\\') {
                    continue; // the model's Debug does not spell out Rust's string escaping
                }
                natural += 1;
                let mut why = Vec::new();
                let o = observe(&E::Serde(e), &mut why);
                let _ = what;
                trace.push(json!({"origin": {"kind": "serde_msg", "text": text}, "path": [], "obs": o}));
            }
        }
    }
    json!({"bad": bad, "cases": cases, "natural": natural, "codes_seen": seen_codes, "triggers": triggers.iter().map(|(k, v)| json!([k, v.0, v.1])).collect::<Vec<_>>(), "trace": trace})
}
