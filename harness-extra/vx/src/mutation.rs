//! X01: replay of the mutation machine (spec/Mutation.tla, spec/extra/X01.tla).
//!
//! Each case is one behaviour: an initial root and a sequence of actions with the model's root
//! and accessor observations after each. The actions go through the public mutation API only.

use crate::codec::*;
use lexpr::Value;
use serde_json::{json, Value as J};

fn none() -> J {
    json!({"k":"-"})
}

fn step_mut<'a>(v: &'a mut Value, s: &str) -> Option<&'a mut Value> {
    match s {
        "a" => v.as_cons_mut().map(|c| c.car_mut()),
        "d" => v.as_cons_mut().map(|c| c.cdr_mut()),
        e => {
            let i: usize = e[1..].parse().ok()?;
            v.as_slice_mut().and_then(|sl| sl.get_mut(i - 1))
        }
    }
}

fn navigate<'a>(root: &'a mut Value, path: &J) -> Option<&'a mut Value> {
    let mut cur = root;
    for s in path.as_array().unwrap() {
        cur = step_mut(cur, s.as_str().unwrap())?;
    }
    Some(cur)
}

fn observe(v: &Value) -> J {
    let mut yielded = Vec::new();
    if let Some(mut it) = v.list_iter() {
        let mut guard = 0;
        loop {
            guard += 1;
            match it.next() {
                Some(x) => yielded.push(val_to_json(x)),
                None => {
                    if it.is_empty() {
                        break;
                    }
                    yielded.push(none());
                }
            }
            if guard > 10000 {
                break;
            }
        }
    }
    let (cars, tail) = match v {
        Value::Cons(c) => {
            let (xs, t) = c.to_vec();
            let (rxs, rt) = c.to_ref_vec();
            let same = xs.len() == rxs.len() && xs.iter().zip(rxs.iter()).all(|(a, b)| a == *b) && &t == rt;
            let (ixs, it) = c.clone().into_vec();
            let same2 = ixs == xs && it == t;
            if !(same && same2) {
                (vec![json!("to_vec / to_ref_vec / into_vec disagree")], none())
            } else {
                (xs.iter().map(val_to_json).collect(), val_to_json(&t))
            }
        }
        other => (vec![], val_to_json(other)),
    };
    // Value::to_vec is Some exactly for proper lists
    let tv = v.to_vec().map(|xs| xs.iter().map(val_to_json).collect::<Vec<_>>());
    json!({"islist": v.is_list(), "isdotted": v.is_dotted_list(), "iscons": v.is_cons(), "cars": cars, "tail": tail,
           "yield": yielded, "tovec": tv})
}

pub fn run(cfg: &J) -> J {
    let mut bad = Vec::new();
    let mut trace = Vec::new();
    let (mut nb, mut ns) = (0u64, 0u64);
    let every = cfg["trace_every"].as_u64().unwrap_or(1);
    for (ci, line) in std::fs::read_to_string(cfg["cases_file"].as_str().unwrap()).expect("cases").lines().enumerate() {
        if line.trim().is_empty() {
            continue;
        }
        nb += 1;
        let c: J = serde_json::from_str(line).unwrap();
        let r = std::panic::catch_unwind(|| {
            let mut local_bad: Vec<J> = Vec::new();
            let mut events: Vec<J> = Vec::new();
            let mut root = json_to_val(&c["init"]);
            let mut clones: Vec<(Value, J)> = Vec::new();
            let mut prev = c["init"].clone();
            for (si, st) in c["steps"].as_array().unwrap().iter().enumerate() {
                let act = &st["act"];
                let op = act["op"].as_str().unwrap();
                let done = match op {
                    "snapshot" => {
                        clones.push((root.clone(), prev.clone()));
                        true
                    }
                    "setcar" => navigate(&mut root, &act["p"]).and_then(|t| t.as_cons_mut()).map(|c| c.set_car(json_to_val(&act["v"]))).is_some(),
                    "setcdr" => navigate(&mut root, &act["p"]).and_then(|t| t.as_cons_mut()).map(|c| c.set_cdr(json_to_val(&act["v"]))).is_some(),
                    "setelem" => {
                        let i: usize = act["s"].as_str().unwrap()[1..].parse().unwrap();
                        navigate(&mut root, &act["p"])
                            .and_then(|t| t.as_slice_mut())
                            .and_then(|sl| sl.get_mut(i - 1))
                            .map(|slot| *slot = json_to_val(&act["v"]))
                            .is_some()
                    }
                    _ => false,
                };
                let got = val_to_json(&root);
                let obs = observe(&root);
                if !done {
                    local_bad.push(json!({"rule":"enabled","why":"the model enables the action but the API offers no such cell","step":si}));
                }
                if got != st["after"] {
                    local_bad.push(json!({"rule":"state","why":format!("after step {} the root is {} but the model says {}", si, root, json_to_val(&st["after"])),"step":si}));
                }
                for k in ["islist", "isdotted", "iscons", "cars", "tail", "yield"] {
                    if obs[k] != st["obs"][k] {
                        local_bad.push(json!({"rule":"observe","why":format!("accessor {} reports {} on {}, the model says {}", k, obs[k], root, st["obs"][k]),"step":si}));
                    }
                }
                let want_tovec = if st["obs"]["islist"] == true { st["obs"]["cars"].clone() } else { J::Null };
                if obs["tovec"] != want_tovec {
                    local_bad.push(json!({"rule":"observe","why":format!("Value::to_vec reports {} on {}", obs["tovec"], root),"step":si}));
                }
                for (k, (cl, want)) in clones.iter().enumerate() {
                    if val_to_json(cl) != *want {
                        local_bad.push(json!({"rule":"clone","why":format!("clone {} changed to {} after step {}", k, cl, si),"step":si}));
                    }
                }
                let mut a2 = act.clone();
                if a2.get("p").is_none() {
                    a2["p"] = json!([]);
                }
                if a2.get("s").is_none() {
                    a2["s"] = json!("-");
                }
                if a2.get("v").is_none() {
                    a2["v"] = json!({"k":"null"});
                }
                events.push(json!({"ev":"step","first":si == 0,"before":prev,"act":a2,"after":got,
                                   "obs":{"islist":obs["islist"],"isdotted":obs["isdotted"],"iscons":obs["iscons"],"cars":obs["cars"],"tail":obs["tail"],"yield":obs["yield"]},
                                   "clones":clones.iter().map(|(cl, _)| val_to_json(cl)).collect::<Vec<_>>()}));
                prev = st["after"].clone();
            }
            (local_bad, events)
        });
        match r {
            Ok((lb, evs)) => {
                ns += evs.len() as u64;
                for mut b in lb {
                    b["case"] = c.clone();
                    bad.push(b);
                }
                if ci as u64 % every == 0 {
                    trace.extend(evs);
                }
            }
            Err(p) => bad.push(json!({"rule":"panic","why":format!("mutation API panicked: {}", panic_json(p)["msg"]),"case":c})),
        }
    }
    json!({"bad": bad, "trace": trace, "behaviours": nb, "steps": ns})
}
