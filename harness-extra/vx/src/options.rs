//! X05: the option builders (spec/OptionsAlgebra.tla): builder chains from TLC are executed; parser
//! options are read back through their getters, printer options are observed through the text of probes.

use crate::codec::*;
use lexpr::parse::{Brackets, KeywordSyntax, NilSymbol, Options as ParseOptions, TSymbol};
use lexpr::print::{BoolSyntax, BytesSyntax, CharSyntax, NilSyntax, Options as PrintOptions, StringSyntax, VectorSyntax};
use serde_json::{json, Value as J};

fn kw(a: &str) -> KeywordSyntax {
    match a {
        "octo" => KeywordSyntax::Octothorpe,
        "prefix" => KeywordSyntax::ColonPrefix,
        _ => KeywordSyntax::ColonPostfix,
    }
}

fn strs(a: &str) -> StringSyntax {
    if a == "elisp" { StringSyntax::Elisp } else { StringSyntax::R6RS }
}

fn chrs(a: &str) -> CharSyntax {
    if a == "elisp" { CharSyntax::Elisp } else { CharSyntax::R6RS }
}

fn build_parse(calls: &J) -> ParseOptions {
    let mut o = ParseOptions::new();
    for c in calls.as_array().unwrap() {
        let a = c["a"].as_str().unwrap();
        o = match c["m"].as_str().unwrap() {
            "default" => ParseOptions::default(),
            "new" => ParseOptions::new(),
            "elisp" => ParseOptions::elisp(),
            "kw" => o.with_keyword_syntax(kw(a)),
            "kws" => {
                let mut v = Vec::new();
                if a.contains('o') { v.push(KeywordSyntax::Octothorpe) }
                if a.contains('p') { v.push(KeywordSyntax::ColonPrefix) }
                if a.contains('q') { v.push(KeywordSyntax::ColonPostfix) }
                o.with_keyword_syntaxes(v)
            }
            "nil" => o.with_nil_symbol(match a { "sym" => NilSymbol::Default, "null" => NilSymbol::EmptyList, _ => NilSymbol::Special }),
            "t" => o.with_t_symbol(if a == "true" { TSymbol::True } else { TSymbol::Default }),
            "br" => o.with_brackets(if a == "vec" { Brackets::Vector } else { Brackets::List }),
            "str" => o.with_string_syntax(strs(a)),
            "chr" => o.with_char_syntax(chrs(a)),
            "racket" => o.with_racket_hash_percent_symbols(a == "true"),
            "digits" => o.with_leading_digit_symbols(a == "true"),
            m => panic!("parse builder {}", m),
        };
    }
    o
}

fn read_back(o: ParseOptions) -> J {
    json!({
        "kw": [o.keyword_syntax(KeywordSyntax::Octothorpe), o.keyword_syntax(KeywordSyntax::ColonPrefix), o.keyword_syntax(KeywordSyntax::ColonPostfix)],
        "nil": match o.nil_symbol() { NilSymbol::Default => "sym", NilSymbol::EmptyList => "null", NilSymbol::Special => "special" },
        "t": match o.t_symbol() { TSymbol::Default => "sym", TSymbol::True => "true" },
        "br": match o.brackets() { Brackets::List => "list", Brackets::Vector => "vec" },
        "str": match o.string_syntax() { StringSyntax::R6RS => "r6rs", StringSyntax::Elisp => "elisp" },
        "chr": match o.char_syntax() { CharSyntax::R6RS => "r6rs", CharSyntax::Elisp => "elisp" },
        "racket": o.racket_hash_percent_symbols(),
        "digits": o.leading_digit_symbols(),
    })
}

fn build_print(calls: &J) -> PrintOptions {
    let mut o = PrintOptions::default();
    for c in calls.as_array().unwrap() {
        let a = c["a"].as_str().unwrap();
        o = match c["m"].as_str().unwrap() {
            "default" => PrintOptions::default(),
            "elisp" => PrintOptions::elisp(),
            "kw" => o.with_keyword_syntax(kw(a)),
            "nil" => o.with_nil_syntax(match a { "sym" => NilSyntax::Symbol, "token" => NilSyntax::Token, "null" => NilSyntax::EmptyList, _ => NilSyntax::False }),
            "bool" => o.with_bool_syntax(if a == "sym" { BoolSyntax::Symbol } else { BoolSyntax::Token }),
            "vec" => o.with_vector_syntax(if a == "br" { VectorSyntax::Brackets } else { VectorSyntax::Octothorpe }),
            "bytes" => o.with_bytes_syntax(match a { "r6rs" => BytesSyntax::R6RS, "r7rs" => BytesSyntax::R7RS, _ => BytesSyntax::Elisp }),
            "str" => o.with_string_syntax(strs(a)),
            "chr" => o.with_char_syntax(chrs(a)),
            m => panic!("print builder {}", m),
        };
    }
    o
}

pub fn run(cfg: &J) -> J {
    let mut bad = Vec::new();
    let mut trace = Vec::new();
    let mut n = 0u64;
    let mut probes: Vec<lexpr::Value> = Vec::new();
    let mut probes_j = json!([]);
    let lines: Vec<J> = std::fs::read_to_string(cfg["cases_file"].as_str().unwrap()).expect("cases").lines()
        .filter(|l| !l.trim().is_empty()).map(|l| serde_json::from_str(l).unwrap()).collect();
    for c in &lines {
        if c["probes"].as_array().map(|a| !a.is_empty()).unwrap_or(false) {
            probes_j = c["probes"].clone();
            probes = probes_j.as_array().unwrap().iter().map(json_to_val).collect();
            break;
        }
    }
    for c in &lines {
        n += 1;
        let r = std::panic::catch_unwind(|| {
            if c["side"] == "parse" {
                let got = read_back(build_parse(&c["calls"]));
                let why = if got != c["opts"] { Some(format!("getters report {} but the calls denote {}", got, c["opts"])) } else { None };
                (json!({"side":"parse","calls":c["calls"],"got":got,"probes":[],"texts":[]}), why)
            } else {
                let o = build_print(&c["calls"]);
                let texts: Vec<J> = probes.iter().map(|v| bytes_j(lexpr::to_string_custom(v, o).unwrap_or_default().as_bytes())).collect();
                let mut why = None;
                for (i, t) in texts.iter().enumerate() {
                    if *t != c["texts"][i] {
                        why = Some(format!("probe {} prints as {:?}, documented {:?}", probes[i], String::from_utf8_lossy(&j_bytes(t)), String::from_utf8_lossy(&j_bytes(&c["texts"][i]))));
                        break;
                    }
                }
                (json!({"side":"print","calls":c["calls"],"got":{"kw":"-"},"probes":probes_j,"texts":texts}), why)
            }
        });
        match r {
            Ok((ev, why)) => {
                if let Some(w) = why {
                    bad.push(json!({"rule":"options","why":w,"side":c["side"],"calls":c["calls"]}));
                }
                trace.push(ev);
            }
            Err(p) => bad.push(json!({"rule":"panic","why":format!("{}", panic_json(p)["msg"]),"side":c["side"],"calls":c["calls"]})),
        }
    }
    json!({"bad": bad, "trace": trace, "chains": n})
}
