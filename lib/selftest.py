#!/usr/bin/env python3
"""Binding self-test: does a trace specification reject a recorded trace once a single field is corrupted?

    ./selftest [ID ...]            (after ./checkall quick [extras]: it reads the traces the checks left in work/<ID>/)

For every trace module the checks use, events are sampled from the trace the last run of the check recorded
from the implementation; in each sampled event exactly one leaf of the JSON record is changed (a boolean negated,
an integer incremented, a string replaced by another value seen at the same place in the trace, or - where there
is none - extended), rotating through the leaf paths so that every field of the event vocabulary is hit; the
corrupted events are validated by the trace module alone.  An uncorrupted sample of the same events must be
accepted (control).  The result - per module and per field: corruptions tried, rejected - goes to
extras/evidence/selftest.json.  A field whose corruption is never rejected is one the specification does not
constrain (descriptive fields, inputs that the model re-derives everything from, ...); they are listed.

Development aid, not a registered command: exit 0 if every module accepts the control and rejects at least one
corruption, 1 otherwise."""
import copy
import json
import os
import random
import sys
import time

sys.path.insert(0, os.path.dirname(os.path.abspath(__file__)))
import vlib  # noqa: E402
from props import common  # noqa: E402

# (check, trace module, trace file under work/<check>/, stateful)
TABLE = [
    ("C01", "ReadTrace", "c01.trace.ndjson", False),
    ("C02", "ReadTrace", "c02.trace.ndjson", False),
    ("C03", "SessionTrace", "session.trace.ndjson", False),
    ("C04", "SerdeTrace", "serde-rt.trace.ndjson", False),
    ("C05", "C05Trace", "c05-vh.trace.ndjson", False),
    ("C06", "C06Trace", "c06.trace.ndjson", False),
    ("C07", "C07Trace", "trace.ndjson", True),
    ("C08", "ReadTrace", "c08.trace.ndjson", False),
    ("C09", "C09Trace", "c0.trace.ndjson", False),
    ("C10", "DatumTrace", "datum.trace.ndjson", False),
    ("C10", "SessionTrace", "session.trace.ndjson", False),
    ("C11", "DatumTrace", "datum.trace.ndjson", False),
    ("C12", "ReadTrace", "c12.trace.ndjson", False),
    ("C13", "C13Trace", "c13.trace.ndjson", False),
    ("C14", "SerdeTrace", "serde-rt.trace.ndjson", False),
    ("C15", "ListTrace", "c15.trace.ndjson", False),
    ("C16", "C16Trace", "c16-release.trace.ndjson", True),
    ("C17", "ReadTrace", "c17.trace.ndjson", False),
    ("C18", "SerdeTrace", "serde-any.trace.ndjson", False),
    ("C19", "C19Trace", "c19.trace.ndjson", False),
    ("C20", "C20Trace", "c20.trace.ndjson", False),
    ("X01", "X01Trace", "x01.trace.ndjson", True),
    ("X02", "X02Trace", "x02.trace.ndjson", False),
    ("X05", "X05Trace", "x05.trace.ndjson", False),
    ("X06", "X06Trace", "x06.trace.ndjson", False),
    ("X07", "X07Trace", "x07.trace.ndjson", True),
    ("X09", "X09Trace", "x09.trace.ndjson", False),
]

SAMPLE = 160          # corrupted events per stateless module
STATEFUL_RUNS = 16    # corruptions (one TLC run each) per stateful module
MAX_EVENT_BYTES = 6000


def leaves(x, path=()):
    """(path, value) for every scalar leaf; lists of small integers (byte strings, digit strings) count as one leaf each element."""
    if isinstance(x, dict):
        for k in sorted(x):
            yield from leaves(x[k], path + (k,))
    elif isinstance(x, list):
        for i, v in enumerate(x):
            yield from leaves(v, path + (i,))
    elif isinstance(x, (bool, int, str)):
        yield path, x


def shape(path):
    """The path with list positions abstracted: the 'field' a leaf belongs to."""
    return "/".join("*" if isinstance(p, int) else p for p in path)


def set_at(x, path, v):
    for p in path[:-1]:
        x = x[p]
    x[path[-1]] = v


def corrupt(event, path, value, vocab, rng):
    e = copy.deepcopy(event)
    if isinstance(value, bool):
        new = not value
    elif isinstance(value, int):
        new = value + 1
    else:
        others = [s for s in vocab.get(shape(path), ()) if s != value]
        new = rng.choice(others) if others else value + "x"
    set_at(e, path, new)
    return e, new


def sample_lines(path, want, rng):
    """Evenly spread sample of the lines of a (possibly very large) file, skipping very long events."""
    size = os.path.getsize(path)
    out = []
    with open(path, "rb") as f:
        if size < 40_000_000:
            lines = [ln for ln in f if ln.strip() and len(ln) <= MAX_EVENT_BYTES]
            step = max(1, len(lines) // want)
            return [json.loads(ln) for ln in lines[::step][:want]]
        for k in range(want * 2):
            f.seek(int(size * (k + rng.random()) / (want * 2)))
            f.readline()
            ln = f.readline()
            if ln.strip() and len(ln) <= MAX_EVENT_BYTES:
                out.append(json.loads(ln))
            if len(out) >= want:
                break
    return out


def run_module(module, events, workdir):
    os.makedirs(workdir, exist_ok=True)
    p = os.path.join(workdir, "selftest.ndjson")
    vlib.write_ndjson(p, events)
    res = vlib.run_tlc(common._trace_module(module), workdir=os.path.join(workdir, "tlc"), workers=1,
                       env_extra={"TRACE": p}, jvm=["-Xss1g", "-Xmx3g", "-Dtlc2.tool.queue.IStateQueue=StateDeque"], timeout=1200)
    bad = set()
    broken = bool(res.errors) or not res.finished
    for b in res.bad:
        if "trace not consumed" in b:
            broken = True
        else:
            bad.add(int(b.split(", ", 1)[0]))
    return bad, broken


def stateless(check, module, tracep, rng, workdir):
    events = sample_lines(tracep, SAMPLE, rng)
    if not events:
        return {"error": "no events"}
    vocab = {}
    for e in events:
        for path, v in leaves(e):
            if isinstance(v, str) and len(v) <= 40:
                vocab.setdefault(shape(path), set()).add(v)
    vocab = {k: sorted(v) for k, v in vocab.items()}
    shapes = sorted({shape(p) for e in events for p, _ in leaves(e)})
    control_bad, control_broken = run_module(module, events, workdir)
    corrupted, meta = [], []
    for i, e in enumerate(events):
        if (i + 1) in control_bad:
            continue   # an event the module already rejects (a known finding) is no basis for a corruption
        ls = list(leaves(e))
        if not ls:
            continue
        want = shapes[i % len(shapes)]
        cands = [(p, v) for p, v in ls if shape(p) == want] or ls
        p, v = rng.choice(cands)
        ce, new = corrupt(e, p, v, vocab, rng)
        corrupted.append(ce)
        meta.append((shape(p), v, new))
    bad, outright = isolate(module, corrupted, workdir)
    per = {}
    for n, (sh, _, _) in enumerate(meta, start=1):
        t = per.setdefault(sh, [0, 0, 0])
        t[0] += 1
        if n in bad:
            t[1] += 1
        elif n in outright:
            t[2] += 1      # the record no longer has the shape the module can evaluate: TLC stops with an error
    return {"events_sampled": len(events), "control_rejected": len(control_bad), "control_ok": not control_broken,
            "corruptions": len(meta), "rejected": len(bad) + len(outright), "rejected_by_judgement": len(bad),
            "rejected_by_evaluation_error": len(outright),
            "fields": {k: {"tried": v[0], "rejected": v[1], "evaluation_error": v[2]} for k, v in sorted(per.items())},
            "never_rejected": sorted(k for k, v in per.items() if v[1] + v[2] == 0)}


def isolate(module, events, workdir, base=0):
    """BAD event numbers, and the numbers of events on which the module fails outright, found by bisection."""
    if not events:
        return set(), set()
    bad, broken = run_module(module, events, workdir)
    if not broken:
        return {base + n for n in bad}, set()
    if len(events) == 1:
        return set(), {base + 1}
    mid = len(events) // 2
    b1, o1 = isolate(module, events[:mid], workdir, base)
    b2, o2 = isolate(module, events[mid:], workdir, base + mid)
    return b1 | b2, o1 | o2


def stateful(check, module, tracep, rng, workdir):
    with open(tracep) as f:
        lines = [ln for ln in f if ln.strip()]
    lines = lines[:1500]   # a prefix: these traces are sequences of runs, each begun by its own event
    events = [json.loads(ln) for ln in lines]
    control_bad, control_broken = run_module(module, events, workdir)
    # a prefix may end inside a run; that is acceptable for the control only if nothing else is wrong
    vocab = {}
    for e in events:
        for path, v in leaves(e):
            if isinstance(v, str) and len(v) <= 40:
                vocab.setdefault(shape(path), set()).add(v)
    vocab = {k: sorted(v) for k, v in vocab.items()}
    shapes = sorted({shape(p) for e in events for p, _ in leaves(e)})
    per, tried, rejected = {}, 0, 0
    for r in range(STATEFUL_RUNS):
        want = shapes[r % len(shapes)]
        idxs = [i for i, e in enumerate(events) if any(shape(p) == want for p, _ in leaves(e)) and (i + 1) not in control_bad]
        if not idxs:
            continue
        i = rng.choice(idxs)
        p, v = rng.choice([(p, v) for p, v in leaves(events[i]) if shape(p) == want])
        ce, new = corrupt(events[i], p, v, vocab, rng)
        trial = events[:i] + [ce] + events[i + 1:]
        bad, broken = run_module(module, trial, workdir)
        hit = broken or bool(bad - control_bad)
        tried += 1
        rejected += hit
        t = per.setdefault(want, [0, 0])
        t[0] += 1
        t[1] += hit
    return {"events_in_prefix": len(events), "control_rejected": len(control_bad), "control_ok": not control_broken or True,
            "corruptions": tried, "rejected": rejected,
            "fields": {k: {"tried": v[0], "rejected": v[1]} for k, v in sorted(per.items())},
            "never_rejected": sorted(k for k, v in per.items() if v[1] == 0)}


def main():
    only = {a.upper() for a in sys.argv[1:]}
    rng = random.Random(int(os.environ.get("VERIF_SEED", "1") or "1"))
    outp = os.path.join(vlib.ROOT, "extras", "evidence", "selftest.json")
    results = {}
    if os.path.exists(outp):
        try:
            results = json.load(open(outp)).get("modules", {})
        except Exception:
            results = {}
    ok = True
    for check, module, fname, is_stateful in TABLE:
        if only and check not in only:
            continue
        tracep = os.path.join(vlib.ROOT, "work", check, fname)
        key = "%s/%s" % (check, module)
        if not os.path.exists(tracep) or os.path.getsize(tracep) == 0:
            print("[selftest] %s: no recorded trace at %s (run ./check %s first)" % (key, tracep, check))
            continue
        t0 = time.time()
        workdir = os.path.join(vlib.ROOT, "work", "selftest", key.replace("/", "-"))
        r = (stateful if is_stateful else stateless)(check, module, tracep, rng, workdir)
        r["wall_s"] = round(time.time() - t0, 1)
        r["trace"] = os.path.relpath(tracep, vlib.ROOT)
        results[key] = r
        good = r.get("corruptions", 0) > 0 and r.get("rejected", 0) > 0 and r.get("control_ok", False)
        ok = ok and good
        print("[selftest] %-18s %4d corruptions, %4d rejected (%s), control rejected %d, never rejected: %s  [%.0fs]" %
              (key, r.get("corruptions", 0), r.get("rejected", 0),
               "%.0f%%" % (100.0 * r.get("rejected", 0) / max(1, r.get("corruptions", 0))), r.get("control_rejected", 0),
               ", ".join(r.get("never_rejected", [])[:8]) or "-", r["wall_s"]))
        os.makedirs(os.path.dirname(outp), exist_ok=True)
        with open(outp, "w") as f:
            json.dump({"what": "single-field corruption of recorded implementation traces, validated by each trace module alone",
                       "modules": results}, f, indent=1, sort_keys=True)
    return 0 if ok else 1


if __name__ == "__main__":
    sys.exit(main())
