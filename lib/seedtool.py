#!/usr/bin/env python3
"""Development aid for seeded changes (see DESIGN.md section 4.4 and the brief):
   seedtool.py verify <worktree> <X.diff> <demo.rs>     confirm: compiles, 107 tests pass, demo fails with / passes without
   seedtool.py detect <X.diff> <ID> [<ID> ...]           apply to /repo, run quick checks, undo; prints which checks caught it
"""
import json, os, re, subprocess, sys, shutil, time


def sh(cmd, cwd=None, timeout=3600):
    p = subprocess.run(cmd, cwd=cwd, shell=isinstance(cmd, str), stdout=subprocess.PIPE, stderr=subprocess.STDOUT, text=True, timeout=timeout)
    return p.returncode, p.stdout


def demo_place(demo):
    first = open(demo).readline()
    m = re.search(r"place at (\S+)", first)
    return m.group(1) if m else "lexpr/tests/seeded_demo.rs"


def verify(wt, diff, demo):
    res = {}
    sh("git checkout -- . && git clean -fdq -e out -e target", cwd=wt)
    rc, out = sh(["git", "apply", "--check", diff], cwd=wt)
    res["applies"] = rc == 0
    if rc != 0:
        res["error"] = out[-500:]
        return res
    place = demo_place(demo)
    name = os.path.splitext(os.path.basename(place))[0]
    pkg = "serde-lexpr" if place.startswith("serde-lexpr") else "lexpr"
    # with the change
    sh(["git", "apply", diff], cwd=wt)
    rc, out = sh("cargo nextest run --workspace --no-fail-fast --offline 2>&1 | tail -5", cwd=wt)
    m = re.search(r"(\d+) tests run: (\d+) passed", out)
    res["suite_with_change"] = m.group(0) if m else out[-300:]
    res["suite_ok"] = bool(m and m.group(1) == m.group(2) == "107")
    shutil.copy(demo, os.path.join(wt, place))
    rc, out = sh("cargo test --offline -p %s --test %s 2>&1 | tail -15" % (pkg, name), cwd=wt)
    m = re.search(r"test result: (\w+)\. (\d+) passed; (\d+) failed", out)
    res["demo_with_change"] = m.group(0) if m else out[-400:]
    res["demo_fails_with_change"] = bool(m and int(m.group(3)) > 0) or "error: test failed" in out or "SIGABRT" in out or "overflowed" in out
    # without the change
    sh(["git", "apply", "-R", diff], cwd=wt)
    rc, out = sh("cargo test --offline -p %s --test %s 2>&1 | tail -15" % (pkg, name), cwd=wt)
    m = re.search(r"test result: (\w+)\. (\d+) passed; (\d+) failed", out)
    res["demo_without_change"] = m.group(0) if m else out[-400:]
    res["demo_passes_without_change"] = bool(m and m.group(1) == "ok")
    os.remove(os.path.join(wt, place))
    sh("git checkout -- .", cwd=wt)
    res["confirmed"] = res["suite_ok"] and res["demo_fails_with_change"] and res["demo_passes_without_change"]
    return res


def detect(diff, ids):
    out = {}
    rc, o = sh(["git", "-C", "/repo", "status", "--porcelain"])
    if o.strip():
        raise SystemExit("/repo is not clean: " + o)
    diff = os.path.abspath(diff)
    rc, o = sh(["git", "-C", "/repo", "apply", diff])
    if rc != 0:
        raise SystemExit("patch does not apply to /repo: " + o)
    try:
        for i in ids:
            t0 = time.time()
            rc, o = sh(["./check", i, "--tier", "quick"], cwd="/verif")
            nv = len(re.findall(r"^VIOLATION property=", o, re.M))
            m = re.search(r"(\d+) violations", o)
            first = re.search(r"violation: (.*)", o)
            out[i] = {"exit": rc, "violation_lines": nv, "violations": int(m.group(1)) if m else None,
                      "first": first.group(1)[:300] if first else None, "seconds": round(time.time() - t0, 1)}
    finally:
        sh(["git", "-C", "/repo", "checkout", "--", "."])
    return out


if __name__ == "__main__":
    if sys.argv[1] == "verify":
        print(json.dumps(verify(*sys.argv[2:5]), indent=1))
    else:
        print(json.dumps(detect(sys.argv[2], sys.argv[3:]), indent=1))
