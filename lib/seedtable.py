#!/usr/bin/env python3
"""Prints the markdown table of seeded changes and the checks that catch them (from seeded/*/meta.json)."""
import json
import os
import re

ROOT = os.path.dirname(os.path.dirname(os.path.abspath(__file__)))


def summary(seed_dir, letter):
    """First heading line of the sub-agent's notes for this change."""
    p = os.path.join(seed_dir, "notes.md")
    if not os.path.exists(p):
        return ""
    txt = open(p, encoding="utf-8").read()
    letter = {"c": "a", "d": "b", "e": "a", "f": "b", "g": "a", "h": "b"}.get(letter, letter)      # round-2 seeds c, d are the sub-agent's A, B
    pats = [r"^#+\s*(?:Change\s+)?%s\b[\s:\-–—.)]*(.+)$" % letter.upper(), r"^\*\*(?:Change\s+)?%s\b[\s:\-–—.)]*(.+?)\*\*" % letter.upper()]
    for pat in pats:
        m = re.search(pat, txt, re.M)
        if m:
            return re.sub(r"[`*]", "", m.group(1)).strip()[:150]
    return ""


def main():
    rows = []
    for d in sorted(os.listdir(os.path.join(ROOT, "seeded"))):
        mp = os.path.join(ROOT, "seeded", d, "meta.json")
        if not os.path.exists(mp):
            continue
        m = json.load(open(mp))
        det = m.get("detection", {})
        caught = ", ".join("%s (%d)" % (k, v["violations"]) for k, v in sorted(det.items()) if v["caught"]) or "—"
        missed = ", ".join(k for k, v in sorted(det.items()) if not v["caught"]) or ""
        rows.append((d, summary(os.path.join(ROOT, "seeded", d), d.split("-")[1]), caught, missed, m.get("note", "")))
    import sys
    out = []
    _print = out.append
    _print("| Seed | Change (sub-agent's title) | Caught by (violations reported, quick tier) | Also run, silent | Note |")
    _print("|---|---|---|---|---|")
    for r in rows:
        _print("| %s | %s | %s | %s | %s |" % r)
    table = "\n".join(out)
    if "--design" in sys.argv:
        dp = os.path.join(ROOT, "DESIGN.md")
        d = open(dp, encoding="utf-8").read()
        a = d.index("<!-- seedtable:begin -->") + len("<!-- seedtable:begin -->")
        b = d.index("<!-- seedtable:end -->")
        open(dp, "w", encoding="utf-8").write(d[:a] + "\n" + table + "\n" + d[b:])
    else:
        print(table)


if __name__ == "__main__":
    main()
