#!/usr/bin/env python3
"""Regenerates MANIFEST.json from the table below (single place to keep it valid and current)."""
import json
import os
import subprocess

ROOT = os.path.dirname(os.path.dirname(os.path.abspath(__file__)))

CHECKS = {
    "C01": dict(
        category="model_checking",
        text="TLC checks on the specification that the documented default printer followed by the documented default reader "
             "(spec/RefPrint.tla, spec/RefRead.tla) is the identity on a bounded universe of values of all 11 kinds, and emits "
             "every value with its reference text. The harness sends each of these, a probe set and seeded random values through "
             "all 4 print x 4 parse entry points of the implementation and compares with ==, floats by the accuracy rule of the "
             "property; the implementation must also read the reference printer's text as the value. Every printed text is then "
             "read by the TLA+ reference reader under TLC (trace validation): the independent reader of the documented grammar "
             "must obtain the original value.",
        design_ref="DESIGN.md section 6 (C01), sections 3.3, 3.4",
        note="Trusted: TLC; the reference reader/printer (cross-checked against each other by TLC and against the implementation on "
             "the unchanged tree); core's {:e} float formatting and str::parse::<f64> as float oracles. Bounded: TLC universe nests to "
             "depth 2; random values nest to depth 5 with strings up to 40 characters; the share of random texts judged by TLC is "
             "limited by a byte budget (evidence: traces_validated_against_impl), the rest only by the implementation-side comparison.",
        technique="TLA+ reference reader/printer model-checked with TLC; TLC-generated values replayed through 16 entry-point pairs; printed texts validated by TLC against the reference reader",
    ),
    "C02": dict(
        category="model_checking",
        text="TLC enumerates every printer option set (576) with the parser option sets compatible with it (quick: 4 representative "
             "ones per printer set; thorough: all, about 74 000 pairings) and checks on the reference reader/printer that the round "
             "trip yields the documented folding for every probe value. Every pairing x probe value is then executed on the "
             "implementation against the folding table TLC emitted, together with seeded random values; a sample of the printed "
             "texts is read by the TLA+ reference reader under the pairing's parser options (the independent reader of the "
             "Emacs Lisp subset).",
        design_ref="DESIGN.md section 6 (C02), sections 3.1, 3.3, 3.4",
        note="Trusted: TLC, the reference reader/printer, Sexp!Compatible and Sexp!Fold as the reading of 'recognises what the "
             "printer emits' and 'documented dialect folding'; the harness mirror of Fold (checked against TLC's table on every "
             "run). Names come from identifiers that are plain in every dialect. Probe set: 88 values.",
        technique="TLA+ reference reader/printer model-checked over all dialect pairings with TLC; pairings and folding table replayed into the implementation; printed texts validated by TLC",
    ),
    "C08": dict(
        category="model_checking",
        text="For every input of a token corpus (each token class with its near misses) in 7 syntactic contexts TLC evaluates the "
             "reference token classifier under all 1536 parser option sets, checks non-interference on the specification (the "
             "outcome depends only on the option dimensions the input exercises) and emits the expected outcome per projection "
             "class. The implementation parses every input under all 1536 option sets; each result is compared with the expected "
             "outcome and, independently of the reference, results are required to be identical within a projection class. A sample "
             "of (input, options, result) events is validated by TLC against the reference reader.",
        design_ref="DESIGN.md section 6 (C08), section 3.3, Appendix B",
        note="Trusted: TLC and the reference classifier (ClassifyToken, written from the documentation; outcomes the documentation "
             "does not determine are 'unspec' and only subject to the implementation-only relation). The corpus is finite (133 "
             "tokens x contexts); exhaustive over option sets.",
        technique="TLA+ declarative token classifier model-checked with TLC for non-interference over 1536 option sets; expected outcomes replayed into the parser; results validated by TLC",
    ),
    "C09": dict(
        category="translation_validation",
        text="TLC enumerates programs of the documented sexp! syntax from lexeme pools (every atom form, lists, dotted lists with "
             "22 kinds of tail, vectors, every atom next to every probe in both orders, nesting to depth 4) and checks on the "
             "specification that the reference reader reads Render(p) as the documented value ValueOf(p), and that the macro's "
             "token-level grammar (MacroRead over Tokenize, a rule-by-rule model of lexpr-macros/src/parser.rs) gives ValueOf(p) "
             "except where the source separates a lone - or : from what follows (the token stream cannot see it). Every program, "
             "plus seeded random trees of depth <= 5, is written into a generated crate, compiled against /repo and run; the "
             "verdict is the property's own relation sexp!(p) == from_slice(Render(p)); a program rustc rejects is a violation. "
             "Each compiled program's source, text and verdict are validated by TLC (C09Trace), which also recognises the "
             "recorded token-fusion finding by the value the as-built grammar predicts.",
        design_ref="DESIGN.md section 6 (C09)",
        note="Trusted: TLC, rustc, the rendering rule (lexemes separated by one space, minus attached to its number), and the "
             "reference reader for the meaning of the text. Each point costs a compilation, so coverage is the enumerated pools "
             "plus the seeded random programs; not exhaustive over depth 5.",
        technique="TLA+ model of the macro's token grammar and of the documented values model-checked with TLC; TLC-generated and random programs compiled in a generated crate and compared with the parser; results validated by TLC",
    ),
    "C13": dict(
        category="model_checking",
        text="TLC checks on the reference reader/printer that every accepted text - every word up to a bounded length over an "
             "alphabet of byte strings chosen for reader-lenient/printer-verbatim mismatches, and a corpus of single-datum texts - "
             "printed with the printer options corresponding to the parser options reads back as the documented folding and is a "
             "fixed point; it emits the alphabet, the option sets and PrinterFor. The harness runs the same words through the "
             "implementation (parse, print, parse, print, parse) and compares with ==/float accuracy; TLC then validates sampled "
             "(text, v, t1, v2, t2) events with the specification's Fold and reads t1 with the reference reader.",
        design_ref="DESIGN.md section 6 (C13)",
        note="Implementation-vs-implementation property: whether the first reading is right is C08's/C01's business. Interpretation: "
             "t2 = t1 is required when folding leaves the value unchanged and floats were re-read exactly; otherwise the folded "
             "value must itself be a fixed point. Bounded: words of length <= 4 (quick) / 5 (thorough) over 15 / 27 symbols; 3 / 8 "
             "option sets.",
        technique="TLA+ reference reader/printer fixed point model-checked with TLC over all short words; same words replayed through parse-print-parse; events validated by TLC",
    ),
    "C19": dict(
        category="model_checking",
        text="TLC checks on the reference reader that no proper byte prefix of any text of a corpus covering every token kind in "
             "both dialects is called malformed (only 'value' or 'incomplete'), and emits the texts. The harness parses every "
             "proper prefix of every text the implementation accepts (corpus, printed random values in both dialects, token-"
             "alphabet junk) and requires the EOF category for failures; every error from the three sources is checked for "
             "location bounds and io::Error kind; a sample of the error events is re-judged by TLC with the line/column "
             "arithmetic of spec/Text.tla.",
        design_ref="DESIGN.md section 6 (C19)",
        note="The premise 'the full text parses as a single datum' is evaluated on the implementation. Trusted: TLC, Text.tla "
             "NumLines/LineLen, the harness. Bounded by the corpus and the seeded generators.",
        technique="TLA+ reference reader model-checked with TLC over all prefixes of a token-kind corpus; prefixes replayed into the parser; error events validated by TLC",
    ),
    "C03": dict(
        category="model_checking",
        text="The parser session machine (spec/Session.tla: cursor, nesting budget, native recursion depth, one action per public "
             "call; every nesting construct - parentheses, brackets, vectors, the four quote shorthands, dotted tails - charges the "
             "budget) is model-checked for all token sequences up to a bounded length: recursion depth <= Limit, budget restored "
             "after every call, on every error path; the as-found deviations (quotes not charged, budget not refunded) are rejected "
             "by TLC. Every token sequence is rendered and run as real parser sessions with the budget set to the model's Limit, "
             "and each logged call (outcome, cursor, budget, recursion high-water mark) is validated by TLC against the machine. "
             "Pathological shapes (10^6 openers of each kind and mixtures) run in child processes; all short byte strings and "
             "seeded mutated inputs run under catch_unwind with the same per-call checks.",
        design_ref="DESIGN.md section 6 (C03), section 3.7",
        note="Trusted: TLC, the add-only hooks (verif_offset, verif_depth_left, verif_set_depth_left, recursion probe), the harness. "
             "Stack exhaustion is observed as child-process death. Totality on arbitrary bytes is exhaustive to length 2 (quick) / "
             "3 (thorough) and sampled beyond.",
        technique="TLA+ parser session machine model-checked with TLC; token sequences replayed as real sessions with hooks; per-call traces validated by TLC; child processes for deep nesting",
    ),
    "C10": dict(
        category="model_checking",
        text="In the session machine value and datum calls are one action (one reader); TLC-generated token sequences are run through "
             "next_value, next_datum and the three iterator facades and must agree item for item with the machine and each other. "
             "TLC-generated layouts, the token-kind corpus and seeded well-formed/malformed texts are parsed with both APIs from "
             "three sources: streams must agree (same items, same failing item and error, same end), Value::from(datum) equals "
             "datum.value(), and structural walks through the datum accessors equal the walks through the value accessors; TLC "
             "validates sampled walks against the list model of spec/ListOps.tla.",
        design_ref="DESIGN.md section 6 (C10)",
        note="Trusted: TLC, harness walk functions (the same code walks both structures). Inputs bounded by the generators.",
        technique="TLA+ session machine and list model; lock-step replay of value and datum APIs; structure walks validated by TLC",
    ),
    "C11": dict(
        category="model_checking",
        text="TLC enumerates all words of bounded length over a lexeme/trivia alphabet (multi-line, CR/LF/tab/comment trivia, a "
             "non-ASCII atom, data adjacent to delimiters, quote shorthands, dotted tails, byte vectors), keeps those the reference "
             "reader accepts and checks trivia insensitivity on the specification. The harness parses each with the datum API from "
             "str, slice and io::Read and checks, for every sub-datum reachable through the iterators: span inside the input, "
             "non-empty, contained in the parent, after its preceding sibling, covered text re-parses to the sub-datum, quote head "
             "covers the shorthand characters, identical span trees from the three sources. TLC re-validates sampled span trees, "
             "computing offsets with spec/Text.tla and reading the covered text with the reference reader.",
        design_ref="DESIGN.md section 6 (C11)",
        note="Trusted: TLC, Text!OffsetOf, the reference reader for the covered-text clause, the harness. Only sub-data reachable "
             "through list_iter / vector_iter are covered (as the property says); as_pair internals are not.",
        technique="TLC-generated layouts replayed through the datum API on three sources; span trees validated by TLC with the reference reader",
    ),
    "C12": dict(
        category="model_checking",
        text="Safety: TLC checks on the reference reader that the printed forms of up to 2 (quick) / 3 (thorough) values with every "
             "choice of leading, separating and final trivia (space, tab, CR, LF, form feed, line comments, a final comment without "
             "newline) read back as exactly those values then end of input, in both dialects; the harness builds the same streams "
             "and reads them through the four ways of iterating over three sources. Liveness: TLC checks <>(end of input) for a "
             "caller that keeps calling on the session machine under weak fairness (and rejects the as-found non-progress variant); "
             "real sessions must make progress on every item and reach the end within len+3 items.",
        design_ref="DESIGN.md section 6 (C12), section 3.7",
        note="Trusted: TLC, reference reader/printer, Fold, the hooks. Liveness is checked on the model; on the implementation it is "
             "the progress measure per item plus a cut-off.",
        technique="TLA+ reference reader (safety) and session machine (liveness under fairness) model-checked with TLC; streams and call histories replayed; traces validated by TLC",
    ),
    "C05": dict(
        category="model_checking",
        text="TLC enumerates the literal grammar (radix prefixes, signs, leading zeros, every 64-bit boundary computed with "
             "decimal-digit arithmetic, decimal forms up to the overflow/underflow edges), checks that every literal has exactly one "
             "denotation class and that the integer classes partition [-2^63, 2^64-1], and emits each literal with its exact "
             "denotation and required accuracy class. Both feature builds of the parser read each literal and seeded random ones; "
             "integers are compared exactly, floats are classified (correctly rounded / within 2^-50 / bad) with big-integer "
             "arithmetic and std's float parser; TLC recomputes denotation and class from the literal text and judges every event, "
             "and checks that every printed number is a literal denoting that number.",
        design_ref="DESIGN.md section 6 (C05), sections 3.2, 9",
        note="TLC does no floating point: the achieved accuracy is measured by the harness (big.rs, str::parse::<f64> as the correctly "
             "rounded reference) and is part of the trusted base; TLC decides which class is required and that integers are exact. "
             "Values within 2^-50 above f64::MAX may be rejected or rounded to f64::MAX ('edge').",
        technique="TLA+ literal grammar and exact denotation (decimal-digit bignums) model-checked with TLC; literals replayed into both feature builds; results validated by TLC",
    ),
    "C06": dict(
        category="fault_enumeration",
        text="The two byte-source machines (IoRead with its one-byte look-ahead over a line/column counting iterator, and the slice "
             "cursor) are model-checked side by side under every schedule of Interrupted answers and a hard error from every offset: "
             "same bytes, same cursor, same position, no byte skipped or duplicated, a fault is reported exactly when reached. Seeded "
             "Read-trait call sequences on the real types are validated by TLC against that machine. At parse level every input is "
             "read from str, slice and stream under several chunking/Interrupted/BufReader schedules and with a hard read error at "
             "every byte offset 0..=len; TLC judges the relation of the property, using the reference reader to decide whether the "
             "delivered bytes already determined the outcome.",
        design_ref="DESIGN.md section 6 (C06), section 3.5",
        note="Trusted: TLC, the instrumented io::Read (error identity via a marker type), the reference reader for 'already malformed'. "
             "Error locations are not compared across sources (C11/C19 cover positions).",
        technique="TLA+ source machines model-checked with TLC; reader call traces and fault-injected parse runs validated by TLC",
    ),
    "C15": dict(
        category="model_checking",
        text="TLC enumerates every element sequence (bounded length) over elements of every kind with every tail of a 12-tail table, "
             "and association lists with duplicate keys and non-pair entries, checks the list model (spec/ListOps.tla: Build merges, "
             "iterator machine yields xs then None, t, None, indexing) and emits the expected result of every accessor. The harness "
             "builds each list in up to six ways and compares every accessor; seeded call sequences on the three iterators and lists "
             "of up to 10^4 computable elements are validated by TLC against the iterator machines.",
        design_ref="DESIGN.md section 6 (C15), section 3.8",
        note="Trusted: TLC, harness observation code. Bounded: length <= 3 (quick) / 4 (thorough) for exhaustive cases.",
        technique="TLA+ list model and iterator machines model-checked with TLC; accessor expectations replayed; iterator traces validated by TLC",
    ),
    "C04": dict(
        category="model_checking",
        text="A family of 46 concrete Rust types covering every Serde data-model category and the shape-ambiguous nestings is generated "
             "from one description into derive'd Rust types and TLA+ type descriptors. TLC enumerates small inhabitants of every type, "
             "checks on the model that the documented reading of the documented shape is the identity and that serialization is "
             "injective, and emits them; each inhabitant plus seeded random inhabitants go through to_value/from_value and the text "
             "entry points of serde-lexpr and must come back equal; TLC validates the recorded (type, value, S-expression) triples "
             "against the model.",
        design_ref="DESIGN.md section 6 (C04), section 3.8, Appendix D",
        note="Trusted: TLC, serde / serde_derive, the generated conversions between abstract JSON values and Rust values (harness/vh/src/"
             "types_gen.rs, serde_abs.rs). Externally tagged default derive only.",
        technique="TLA+ Serde shape model (RefSer/RefDe) model-checked with TLC over a generated type family; inhabitants replayed through serde-lexpr; triples validated by TLC",
    ),
    "C14": dict(
        category="model_checking",
        text="RefSer in spec/SerdeModel.tla is the transcription of the documented shape table; for every TLC-enumerated inhabitant of "
             "every family type to_value must produce exactly that S-expression, and every alternative encoding derived from it (vector "
             "for list, list for vector, improper tail, wrong kind) must be accepted as the documented value or rejected with a data "
             "error as RefDe says. Random inhabitants' shapes are validated by TLC.",
        design_ref="DESIGN.md section 6 (C14), section 3.8",
        note="Trusted: as C04. Entry order of sets/maps is the container's (BTree: ascending). Surplus elements and unknown struct fields "
             "are left undetermined.",
        technique="TLA+ shape table (RefSer) and acceptance rules (RefDe) checked with TLC; shapes and alternative encodings replayed into serde-lexpr; validated by TLC",
    ),
    "C18": dict(
        category="model_checking",
        text="TLC enumerates every S-expression value of bounded size over a 12-atom alphabet crossed with every family type, checks on the "
             "model that whatever RefDe accepts is normalised (serialises and reads back as itself) and emits the verdicts; the "
             "implementation deserializes each (value, type) pair under catch_unwind: no panic, errors are data errors, accepted values "
             "survive their own round trip, accept/reject agrees with the documented verdict; TLC validates the recorded results.",
        design_ref="DESIGN.md section 6 (C18)",
        note="Trusted: as C04. Bounded: values of at most 1 (quick) / 2 (thorough) nesting steps over 12 atoms.",
        technique="TLA+ type-directed deserialization model checked with TLC over all small values x types; replayed into from_value; validated by TLC",
    ),
    "C16": dict(
        category="exploration",
        text="spec/StackModel.tla models each list-walking operation as a traversal with an explicit stack that iterates along the cdr "
             "chain and recurses into the car; TLC checks that the deepest stack is bounded by the nesting depth for every list length "
             "and rejects the as-found variant in which clone, == and the datum span information recurse along the cdr. The model "
             "yields the operation x shape x builder matrix (35 operations incl. clone_from, comparison of differing lists, drops during unwinding, Serde's skipping / map / text paths and type-mismatch errors; proper/dotted; parser/constructors/Serde); every cell is "
             "executed in a child process inside a thread with a fixed 2 MiB stack on a list of 10^6 (thorough: 4*10^6) elements, in "
             "the release and the debug profile; TLC checks that the whole matrix was covered and every cell survived.",
        design_ref="DESIGN.md section 6 (C16), section 9",
        note="The specification contributes least here: a native stack is not a TLA+ state, so the verdict is the observed survival of "
             "child processes (exploration level). Datums are parsed from a stream because the slice sources compute positions in "
             "quadratic time.",
        technique="TLA+ traversal model generating the operation matrix (TLC); each cell observed in a child process on a 2 MiB stack; coverage of the matrix validated by TLC",
    ),
    "C17": dict(
        category="model_checking",
        text="TLC places every class of UTF-8 byte sequence (valid, overlong, surrogate, out of range, invalid leads, truncated, stray "
             "continuation) into every syntactic context (symbols, strings, between and next to escapes of both string syntaxes, "
             "characters, comments, keyword names) under both dialects, lets the reference reader decide (read / rejected / bytes / "
             "ignored in a comment) and checks that ill-formed input is only ever accepted in a comment or as an Emacs unibyte string. "
             "The implementation parses each text from slice, stream and (if valid) str: it must agree with that verdict, every str "
             "reachable from a result is re-validated, and the hook in front of the five unchecked conversions must never see an "
             "ill-formed buffer - also for seeded random bytes. Output side: all probe values under all 576 printer option sets.",
        design_ref="DESIGN.md section 6 (C17), section 9",
        note="Undefined behaviour is not a TLA+ state nor observable in general: approximated by re-validation and by the add-only hook "
             "(utf8_check) before each from_utf8_unchecked. Trusted: TLC, Text!Utf8Ok, std::str::from_utf8.",
        technique="TLA+ UTF-8 well-formedness and reference reader as rejection oracle, enumerated with TLC; replayed through all sources with hooks; validated by TLC",
    ),
    "C20": dict(
        category="model_checking",
        text="A TLA+ model of Number (PosInt / NegInt / Float, chosen by the From conversions) and of the value kinds is checked by TLC "
             "for coherence (one kind; the integer classes and their accessor ranges; a float is never an integer) over every boundary "
             "value of the eight integer widths, and emits the expected accessor results and the expected outcome of == against every "
             "integer primitive. The harness builds each value through From, checks kinds, is_x <=> as_x, payload preservation and == in "
             "both operand orders and through references against integers of every width, bools, strings and floats; TLC validates the "
             "recorded accessor results and comparison outcomes against the model.",
        design_ref="DESIGN.md section 6 (C20), section 3.2",
        note="Float comparisons are judged by the relation of the property on the logged as_f64 value (rounding is std's `as f64`). "
             "Interpretation: for f64 only is_f64 => as_f64.is_some().",
        technique="TLA+ number / kind model checked with TLC; constructor calls and comparison pairs replayed; results validated by TLC",
    ),
    "C07": dict(
        category="fault_enumeration",
        text="The sink machine of spec/Sink.tla (write_all discipline against a sink that may accept any prefix, return 0, fail or "
             "interrupt) is model-checked exhaustively for small texts; its response schedules are replayed into the real printer "
             "through an instrumented io::Write, together with a hard error and a zero acceptance at every output offset and "
             "per-call caps; every logged write call is validated by TLC against the same machine (trace validation) and by a "
             "native judge. Faults at every offset of every probe text are enumerated, which is the quantifier of the property.",
        design_ref="DESIGN.md section 6 (C07), section 3.6",
        note="Trusted: TLC, the instrumented sink and judge in harness/vh/src/c07.rs. The oracle text is the implementation's own "
             "String output (as the property states). Values are a fixed probe set of every kind plus seeded random values; printer "
             "options are default, elisp and a seeded sample of the 576 sets (all 576 reachable through the seeded tier).",
        technique="TLA+ sink state machine model-checked with TLC; schedules replayed into the printer; write-call traces validated by TLC",
    ),
}

NOT_YET = "check not built yet (framework under construction; see DESIGN.md section 11 for the build order)"


def main():
    ids = [json.loads(l)["id"] for l in open(os.path.join(ROOT, "properties.jsonl"))]
    hooks = []
    try:
        out = subprocess.run(["git", "-C", "/repo", "log", "--format=%H %s"], stdout=subprocess.PIPE, text=True).stdout
        for line in out.splitlines():
            h, s = line.split(" ", 1)
            if s.startswith("verif-hook:"):
                hooks.append(h)
    except Exception:
        pass
    m = {
        "version": 1,
        "setup_cmd": "cd /verif/harness && cargo build --release --offline && cd /verif/harness-nofast && cargo build --release --offline && cd /verif/harness-macro && cargo build --offline",
        "hooks": {
            "guard": "--cfg lexpr_verif",
            "enable": "harness/.cargo/config.toml sets rustflags = [\"--cfg\", \"lexpr_verif\"]; the harness has path dependencies "
                      "on /repo/lexpr, /repo/serde-lexpr and /repo/lexpr-macros, so every check rebuilds the code under test from "
                      "/repo's working tree with the hooks on",
            "baseline_off_cmd": "cd /repo && (cargo nextest run --workspace --no-fail-fast --offline || cargo test --workspace --no-fail-fast --offline)",
            "source_commits": hooks,
            "add_only": True,
        },
        "engines": [
            {"name": "tlc", "path": "/usr/local/bin/tlc", "serves_properties": sorted(CHECKS),
             "kind_free_text": "TLC 1.8.0 model checker: exhaustive exploration of spec/*.tla, behaviour generation, trace validation"},
            {"name": "vh", "path": "/verif/harness/vh", "serves_properties": sorted(CHECKS),
             "kind_free_text": "Rust replayer/recorder with path dependencies on /repo (built with --cfg lexpr_verif)"},
        ],
        "checks": [],
        "not_applicable": [],
        "notes": "One driver: ./check <ID> --tier quick|thorough; VERIF_SEED seeds the harness generators. "
                 "See DESIGN.md. known_findings.jsonl lists recorded findings and fixed defects.",
    }
    for i in ids:
        if i in CHECKS:
            c = CHECKS[i]
            m["checks"].append({
                "property_id": i,
                "quick_cmd": "./check %s --tier quick" % i,
                "thorough_cmd": "./check %s --tier thorough" % i,
                "evidence_file": "/verif/evidence/%s.json" % i,
                "replay_cmd_template": "./check %s --replay {path}" % i,
                "engine": "tlc+vh",
                "level_claimed": {"category": c["category"], "text": c["text"], "design_ref": c["design_ref"]},
                "level_note": c["note"],
                "technique": c["technique"],
            })
        else:
            m["not_applicable"].append({"property_id": i, "reason": NOT_YET})
    with open(os.path.join(ROOT, "MANIFEST.json"), "w") as f:
        json.dump(m, f, indent=1)
        f.write("\n")


if __name__ == "__main__":
    main()
