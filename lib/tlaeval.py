#!/usr/bin/env python3
"""Development aid: evaluate RefRead / RefPrint on texts via TLC.   tlaeval.py [--elisp] 'text' ..."""
import json, os, sys
sys.path.insert(0, os.path.dirname(os.path.abspath(__file__)))
import vlib

DEF = {"kw": [True, False, False], "nil": "sym", "t": "sym", "br": "list", "str": "r6rs", "chr": "r6rs", "racket": False, "digits": False}
EL = {"kw": [False, True, False], "nil": "null", "t": "sym", "br": "vec", "str": "elisp", "chr": "elisp", "racket": False, "digits": True}


def render(v):
    k = v.get("k")
    if k is None:
        return json.dumps(v)
    if k in ("str", "sym", "kw"):
        return "%s:%r" % (k, "".join(map(chr, v["s"])))
    if k == "char":
        return "char:%r" % chr(v["c"])
    if k == "num":
        n = v["n"]
        ds = "".join(map(str, n["d"])) if "d" in n else ""
        return ("-" if n.get("neg") else "") + ds + ("e%d" % n["e"] if n["t"] == "flt" else "") + ("!" + n["t"] if n["t"] not in ("int", "flt") else "")
    if k == "cons":
        return "(%s . %s)" % (render(v["car"]), render(v["cdr"]))
    if k == "vec":
        return "#(%s)" % " ".join(render(x) for x in v["e"])
    if k == "bytes":
        return "bytes:%r" % v["bv"]
    if k == "bool":
        return "#t" if v["b"] else "#f"
    return k


def evaluate(events):
    os.makedirs(os.path.join(vlib.WORKROOT, "eval"), exist_ok=True)
    tp = os.path.join(vlib.WORKROOT, "eval", "trace.ndjson")
    vlib.write_ndjson(tp, events)
    r = vlib.run_tlc(os.path.join(vlib.SPEC, "trace", "EvalTrace.tla"), workdir=os.path.join(vlib.WORKROOT, "eval"),
                     workers=1, env_extra={"TRACE": tp}, jvm=["-Xss1g", "-Xmx4g"])
    if r.errors:
        print(r.stdout_tail)
    out = {}
    for n in r.notes:
        l, js = n.split(", ", 1)
        out[int(l)] = json.loads(vlib._tla_unquote(js))
    return [out.get(i + 1) for i in range(len(events))]


if __name__ == "__main__":
    args = sys.argv[1:]
    ro = DEF
    if args and args[0] == "--elisp":
        ro = EL
        args = args[1:]
    evs = [{"ev": "read", "text": list(a.encode("utf-8", "surrogateescape")), "ro": ro} for a in args]
    for a, r in zip(args, evaluate(evs)):
        print(repr(a), "=>", r["t"] if r else None, render(r["v"]) if r and "v" in r else "")
