#!/usr/bin/env python3
"""Write seeded/<seed>/meta.json from work/detect-<seed>.json (usage: seedmeta.py <seed> [note])."""
import json
import os
import sys

ROOT = os.path.dirname(os.path.dirname(os.path.abspath(__file__)))


def main():
    seed = sys.argv[1]
    note = sys.argv[2] if len(sys.argv) > 2 else None
    det = json.load(open(os.path.join(ROOT, "work", "detect-%s.json" % seed)))
    pid, letter = seed.split("-")
    section = {"a": "A", "b": "B", "c": "A", "d": "B", "e": "A", "f": "B", "g": "A", "h": "B"}[letter]        # round-2 seeds c, d are the sub-agent's A, B
    meta = {
        "seed": seed,
        "breaks_property": pid,
        "origin": "written by an independent sub-agent given only the property text and a scratch worktree of /repo",
        "needs_to_manifest": "see notes.md (the sub-agent's description, section %s)" % section,
        "confirmed": {
            "how": "lib/seedtool.py verify in the scratch worktree: patch applies to HEAD, 107/107 existing tests pass with it, "
                   "demo.rs fails with it and passes without",
            "result": True,
        },
        "detection": {k: {"caught": v["exit"] == 1, "violations": v["violations"], "first": v["first"], "seconds": v["seconds"]}
                      for k, v in det.items()},
        "caught_by": sorted(k for k, v in det.items() if v["exit"] == 1),
    }
    if note:
        meta["note"] = note
    with open(os.path.join(ROOT, "seeded", seed, "meta.json"), "w") as f:
        json.dump(meta, f, indent=1)
        f.write("\n")
    print(seed, meta["caught_by"])


if __name__ == "__main__":
    main()
