"""Shared machinery of the lexpr-rs verification driver.

Everything a property module needs: running TLC (model checking and trace
validation), running the Rust harness built from /repo's working tree, matching
failures against known_findings.jsonl, printing VIOLATION / KNOWN-FINDING lines,
writing evidence/<ID>.json.

Exit codes (see DESIGN.md section 2.3): 0 held, 1 violation, 2 tool error.
"""
import json
import os
import re
import shutil
import subprocess
import sys
import time

ROOT = os.path.dirname(os.path.dirname(os.path.abspath(__file__)))
SPEC = os.path.join(ROOT, "spec")
HARNESS = os.path.join(ROOT, "harness")
HARNESS_EXTRA = os.path.join(ROOT, "harness-extra")     # specification beyond the listed properties (package vx)
HARNESS_NOFAST = os.path.join(ROOT, "harness-nofast")   # lexpr without fast-float-parsing (package vhn)
WORKROOT = os.path.join(ROOT, "work")
EVIDENCE = os.path.join(ROOT, "evidence")
KNOWN = os.path.join(ROOT, "known_findings.jsonl")
TLA_CP = "/opt/veriftools/tla/tla2tools.jar:/opt/veriftools/tla/CommunityModules-deps.jar"
TLA_LIB = os.pathsep.join([SPEC, os.path.join(SPEC, "mc"), os.path.join(SPEC, "trace"), os.path.join(SPEC, "extra")])

MAX_VIOLATION_LINES = 25


class ToolError(Exception):
    pass


def log(*a):
    print("[check]", *a, file=sys.stderr, flush=True)


# --------------------------------------------------------------------------- harness

_built = {}


def build_harness(package="vh", profile="release"):
    """cargo build the harness; path deps on /repo => rebuilds the code under test."""
    key = (package, profile)
    if key in _built:
        return _built[key]
    env = dict(os.environ)
    env["CARGO_NET_OFFLINE"] = "true"
    cmd = ["cargo", "build", "--offline", "-p", package]
    if profile == "release":
        cmd.append("--release")
    t0 = time.time()
    hdir = HARNESS_NOFAST if package == "vhn" else HARNESS_EXTRA if package == "vx" else HARNESS
    p = subprocess.run(cmd, cwd=hdir, env=env, stdout=subprocess.PIPE, stderr=subprocess.STDOUT, text=True)
    if p.returncode != 0:
        sys.stderr.write(p.stdout[-6000:])
        raise ToolError("cargo build of the harness failed (is /repo in a compiling state?)")
    exe = os.path.join(hdir, "target", "release" if profile == "release" else "debug", package)
    log("harness %s/%s built in %.1fs" % (package, profile, time.time() - t0))
    _built[key] = exe
    return exe


def run_harness(args, stdin_path=None, stdout_path=None, timeout=3600, package="vh", profile="release", env_extra=None,
                ok_codes=(0,)):
    exe = build_harness(package, profile)
    env = dict(os.environ)
    env.setdefault("RUST_BACKTRACE", "0")
    if env_extra:
        env.update(env_extra)
    fin = open(stdin_path, "rb") if stdin_path else subprocess.DEVNULL
    fout = open(stdout_path, "wb") if stdout_path else subprocess.PIPE
    try:
        p = subprocess.run([exe] + [str(a) for a in args], stdin=fin, stdout=fout, stderr=subprocess.PIPE,
                           timeout=timeout, env=env)
    except subprocess.TimeoutExpired:
        raise ToolError("harness timed out: %s" % (args,))
    finally:
        if stdin_path:
            fin.close()
        if stdout_path:
            fout.close()
    if p.returncode not in ok_codes:
        sys.stderr.write(p.stderr.decode("utf-8", "replace")[-4000:])
        raise ToolError("harness %s exited with %d" % (args, p.returncode))
    return p


def read_ndjson(path):
    out = []
    with open(path, "r", encoding="utf-8") as f:
        for line in f:
            line = line.strip()
            if line:
                out.append(json.loads(line))
    return out


def write_ndjson(path, items):
    with open(path, "w", encoding="utf-8") as f:
        for it in items:
            f.write(json.dumps(it, separators=(",", ":"), ensure_ascii=True))
            f.write("\n")


# --------------------------------------------------------------------------- TLC

_REPLAY_RE = re.compile(r'^<<"(REPLAY|BAD|NOTE|STAT)", (.*)>>$')


_WRAP_START_RE = re.compile(r'^<< "(REPLAY|BAD|NOTE|STAT)",\s*$')


def _bracket_delta(line):
    """Net nesting of << >> [ ] ( ) { } on a line of TLC output, ignoring string literals."""
    d, i, n, instr = 0, 0, len(line), False
    while i < n:
        c = line[i]
        if instr:
            if c == "\\":
                i += 1
            elif c == '"':
                instr = False
        elif c == '"':
            instr = True
        elif line.startswith("<<", i):
            d += 1
            i += 1
        elif line.startswith(">>", i):
            d -= 1
            i += 1
        elif c in "[({":
            d += 1
        elif c in "])}":
            d -= 1
        i += 1
    return d


def _unwrap(parts):
    """Join a wrapped TLC tuple back into the one-line form <<"KIND", a, b>>."""
    first = parts[0]                       # << "KIND",
    kind = first[first.index('"') + 1:first.rindex('"')]
    body = " ".join(parts[1:])
    if body.endswith(">>"):
        body = body[:-2].rstrip()
    return '<<"%s", %s>>' % (kind, body)


def _tla_unquote(s):
    """A TLC-printed string literal "..." -> python str (TLC escapes \\ and \" only)."""
    assert s.startswith('"') and s.endswith('"'), s[:80]
    body = s[1:-1]
    out = []
    i = 0
    while i < len(body):
        c = body[i]
        if c == "\\" and i + 1 < len(body):
            n = body[i + 1]
            if n == "n":
                out.append("\n")
            elif n == "t":
                out.append("\t")
            else:
                out.append(n)
            i += 2
        else:
            out.append(c)
            i += 1
    return "".join(out)


class TlcResult:
    def __init__(self):
        self.replay = []      # decoded JSON objects from <<"REPLAY", "json">> lines
        self.bad = []         # raw payload strings of <<"BAD", ...>> lines
        self.notes = []
        self.generated = 0
        self.distinct = 0
        self.depth = 0
        self.errors = []      # TLC "Error:" lines
        self.violated = []    # names of violated invariants / properties
        self.finished = False
        self.wall = 0.0
        self.stdout_tail = ""
        self.coverage = {}    # action name -> (count_total, count_distinct) when -coverage given


def run_tlc(module, cfg=None, workdir=None, workers=8, env_extra=None, timeout=3600, jvm=None, simulate=None,
            coverage=False, seed=None, keep_stdout=None, deadlock=False, extra_args=None, on_replay=None):
    """Run TLC on spec module `module` (path to .tla). Parses REPLAY/BAD lines and statistics.

    on_replay: optional callback(obj) to stream REPLAY objects instead of accumulating them.
    """
    module = os.path.abspath(module)
    if cfg is None:
        cfg = module[:-4] + ".cfg"
    cfg = os.path.abspath(cfg)
    workdir = workdir or os.path.join(WORKROOT, "tlc")
    os.makedirs(workdir, exist_ok=True)
    meta = os.path.join(workdir, "meta-%d-%d" % (os.getpid(), int(time.time() * 1000) % 100000000))
    cmd = ["java", "-XX:+UseParallelGC"]
    cmd += (jvm or ["-Xss512m", "-Xmx8g"])
    cmd += ["-DTLA-Library=" + TLA_LIB, "-cp", TLA_CP, "tlc2.TLC",
            "-workers", str(workers), "-metadir", meta, "-cleanup", "-noGenerateSpecTE",
            "-config", cfg]
    if not deadlock:
        cmd += ["-deadlock"]   # -deadlock DISABLES deadlock checking
    if simulate:
        cmd += ["-simulate", simulate]
    if coverage:
        cmd += ["-coverage", "1"]
    if seed is not None:
        cmd += ["-seed", str(seed)]
    if extra_args:
        cmd += extra_args
    cmd.append(module)
    env = dict(os.environ)
    if env_extra:
        env.update({k: str(v) for k, v in env_extra.items()})
    res = TlcResult()
    t0 = time.time()
    tail = []
    wrapped, depth = None, 0
    out_f = open(keep_stdout, "w") if keep_stdout else None
    p = subprocess.Popen(cmd, cwd=workdir, env=env, stdout=subprocess.PIPE, stderr=subprocess.STDOUT, text=True,
                         errors="replace")
    try:
        for line in p.stdout:
            line = line.rstrip("\n")
            if out_f:
                out_f.write(line + "\n")
            # TLC wraps values wider than 80 columns over several lines: << "KIND",\n   field,\n   field >>
            if wrapped is not None:
                wrapped.append(line.strip())
                depth += _bracket_delta(line)
                if depth > 0:
                    continue
                line = _unwrap(wrapped)
                wrapped = None
            elif _WRAP_START_RE.match(line):
                wrapped = [line.strip()]
                depth = _bracket_delta(line)
                continue
            m = _REPLAY_RE.match(line)
            if m:
                kind, payload = m.group(1), m.group(2)
                if kind == "REPLAY":
                    obj = json.loads(_tla_unquote(payload))
                    if on_replay:
                        on_replay(obj)
                    else:
                        res.replay.append(obj)
                elif kind == "BAD":
                    res.bad.append(payload)
                else:
                    res.notes.append(payload)
                continue
            tail.append(line)
            if len(tail) > 400:
                del tail[:200]
            if line.startswith("Error:"):
                res.errors.append(line)
            m2 = re.match(r"^Error: Invariant (\S+) is violated", line)
            if m2:
                res.violated.append(m2.group(1))
            if "Temporal properties were violated" in line or "is violated" in line and "Error" in line:
                if line not in res.violated:
                    res.violated.append(line)
            m3 = re.match(r"^(\d+) states generated, (\d+) distinct states found", line)
            if m3:
                res.generated, res.distinct = int(m3.group(1)), int(m3.group(2))
            m4 = re.match(r"^The depth of the complete state graph search is (\d+)", line)
            if m4:
                res.depth = int(m4.group(1))
            if line.startswith("Model checking completed") or line.startswith("Finished in"):
                res.finished = True
            if time.time() - t0 > timeout:
                p.kill()
                raise ToolError("TLC timed out on %s" % module)
        p.wait()
    finally:
        if out_f:
            out_f.close()
        if p.poll() is None:
            p.kill()
        shutil.rmtree(meta, ignore_errors=True)
    res.wall = time.time() - t0
    res.stdout_tail = "\n".join(tail[-60:])
    res.returncode = p.returncode
    return res


def require_clean_tlc(res, what):
    """Model-checking runs of the specification itself must succeed; otherwise the framework is broken (exit 2)."""
    if res.errors or res.violated or not res.finished:
        sys.stderr.write(res.stdout_tail + "\n")
        raise ToolError("TLC run '%s' did not complete cleanly: %s %s" % (what, res.errors[:3], res.violated[:3]))


# --------------------------------------------------------------------------- context

class Ctx:
    def __init__(self, pid, tier, seed, replaying=False):
        self.replaying = replaying
        self.pid = pid
        self.tier = tier
        self.seed = seed
        self.t0 = time.time()
        self.work = os.path.join(WORKROOT, pid + ("-replay" if replaying else ""))
        shutil.rmtree(self.work, ignore_errors=True)
        os.makedirs(os.path.join(self.work, "replay"), exist_ok=True)
        self.n_viol = 0
        self.n_known = 0
        self.known_printed = set()
        self.findings = load_known(pid)
        self.cov = {"evaluations": 0, "distinct_nontrivial": 0, "states": 0, "transitions": 0,
                    "traces_validated_against_impl": 0, "samples": [], "exhaustive": False}
        self.assumptions = []
        self.level = "model_checking"
        self.extra = {}
        self._viol_sigs = set()

    def quick(self):
        return self.tier == "quick"

    def path(self, *a):
        return os.path.join(self.work, *a)

    def add_tlc(self, res):
        self.cov["states"] += res.distinct
        self.cov["transitions"] += res.generated

    def sample(self, obj, limit=6):
        if len(self.cov["samples"]) < limit:
            self.cov["samples"].append(obj)

    def violation(self, sig, case, what=""):
        """Report one failing case. sig: dict identifying the case (matched against known findings)."""
        key = json.dumps(sig, sort_keys=True)
        if key in self._viol_sigs:
            return
        self._viol_sigs.add(key)
        f = match_known(self.findings, sig)
        if f is not None:
            self.n_known += 1
            fk = json.dumps(f["match"], sort_keys=True)
            if fk not in self.known_printed:
                self.known_printed.add(fk)
                print("KNOWN-FINDING: property=%s %s" % (self.pid, f.get("what", "")), flush=True)
            return
        self.n_viol += 1
        path = self.path("replay", "%s-%04d.json" % (self.pid, self.n_viol))
        with open(path, "w") as fh:
            json.dump({"property": self.pid, "sig": sig, "what": what, "case": case}, fh, indent=1)
        if self.n_viol <= MAX_VIOLATION_LINES:
            if what:
                log("violation: " + what[:400])
            print("VIOLATION property=%s replay=%s" % (self.pid, path), flush=True)

    def finish(self):
        cov = dict(self.cov)
        cov.update(self.extra)
        ev = {
            "property_id": self.pid,
            "tier": self.tier,
            "seed": self.seed,
            "level": self.level,
            "coverage": cov,
            "assumptions": self.assumptions,
            "wall_s": round(time.time() - self.t0, 2),
            "violations": self.n_viol,
            "known_findings_matched": self.n_known,
        }
        if not self.replaying:
            # X.. checks exercise specification beyond the listed properties; their evidence is kept apart
            edir = EVIDENCE if self.pid.startswith("C") else os.path.join(ROOT, "extras", "evidence")
            os.makedirs(edir, exist_ok=True)
            with open(os.path.join(edir, self.pid + ".json"), "w") as fh:
                json.dump(ev, fh, indent=1)
        if self.n_viol > MAX_VIOLATION_LINES:
            log("%d further violations not printed" % (self.n_viol - MAX_VIOLATION_LINES))
        log("%s %s: %d evaluations, %d violations, %d known-finding hits, %.1fs" %
            (self.pid, self.tier, cov.get("evaluations", 0), self.n_viol, self.n_known, time.time() - self.t0))
        return 1 if self.n_viol else 0


def load_known(pid):
    out = []
    if os.path.exists(KNOWN):
        with open(KNOWN) as f:
            for line in f:
                line = line.strip()
                if not line or line.startswith("#"):
                    continue
                o = json.loads(line)
                if o.get("property") == pid and o.get("status") == "finding":
                    out.append(o)
    return out


def match_known(findings, sig):
    for f in findings:
        m = f["match"]
        if all(sig.get(k) == v for k, v in m.items()):
            return f
    return None


# --------------------------------------------------------------------------- small helpers shared by property modules

def b2s(bs):
    """list of byte values -> printable python string (for messages only)."""
    return bytes(bs).decode("utf-8", "backslashreplace")


def s2b(s):
    return list(s.encode("utf-8"))
