"""C15 - list construction, traversal, conversion and indexing are consistent."""
import os

import vlib
from props import common


def run(ctx):
    q = ctx.quick()
    cfg = ctx.path("C15.cfg")
    with open(cfg, "w") as f:
        f.write("SPECIFICATION Spec\nCONSTANT MaxLen = %d\nINVARIANTS ModelConsistent Emit\n" % (3 if q else 4))
    cases = ctx.path("cases.ndjson")
    n = [0]
    import json
    with open(cases, "w") as fh:
        def on(obj):
            n[0] += 1
            fh.write(json.dumps(obj, separators=(",", ":")) + "\n")
        res = vlib.run_tlc(os.path.join(vlib.SPEC, "mc", "C15.tla"), cfg=cfg, workdir=ctx.path("tlc"), workers=12, timeout=7200,
                           jvm=["-Xss512m", "-Xmx16g"], on_replay=on)
    vlib.require_clean_tlc(res, "C15 list model")
    ctx.add_tlc(res)
    out, tracep = common.harness_json(ctx, "c15", {"cases_file": cases, "seed": ctx.seed, "iter_every": 4 if q else 20,
                                                    "long": [10, 1000, 10000]}, timeout=7200)
    for b in out["bad"]:
        ctx.violation({"rule": b["rule"], "why": b["why"][:80], "case": b["case"]}, b["case"], "%s: %s on xs=%s t=%s" % (
            b["rule"], b["why"][:300], str(b["case"].get("xs"))[:120], str(b["case"].get("t"))[:80]))
    tres = common.validate_trace_sharded(ctx, "ListTrace", tracep, shards=8)
    events = vlib.read_ndjson(tracep)
    for lno, what in tres.bad:
        e = events[lno - 1]
        ctx.violation({"rule": "trace", "why": what[:80], "n": lno}, {"v": e.get("v")}, "ListTrace: %s on %s" % (what, str(e)[:300]))
    ctx.cov["evaluations"] = out["evaluations"]
    ctx.cov["distinct_nontrivial"] = out["tlc_cases"]
    ctx.cov["traces_validated_against_impl"] = tres.events
    ctx.cov["exhaustive"] = True
    ctx.cov["rule"] = ("every element sequence of length <= %d over 13 elements of every kind (incl. nested lists and pairs) with every tail "
                       "of a 12-tail table (empty list, atoms of every kind, vectors, proper and dotted lists that merge into the chain), "
                       "and every association list of that length over pair / non-pair entries with duplicate keys of the three name kinds; "
                       "each built in up to 6 ways (append, cons cells, Value::cons, list, From) and observed through every accessor, "
                       "compared with the list model's expectation emitted by TLC; seeded call sequences on the three iterators and "
                       "lists of 10..10^4 computable elements are validated by TLC against the iterator machines; distinct = TLC cases" %
                       (3 if q else 4))
    ctx.cov["samples"] = [e for e in events if e["ev"] == "iter"][:2] + [e for e in events if e["ev"] == "long"][:1]
    ctx.assumptions += ["the Vec-based reference model is spec/ListOps.tla (Cars / TailOf / iterator machines)"]


def replay(ctx, case):
    out, _ = common.harness_json(ctx, "c15-replay", case)
    for b in out["bad"]:
        ctx.violation({"rule": b["rule"], "why": b["why"][:80]}, case, b["why"])
    ctx.cov["evaluations"] = 1
