"""C03 - parsing is total: any bytes, any options -> value or error, bounded recursion."""
import os
import random

import vlib
from props import common, sessions


def _shapes(ctx, q):
    cfg = ctx.path("C03Shapes.cfg")
    with open(cfg, "w") as f:
        f.write("SPECIFICATION Spec\nCONSTANTS\n  Counts = {1, 27, 100, 127, 128, 129, 1000000}\n  MaxSegs = %d\n"
                "INVARIANTS Consistent Emit\n" % (2 if q else 3))
    res = vlib.run_tlc(os.path.join(vlib.SPEC, "mc", "C03Shapes.tla"), cfg=cfg, workdir=ctx.path("tlc"), workers=8, timeout=3000)
    vlib.require_clean_tlc(res, "C03 shape generator")
    ctx.add_tlc(res)
    shapes = res.replay
    rnd = random.Random(ctx.seed)
    rnd.shuffle(shapes)
    return shapes[: 2500 if q else 60000], len(res.replay)


def run(ctx):
    q = ctx.quick()
    # (a) the session machine: bounded recursion and budget accounting on the specification
    res = sessions.model_check(ctx, 4 if q else 6)
    wit = sessions.witnesses(ctx, ["QuoteCharged", "RefundOnLimitError"])
    out_s, tres_s, events_s = sessions.replay_sessions(ctx, res.replay if q else res.replay[::3], 1, 1 if q else 2)
    sessions.report(ctx, out_s, tres_s, events_s)
    # (b) pathological shapes in child processes, exhaustive short inputs, mutated inputs
    shapes, nshapes_total = _shapes(ctx, q)
    sf = ctx.path("shapes.ndjson")
    vlib.write_ndjson(sf, shapes)
    out, tracep = common.harness_json(ctx, "c03", {"shapes_file": sf, "exhaustive_len": 2 if q else 3, "alphabet_extra": __import__("props.c19", fromlist=["x"])._alphabet(big=not q), "seed": ctx.seed,
                                                    "mutated": 1500 if q else 60000}, timeout=14000,
                                      env_extra={"VH_SCRATCH": ctx.work})
    for b in out["bad"]:
        if b["rule"] == "shape":
            sig = {"rule": "shape", "why": b["why"][:60], "case": b["case"]}
            ctx.violation(sig, b["case"], "nesting shape %s (closed=%s, %s levels): %s" % (
                [(s["op"], s["n"]) for s in (b["case"] or {}).get("segs", [])], (b["case"] or {}).get("closed"),
                (b["case"] or {}).get("total"), b["why"]))
        else:
            ctx.violation({"rule": "totality", "why": b["why"][:50], "text": b["text"], "ro": b["ro"]}, {"text": b["text"], "ro": b["ro"]},
                          "totality: %s on %r under %s" % (b["why"], vlib.b2s(b["text"])[:200], b["ro"]))
    tres = common.validate_trace_sharded(ctx, "SessionTrace", tracep, shards=8)
    events = vlib.read_ndjson(tracep)
    for lno, what in tres.bad:
        e = events[lno - 1]
        case = {"segs": e["segs"], "closed": e["closed"], "total": e["total"], "expect": e["expect"]} if e["ev"] == "shape" else None
        ctx.violation({"rule": "trace", "why": what, "ev": e["ev"], "n": lno}, case or {"text": [], "ro": None},
                      "SessionTrace: %s on %s event %s" % (what, e["ev"], {k: e[k] for k in e if k not in ("calls",)}))
    ctx.cov["evaluations"] = out_s["calls"] + out["shapes"] * 6 + out["short_inputs"] * out["option_sets"] * 11 + out["mutated"] * 11
    ctx.cov["distinct_nontrivial"] = out_s["sessions_with_errors"] + out["shapes"]
    ctx.cov["traces_validated_against_impl"] = tres_s.events + tres.events
    ctx.cov["exhaustive"] = False
    ctx.cov["rule"] = ("(a) every token sequence up to length %d over the 9 abstract tokens of spec/Session.tla, rendered to bytes and run "
                       "as real parser sessions (budget set to the model's Limit=3 by the hook; 5 iteration facades and 3 mixed call "
                       "histories x 3 sources), each call compared with the session machine by TLC; (b) nesting shapes of up to %d "
                       "segments <opener, count in {1,27,100,127,128,129,10^6}> (8 nesting constructs incl. quote shorthands and dotted "
                       "tails, closed and unterminated; %d of %d sampled by seed) in child processes on a 2 MiB thread stack, value and "
                       "datum API, 3 sources; (c) every byte string of length <= %d%s x 8 option sets x 3 sources x 4 ways of calling "
                       "under catch_unwind; (d) seeded mutated inputs up to 1.5 KB. distinct+non-trivial = sessions containing an "
                       "error + shapes" % (4 if q else 6, 2 if q else 3, out["shapes"], nshapes_total, 2 if q else 3,
                                          " plus all 3-byte strings over a 40-class alphabet" if q else ""))
    ctx.cov["sessions"] = out_s["sessions"]
    ctx.cov["shapes_run"] = out["shapes"]
    ctx.cov["child_crashes"] = out["child_crashes"]
    ctx.cov["short_inputs"] = out["short_inputs"]
    ctx.cov["mutated_inputs"] = out["mutated"]
    ctx.cov["asfound_variants_rejected"] = wit
    ctx.cov["samples"] = [{"tokens": e["toks"], "calls": [[c["api"], c["kind"], c["off"], c["high"]] for c in e["calls"]]}
                          for e in events_s[:: max(1, len(events_s) // 3)]][:3] + \
                         [{"shape": e["segs"], "closed": e["closed"], "recursion_high_water": e["high"], "kinds": e["kinds"]}
                          for e in events if e["ev"] == "shape"][:3]
    ctx.assumptions += ["stack exhaustion is observed as the death of a child process (not a TLA+ state); the recursion high-water "
                        "mark comes from the add-only hook around next_value/next_datum",
                        "the session runs use the hook verif_set_depth_left to give the real parser the model's small budget"]


def replay(ctx, case):
    if "toks" in case:
        out, tracep = common.harness_json(ctx, "session-replay", case)
        tres = common.validate_trace_sharded(ctx, "SessionTrace", tracep, shards=1)
        sessions.report(ctx, out, tres, vlib.read_ndjson(tracep))
    else:
        out, _ = common.harness_json(ctx, "c03-replay", case, env_extra={"VH_SCRATCH": ctx.work})
        for b in out["bad"]:
            ctx.violation({"rule": b["rule"], "why": b["why"][:60]}, case, b["why"])
    ctx.cov["evaluations"] = 1
