"""C01 - print then parse returns the same value (default Scheme dialect)."""
import json
import os

import vlib
from props import common


def run(ctx):
    q = ctx.quick()
    cfg = ctx.path("C01.cfg")
    with open(cfg, "w") as f:
        f.write("SPECIFICATION Spec\nCONSTANT Width = %d\nINVARIANTS RoundTrips Emit\n" % (2 if q else 3))
    res = vlib.run_tlc(os.path.join(vlib.SPEC, "mc", "C01.tla"), cfg=cfg, workdir=ctx.path("tlc"), workers=8)
    vlib.require_clean_tlc(res, "C01 round trip on the specification")
    ctx.add_tlc(res)
    cases = ctx.path("cases.ndjson")
    vlib.write_ndjson(cases, res.replay)
    out, tracep = common.harness_json(ctx, "c01", {"cases_file": cases, "seed": ctx.seed, "random": 3000 if q else 150000,
                                                    "trace_bytes": 250000 if q else 6000000})
    for b in out["bad"]:
        sig = {"rule": b["rule"], "v": b["v"], "printer": b.get("printer"), "parser": b.get("parser")}
        ctx.violation(sig, {"v": b["v"], "reftext": b.get("text") if b["rule"].startswith("reference") else None},
                      "%s: %s (%s -> %s) text=%r" % (b["rule"], b.get("detail"), b.get("printer"), b.get("parser"),
                                                    vlib.b2s(b.get("text", []))))
    tres = common.validate_trace_sharded(ctx, "ReadTrace", tracep)
    events = vlib.read_ndjson(tracep)
    for lno, what in tres.bad:
        e = events[lno - 1]
        ctx.violation({"rule": "independent-reader", "v": e["exp"]}, {"v": e["exp"]},
                      "reference reader (spec/RefRead.tla) on printed text %r: %s" % (vlib.b2s(e["text"]), what))
    ctx.cov["evaluations"] = out["evaluations"]
    ctx.cov["distinct_nontrivial"] = out["distinct_texts"]
    ctx.cov["traces_validated_against_impl"] = tres.events
    ctx.cov["rule"] = ("values: TLC-enumerated universe (spec/ValGen.tla) + probe values + seeded random values (all kinds, nesting <= 5, "
                       "any Unicode scalar in chars/strings, boundary-biased u64/i64, doubles by bit pattern); one evaluation = one "
                       "(print entry point, parse entry point) pair on one value, or one reference-printer text parsed by the "
                       "implementation; distinct = distinct printed texts")
    ctx.cov["tlc_values"] = out["tlc_cases"]
    ctx.cov["random_values"] = out["random"]
    ctx.cov["reader_unspecified"] = tres.unspecified
    ctx.cov["fast_float"] = out["fast_float"]
    ctx.cov["samples"] = [{"text": vlib.b2s(e["text"]), "value": e["exp"]} for e in events[:4]] + \
                         [{"text": vlib.b2s(e["text"])} for e in events[-3:]]
    ctx.assumptions += ["spec/RefRead.tla is the independent reader of the documented grammar; it was written from the documentation "
                        "(DESIGN.md Appendix B) and cross-checked against spec/RefPrint.tla by TLC",
                        "float accuracy rule of C01/C05 is computed in harness/vh/src/cmp.rs with f64 arithmetic"]


def replay(ctx, case):
    case = {k: v for k, v in case.items() if v is not None}
    out, tracep = common.harness_json(ctx, "c01-replay", case)
    for b in out["bad"]:
        ctx.violation({"rule": b["rule"], "v": b["v"]}, case, "%s: %s" % (b["rule"], b.get("detail")))
    tres = common.validate_trace(ctx, "ReadTrace", tracep)
    for lno, what in common.bad_lines(tres):
        ctx.violation({"rule": "independent-reader", "v": case["v"]}, case, what)
    ctx.cov["evaluations"] = 1
