"""C10 - the location-tracking parse API agrees with the plain value API."""
import vlib
from props import common, datums, sessions


def _mine(b):
    why = str(b.get("why"))
    return b["rule"] in ("facades-differ",) or "outcome differs" in why or "cursor" in why or "recursion depth differs" in why


def run(ctx):
    q = ctx.quick()
    # the design has one reader: value and datum calls are the same ReadCall action of the session machine
    mres = sessions.model_check(ctx, 4 if q else 5)
    out_s, tres_s, events_s = sessions.replay_sessions(ctx, mres.replay if q else mres.replay[::2], 1, 1)
    sessions.report(ctx, out_s, tres_s, events_s, rules=_mine)
    out, tres, events, nlay = datums.run_datums(ctx, q)
    datums.report(ctx, out, tres, events, "c10")
    walks = [e for e in events if e["ev"] == "walk"]
    ctx.cov["evaluations"] = out["evaluations"] * 3 + out_s["sessions"]
    ctx.cov["distinct_nontrivial"] = out["distinct"]
    ctx.cov["traces_validated_against_impl"] = len(walks) + tres_s.events
    ctx.cov["rule"] = ("(1) token-sequence sessions of spec/Session.tla: next_value / next_datum / value_iter / datum_iter / Iterator "
                       "for Parser must yield the same items, errors and cursor positions (see C03 (a)); (2) inputs as in C11 "
                       "(TLC-generated layouts, token-kind corpus, seeded well-formed and malformed texts; default, Emacs Lisp and "
                       "random option sets; three sources): the datum stream must equal the value stream item for item (same failing "
                       "item, same error, same end), Value::from(datum) = datum.value(), and a structural walk through list_iter / "
                       "vector_iter / as_pair / peek / is_empty of the datum must equal the same walk through the value's accessors; "
                       "sampled walks are compared by TLC with the walk the list model (spec/ListOps.tla) derives from the value; "
                       "distinct = distinct inputs yielding at least one datum")
    ctx.cov["sub_data_walked"] = out["subdata"]
    ctx.cov["sessions"] = out_s["sessions"]
    ctx.cov["samples"] = [{"text": vlib.b2s(e["text"]), "walk": e["dwalk"][:6]} for e in walks[:: max(1, len(walks) // 3)]][:3]
    ctx.assumptions += ["equality of items is == on values and (category, message, location) on errors"]


def replay(ctx, case):
    if "toks" in case:
        out, tracep = common.harness_json(ctx, "session-replay", case)
        tres = common.validate_trace_sharded(ctx, "SessionTrace", tracep, shards=1)
        sessions.report(ctx, out, tres, vlib.read_ndjson(tracep), rules=_mine)
    else:
        out, tracep = common.harness_json(ctx, "datum-replay", case)
        tres = common.validate_trace_sharded(ctx, "DatumTrace", tracep, shards=1)
        datums.report(ctx, out, tres, vlib.read_ndjson(tracep), "c10")
    ctx.cov["evaluations"] = 1
