"""X09 (beyond the listed properties) - the error values of lexpr and serde-lexpr and the conversions between them.

spec/ErrorModel.tla models lexpr::parse::Error, serde_lexpr::Error and std::io::Error as nested records, the
`From` impls as conversions and the public accessors (classify / is_*, location, Display, Debug, source, kind)
as observers.  spec/extra/X09.tla raises an error at every origin the code has and passes it up through at most
four conversions: Display never changes on the way up, the io::ErrorKind follows the category, a wrapped
io::Error comes back out as it went in, no conversion panics.  The harness (harness-extra/vx, command x09)
executes every behaviour on real errors, and raises errors from the C19 corpus of malformed texts and from
serde-lexpr's own entry points; spec/extra/X09Trace.tla re-judges every observer, texts included."""
import os

import vlib
from props import common
from props import c19

EXTRA = ["(a", "#(1", '"abc', "'", "#", "#\\", "#q", "(a]", ")", "#u8 1", "#u8", "#u8(256)", "#u8(a)", '"\\q"', "1e", "a b", "<deep>", "|abc",
         "#\\foo", '"\\xD800;"', "1e999", "#tx", "#true1", "(1 . )", "(1 . 2 3)", "(. 1)", "[1 . 2 3]", "#(1 . 2)", "]", "(a . b", "#u8(1", "?", "?\\", "#&", "#!", "#|", "#;",
         "#x", "#e", "#i", "#d1x", "a|b", "|a", "a\\", "#:a", ":", "#:|a"]


def corpus():
    toks = [bytes(t).decode("utf-8", "replace") for t in c19._alphabet(big=False)]
    out = []
    for t in EXTRA + toks:
        if t not in out:
            out.append(t)
    # the same tokens in positions of their own: inside a list, a vector, after a dot, on a later line
    ctx = []
    for t in out[:400]:
        ctx += ["(" + t, "(a " + t + ")", "#(" + t + ")", "(a . " + t + ")", "\n\n  " + t, "'" + t]
    for t in ctx:
        if t not in out:
            out.append(t)
    return out


def _report(ctx, out, tracep):
    for b in out["bad"]:
        if b["rule"] == "untriggered":
            raise vlib.ToolError("X09: " + b["why"])
        ctx.violation({"rule": b["rule"], "origin": b["origin"], "path": b["path"]}, {"origin": b["origin"], "path": b["path"]},
                      "%s: %s via %s: %s" % (b["rule"], b["origin"], b["path"], b["why"]))
    tres = common.validate_trace_sharded(ctx, "X09Trace", tracep, shards=6)
    events = vlib.read_ndjson(tracep)
    for lno, what in tres.bad:
        e = events[lno - 1]
        ctx.violation({"rule": "trace", "origin": e["origin"], "path": e["path"]}, {"origin": e["origin"], "path": e["path"]},
                      "X09Trace: %s (%s via %s)" % (what, e["origin"], e["path"]))
    return tres.events


def run(ctx):
    res = vlib.run_tlc(os.path.join(vlib.SPEC, "extra", "X09.tla"), workdir=ctx.path("tlc"), workers=4)
    vlib.require_clean_tlc(res, "X09 error conversions")
    ctx.add_tlc(res)
    # the pinned tree's conversion, as a negative control on the model: TLC must find the panic
    asfound = vlib.run_tlc(os.path.join(vlib.SPEC, "extra", "X09.tla"), cfg=os.path.join(vlib.SPEC, "extra", "X09AsFound.cfg"),
                           workdir=ctx.path("tlc-asfound"), workers=2)
    if "NoPanic" not in " ".join(asfound.violated):
        raise vlib.ToolError("X09AsFound: TLC no longer finds the panic of the pinned conversion: %s" % asfound.violated[:3])
    cases = ctx.path("cases.ndjson")
    vlib.write_ndjson(cases, res.replay)
    out, tracep = common.harness_json(ctx, "x09", {"cases_file": cases, "corpus": corpus()}, package="vx")
    n = _report(ctx, out, tracep)
    ctx.cov["evaluations"] = out["cases"] + out["natural"]
    ctx.cov["distinct_nontrivial"] = out["cases"]
    ctx.cov["traces_validated_against_impl"] = n
    ctx.cov["exhaustive"] = True
    ctx.cov["codes_seen"] = out["codes_seen"]
    ctx.cov["rule"] = ("every origin (18 parse codes, 6 io kinds at three layers, a serde message) x every chain of up to four conversions; "
                       "plus every error the parser raises on the malformed-text corpus through six fixed chains, and serde-lexpr's own errors")


def replay(ctx, case):
    raise vlib.ToolError("X09 replays by re-running the whole (small) machine: ./check X09")
