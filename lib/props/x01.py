"""X01 (beyond the listed properties) - in-place mutation of a Value tree and independence of clones.

Specification: spec/Mutation.tla; behaviours from spec/extra/X01.tla are replayed through the public
mutation API (harness-extra/vx), and the implementation's runs are validated by spec/extra/X01Trace.tla."""
import os

import vlib
from props import common


def _report(ctx, out, tracep):
    for b in out["bad"]:
        c = b["case"]
        acts = [s["act"] for s in c["steps"]]
        ctx.violation({"rule": b["rule"], "init": c["init"], "acts": acts}, {"init": c["init"], "steps": c["steps"]},
                      "%s: %s" % (b["rule"], b["why"]))
    tres = common.validate_trace(ctx, "X01Trace", tracep)
    events = vlib.read_ndjson(tracep)
    for lno, what in common.bad_lines(tres):
        e = events[lno - 1]
        ctx.violation({"rule": "trace", "why": what, "before": e["before"], "act": e["act"]}, {"init": e["before"], "steps": []},
                      "X01Trace: %s (event %d: %s)" % (what, lno, str(e["act"])[:200]))
    return len(events)


def run(ctx):
    q = ctx.quick()
    mc = os.path.join(vlib.SPEC, "extra", "X01.tla")
    res = vlib.run_tlc(mc, cfg=os.path.join(vlib.SPEC, "extra", "X01.cfg" if q else "X01Deep.cfg"), workdir=ctx.path("tlc"), workers=10)
    vlib.require_clean_tlc(res, "X01 mutation machine")
    ctx.add_tlc(res)
    cases = ctx.path("cases.ndjson")
    vlib.write_ndjson(cases, res.replay)
    out, tracep = common.harness_json(ctx, "x01", {"cases_file": cases, "trace_every": 1 if q else 12}, package="vx")
    n = _report(ctx, out, tracep)
    ctx.cov["evaluations"] = out["steps"]
    ctx.cov["distinct_nontrivial"] = out["behaviours"]
    ctx.cov["traces_validated_against_impl"] = n
    ctx.cov["exhaustive"] = True
    ctx.cov["rule"] = ("every sequence of %d actions (set_car, set_cdr, vector element store, clone) at every path of length <= 3 from five "
                       "initial roots with five replacement values; distinct = behaviours" % (2 if q else 3))


def replay(ctx, case):
    cases = ctx.path("cases.ndjson")
    vlib.write_ndjson(cases, [case])
    out, tracep = common.harness_json(ctx, "x01", {"cases_file": cases, "trace_every": 1}, package="vx")
    if case["steps"]:
        _report(ctx, out, tracep)
    ctx.cov["evaluations"] = 1
