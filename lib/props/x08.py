"""X08 (beyond the listed properties) - convenience entry points and deprecated aliases as compositions of the session calls.

spec/extra/X08.tla derives, from the session machine of spec/Session.tla, the outcome of the one-shot entry
points for every token sequence of up to 4 tokens; the harness (harness-extra/vx, command x08) renders each
sequence in four layouts and checks from_str / from_slice / from_reader / FromStr / the _custom and _elisp
forms against it and against each other, expect_value + expect_end against from_str, expect_value / expect_datum
against next_value / next_datum, and the deprecated parse / parse_value / end against their replacements."""
import os

import vlib
from props import common


def run(ctx):
    res = vlib.run_tlc(os.path.join(vlib.SPEC, "extra", "X08.tla"), workdir=ctx.path("tlc"), workers=8)
    vlib.require_clean_tlc(res, "X08 one-shot entry points")
    ctx.add_tlc(res)
    cases = ctx.path("cases.ndjson")
    vlib.write_ndjson(cases, res.replay)
    out, _ = common.harness_json(ctx, "x08", {"cases_file": cases}, package="vx")
    for b in out["bad"]:
        ctx.violation({"rule": b["rule"], "toks": b["toks"], "variant": b["variant"], "why": b["why"][:80]}, {"toks": b["toks"]},
                      "%s on %r: %s" % (b["rule"], b["text"], b["why"]))
    ctx.cov["evaluations"] = out["texts"]
    ctx.cov["distinct_nontrivial"] = len(res.replay)
    ctx.cov["exhaustive"] = True
    ctx.cov["rule"] = "every token sequence of up to 4 tokens over the session alphabet, each rendered in four layouts"


def replay(ctx, case):
    raise vlib.ToolError("X08 replays by re-running the whole (small) machine: ./check X08")
