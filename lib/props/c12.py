"""C12 - datum sequences: concatenation, trivia insensitivity, terminating iteration."""
import os

import vlib
from props import common, sessions


def _mine(b):
    # session findings that belong to C12: the iteration facades, progress, termination
    why = str(b.get("why"))
    return b["rule"] in ("facades-differ",) or "consumed no" in why or "consumed nothing" in why or "did not" in why \
        or "iteration" in why or "outcome differs" in why or "cursor" in why or "expect_end" in why


def run(ctx):
    q = ctx.quick()
    # (1) concatenation / trivia on the reference
    cfg = ctx.path("C12.cfg")
    with open(cfg, "w") as f:
        f.write("SPECIFICATION Spec\nCONSTANT MaxVals = %d\nINVARIANTS Concatenation Emit\n" % (2 if q else 3))
    res = vlib.run_tlc(os.path.join(vlib.SPEC, "mc", "C12.tla"), cfg=cfg, workdir=ctx.path("tlc"), workers=12, timeout=7200,
                       jvm=["-Xss512m", "-Xmx16g"])
    if res.notes:
        vlib.log("concatenation misread on the specification: " + res.notes[0][:400])
    vlib.require_clean_tlc(res, "C12 concatenation on the specification")
    ctx.add_tlc(res)
    tlc_file = ctx.path("tlc.ndjson")
    vlib.write_ndjson(tlc_file, res.replay)
    # trivia at every token boundary inside a datum
    sres = vlib.run_tlc(os.path.join(vlib.SPEC, "mc", "C12Spaced.tla"), workdir=ctx.path("tlc"), workers=8)
    if sres.notes:
        vlib.log("spaced text misread on the specification: " + sres.notes[0][:300])
    vlib.require_clean_tlc(sres, "C12 trivia between the tokens of a datum")
    if sres.notes:
        raise vlib.ToolError("C12Spaced: the reference reader misreads %d spaced texts" % len(sres.notes))
    ctx.add_tlc(sres)
    spaced_file = ctx.path("spaced.ndjson")
    vlib.write_ndjson(spaced_file, sres.replay)
    out, tracep = common.harness_json(ctx, "c12", {"tlc_file": tlc_file, "spaced_file": spaced_file, "seed": ctx.seed, "random": 300 if q else 20000,
                                                    "trace_bytes": 200000 if q else 3000000, "stride": 40 if q else 3000,
                                                    "maxvals": 2 if q else 3}, timeout=7200)
    for b in out["bad"]:
        ctx.violation({"rule": b["rule"], "text": b["text"], "ro": b["ro"], "way": b["way"]}, {"text": b["text"], "ro": b["ro"], "exp": b["exp"]},
                      "%s: %s via %s (source %s) on %r" % (b["rule"], b["why"], b["way"], b["src"], vlib.b2s(b["text"])[:200]))
    tres = common.validate_trace_sharded(ctx, "ReadTrace", tracep)
    events = vlib.read_ndjson(tracep)
    for lno, what in tres.bad:
        e = events[lno - 1]
        ctx.violation({"rule": "independent-reader", "text": e["text"], "ro": e["ro"]}, {"text": e["text"], "ro": e["ro"], "exp": e["exp"]},
                      "reference reader on stream %r: %s" % (vlib.b2s(e["text"])[:200], what))
    # (2) termination: liveness on the session machine, witnesses, and real sessions
    live = sessions.liveness(ctx)
    wit = sessions.witnesses(ctx, ["live"])
    mres = sessions.model_check(ctx, 4 if q else 5)
    out_s, tres_s, events_s = sessions.replay_sessions(ctx, mres.replay if q else mres.replay[::2], 1, 1)
    sessions.report(ctx, out_s, tres_s, events_s, rules=_mine)
    ctx.cov["evaluations"] = out["evaluations"] + out_s["calls"]
    ctx.cov["distinct_nontrivial"] = out["distinct"]
    ctx.cov["traces_validated_against_impl"] = tres.events + tres_s.events
    ctx.cov["rule"] = ("(1) every sequence of <= %d values of the 16-value table of spec/mc/C12.tla printed in both dialects, with every "
                       "choice of leading trivia (4), separating trivia (8 strings over space, tab, CR, LF, FF and line comments) and "
                       "final trivia (6, incl. a comment without newline), read through next_value loop / value_iter / datum_iter / "
                       "Iterator for Parser over the three sources, compared with the value list; plus seeded random value streams with "
                       "random trivia mixes; sampled streams are read by the TLA+ reference reader; (2) iteration histories: see C03 (a); "
                       "distinct = distinct stream texts" % (2 if q else 3))
    ctx.cov["streams"] = out["streams"]
    ctx.cov["sessions"] = out_s["sessions"]
    ctx.cov["liveness_states"] = live.distinct
    ctx.cov["asfound_nonprogress_variant_rejected"] = wit
    ctx.cov["samples"] = [{"text": vlib.b2s(e["text"]), "expected": e["exp"]} for e in events[:: max(1, len(events) // 4)]][:4]
    ctx.assumptions += ["termination is checked as a liveness property of the session machine (weak fairness of 'the caller calls again') "
                        "and, on the implementation, as: every yielded item consumed input and the end of input is reached within "
                        "len+3 items"]


def replay(ctx, case):
    if "toks" in case:
        out, tracep = common.harness_json(ctx, "session-replay", case)
        tres = common.validate_trace_sharded(ctx, "SessionTrace", tracep, shards=1)
        sessions.report(ctx, out, tres, vlib.read_ndjson(tracep), rules=_mine)
    else:
        out, tracep = common.harness_json(ctx, "c12-replay", case)
        for b in out["bad"]:
            ctx.violation({"rule": b["rule"], "text": b["text"]}, case, b["why"])
        tres = common.validate_trace_sharded(ctx, "ReadTrace", tracep, shards=1)
        for lno, what in tres.bad:
            ctx.violation({"rule": "independent-reader", "text": case["text"]}, case, what)
    ctx.cov["evaluations"] = 1
