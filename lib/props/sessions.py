"""Shared by C03, C10, C12: model checking of spec/Session.tla, replay of its token sequences as
real parser sessions, validation of the logged sessions by TLC (spec/trace/SessionTrace.tla)."""
import os

import vlib
from props import common

ALPHABET = '{"open", "obr", "vopen", "quote", "dot", "close", "cbr", "atom", "junk"}'


def model_check(ctx, maxlen, limit=3, emit=True, alphabet=ALPHABET):
    cfg = ctx.path("SessionMC.cfg")
    with open(cfg, "w") as f:
        f.write("SPECIFICATION Spec\nCONSTANTS\n  Limit = %d\n  QuoteCharged = TRUE\n  RefundOnLimitError = TRUE\n"
                "  ErrorsMakeProgress = TRUE\n  MaxLen = %d\n  Alphabet = %s\n  EmitInputs = %s\n"
                "INVARIANTS TypeOK BoundedRecursion BudgetRestored Emit\nPROPERTY ItemsConsume\n" %
                (limit, maxlen, alphabet, "TRUE" if emit else "FALSE"))
    res = vlib.run_tlc(os.path.join(vlib.SPEC, "mc", "SessionMC.tla"), cfg=cfg, workdir=ctx.path("tlc"), workers=12,
                       jvm=["-Xss512m", "-Xmx16g"], timeout=7200)
    vlib.require_clean_tlc(res, "Session machine (intended design)")
    ctx.add_tlc(res)
    return res


def liveness(ctx):
    res = vlib.run_tlc(os.path.join(vlib.SPEC, "mc", "SessionMC.tla"), cfg=os.path.join(vlib.SPEC, "mc", "SessionLive.cfg"),
                       workdir=ctx.path("tlc"), workers=4)
    vlib.require_clean_tlc(res, "Session machine: iteration terminates (liveness under weak fairness)")
    ctx.add_tlc(res)
    return res


def witnesses(ctx, names):
    """The as-found deviations must be rejected by TLC (non-vacuity of the invariants / the liveness property)."""
    out = {}
    for n in names:
        cfgname = "SessionLiveAsFound.cfg" if n == "live" else "SessionAsFound_%s.cfg" % n
        res = vlib.run_tlc(os.path.join(vlib.SPEC, "mc", "SessionMC.tla"), cfg=os.path.join(vlib.SPEC, "mc", cfgname),
                           workdir=ctx.path("tlc"), workers=4)
        if not res.errors:
            raise vlib.ToolError("session machine: the deviation %s is not rejected by TLC (vacuous property)" % n)
        out[n] = True
    return out


def replay_sessions(ctx, inputs, variants, trace_every):
    cases = ctx.path("session-cases.ndjson")
    vlib.write_ndjson(cases, inputs)
    out, tracep = common.harness_json(ctx, "session", {"cases_file": cases, "variants": variants, "trace_every": trace_every})
    tres = common.validate_trace_sharded(ctx, "SessionTrace", tracep, shards=10)
    events = vlib.read_ndjson(tracep)
    return out, tres, events


def report(ctx, out, tres, events, rules=None):
    """rules: which native rule families belong to the calling property (None = all)."""
    for b in out["bad"]:
        fam = b["rule"]
        if rules is not None and not rules(b):
            continue
        sig = {"rule": fam, "why": b.get("why"), "toks": b["toks"], "limit": b["limit"], "variant": b["variant"], "src": b.get("src")}
        ctx.violation(sig, {"toks": b["toks"], "limit": b["limit"], "variant": b["variant"]},
                      "%s %s on %r (tokens %s, budget %s, %s)" % (fam, b.get("why", b.get("b")), vlib.b2s(b["text"]), " ".join(b["toks"]),
                                                                 b["limit"], b.get("src", "")))
    for lno, what in tres.bad:
        e = events[lno - 1]
        if rules is not None and not rules({"rule": "trace", "why": what}):
            continue
        ctx.violation({"rule": "trace", "why": what, "toks": e["toks"], "limit": e["limit"], "variant": e["variant"], "src": e["src"]},
                      {"toks": e["toks"], "limit": e["limit"], "variant": e["variant"]},
                      "SessionTrace: %s (tokens %s, budget %s, %s, calls %s)" % (what, " ".join(e["toks"]), e["limit"], e["src"],
                                                                              [c["api"] + ":" + str(c["kind"]) for c in e["calls"]]))
