"""C06 - string, slice and stream input give the same result; read errors surface."""
import os

import vlib
from props import common, datums


def _report(ctx, out, tracep):
    for b in out["bad"]:
        sig = {"rule": b["rule"], "why": b["why"][:60], "text": b["text"], "ro": b["ro"], "what": b.get("what")}
        case = {"text": b["text"], "ro": b["ro"], "ev": b.get("ev")}
        ctx.violation(sig, case, "%s: %s on %r (%s)" % (b["rule"], b["why"], vlib.b2s(b["text"])[:120],
                                                       {k: v for k, v in (b.get("ev") or {}).items() if k in ("src", "fault", "invoked", "kind", "chunks", "bufcap", "intr")}))
    tres = common.validate_trace_sharded(ctx, "C06Trace", tracep, shards=8)
    events = vlib.read_ndjson(tracep)
    for lno, what in tres.bad:
        e = events[lno - 1]
        if e["ev"] == "reader":
            ctx.violation({"rule": "trace-reader", "why": what[:70], "data": e["data"], "faultAt": e["faultAt"]}, {"text": e["data"], "ro": None, "ev": e},
                          "C06Trace: %s (data %r, fault at %s, calls %s)" % (what, vlib.b2s(e["data"]), e["faultAt"], [c["op"] for c in e["calls"]]))
        else:
            ctx.violation({"rule": "trace-run", "why": what[:70], "text": e.get("text", []), "fault": e.get("fault"), "ro": e.get("ro")},
                          {"text": e.get("text", []), "ro": e.get("ro")},
                          "C06Trace: %s (%s)" % (what, {k: v for k, v in e.items() if k != "ev"}))
    return tres, events


def run(ctx):
    q = ctx.quick()
    # the source machines on the specification
    res = vlib.run_tlc(os.path.join(vlib.SPEC, "mc", "SourceMC.tla"), workdir=ctx.path("tlc"), workers=8)
    vlib.require_clean_tlc(res, "Source machines (IoRead look-ahead vs slice cursor)")
    ctx.add_tlc(res)
    res2 = vlib.run_tlc(os.path.join(vlib.SPEC, "mc", "SourceMC.tla"), cfg=os.path.join(vlib.SPEC, "mc", "SourceAsFound.cfg"),
                        workdir=ctx.path("tlc"), workers=2)
    if "SamePosition" not in res2.violated:
        raise vlib.ToolError("Source machine: the as-found position variant is not rejected (vacuous invariant)")
    files = []
    for name, cases in (("corpus", datums.corpus_cases(ctx)), ("layouts", datums.layouts(ctx, 3 if q else 4, False))):
        p = ctx.path(name + ".ndjson")
        vlib.write_ndjson(p, [{"text": c["text"], "ro": c["ro"]} for c in (cases if name == "corpus" or not q else cases[::3])])
        files.append(p)
    # the token corpus in its contexts (thorough: plus the 500 spliced tokens): the slice and the stream scanners are
    # separate code and must delimit every token alike
    tc = datums.token_cases(big=not q)
    p = ctx.path("tokens.ndjson")
    vlib.write_ndjson(p, tc[::7] if q else tc[::5])
    files.append(p)
    out, tracep = common.harness_json(ctx, "c06", {"cases_files": files, "seed": ctx.seed, "random": 500 if q else 20000,
                                                    "reader_sessions": 4000 if q else 200000, "trace_stride": 3 if q else 40}, timeout=7200)
    tres, events = _report(ctx, out, tracep)
    ctx.level = "fault_enumeration"
    ctx.cov["evaluations"] = out["evaluations"]
    ctx.cov["distinct_nontrivial"] = out["distinct"]
    ctx.cov["traces_validated_against_impl"] = tres.events
    ctx.cov["rule"] = ("(1) seeded Read-trait call sequences (next / peek / discard) on a real IoRead over an instrumented io::Read "
                       "(chunked, Interrupted, a hard error from a random offset on) in lock-step with SliceRead and StrRead: every "
                       "returned byte, byte_offset and position is validated by TLC against the source machine of spec/Source.tla; "
                       "(2) parse level: the token-kind corpus, TLC-generated layouts, printed random values in both dialects and "
                       "token-alphabet junk are parsed from str, slice and stream under 7 chunking/Interrupted/BufReader schedules, and "
                       "with a hard read error injected at EVERY byte offset 0..=len (raw 1-byte reads and through a BufReader); the "
                       "relation of the property (same projection; fault invoked => I/O error carrying that very error; fault not "
                       "invoked => unchanged result) is judged natively and by TLC; distinct+non-trivial = distinct (input, fault offset)")
    ctx.cov["fault_points"] = out["fault_points"]
    ctx.cov["reader_sessions"] = out["reader_sessions"]
    ctx.cov["samples"] = [e for e in events if e["ev"] == "run" and e["fault"] >= 0][:3] + \
                         [{"data": vlib.b2s(e["data"]), "faultAt": e["faultAt"], "calls": [[c["op"], c["io"], c["off"]] for c in e["calls"]]}
                          for e in events if e["ev"] == "reader"][:2]
    ctx.assumptions += ["Interpretation (DESIGN.md C06): when the failing read is made although the delivered bytes are already malformed, "
                        "a syntax-category error is accepted provided the delivered prefix parsed alone is a syntax error",
                        "error locations are not compared between sources (the property compares category and kind)"]


def replay(ctx, case):
    out, tracep = common.harness_json(ctx, "c06-replay", case)
    _report(ctx, out, tracep)
    ctx.cov["evaluations"] = 1
