"""C02 - round trip for every consistent printer/parser dialect pairing."""
import os

import vlib
from props import common


def _report(ctx, out, tracep):
    for b in out["bad"]:
        sig = {"rule": b["rule"], "v": b["v"], "po": b["po"], "ro": b["ro"]}
        ctx.violation(sig, {"v": b["v"], "po": b["po"], "ro": b["ro"], "exp": b.get("exp")},
                      "%s: %s  text=%r po=%s ro=%s" % (b["rule"], b.get("detail"), vlib.b2s(b.get("text", [])), b["po"], b["ro"]))
    tres = common.validate_trace_sharded(ctx, "ReadTrace", tracep)
    events = vlib.read_ndjson(tracep)
    for lno, what in tres.bad:
        e = events[lno - 1]
        ctx.violation({"rule": "independent-reader", "v": e["v"], "po": e["po"], "ro": e["ro"]},
                      {"v": e["v"], "po": e["po"], "ro": e["ro"], "exp": e["exp"]},
                      "reference reader on printed text %r under %s: %s" % (vlib.b2s(e["text"]), e["ro"], what))
    return tres, events


def run(ctx):
    q = ctx.quick()
    cfg = ctx.path("C02.cfg")
    with open(cfg, "w") as f:
        f.write("SPECIFICATION Spec\nCONSTANT AllPairs = %s\nINVARIANTS Diagnose AllRoundTrip Emit\n" % ("FALSE" if q else "TRUE"))
    tlc_file = ctx.path("tlc.ndjson")
    n = {"pair": 0, "fold": 0}
    with open(tlc_file, "w") as f:
        import json

        def on(obj):
            n[obj["kind"]] += 1
            f.write(json.dumps(obj, separators=(",", ":")) + "\n")
        res = vlib.run_tlc(os.path.join(vlib.SPEC, "mc", "C02.tla"), cfg=cfg, workdir=ctx.path("tlc"), workers=8 if q else 12,
                           on_replay=on, timeout=7200)
    if res.notes:
        vlib.log("failing probe on the specification: " + res.notes[0][:600])
    vlib.require_clean_tlc(res, "C02 pairings on the specification")
    ctx.add_tlc(res)
    out, tracep = common.harness_json(ctx, "c02", {"tlc_file": tlc_file, "seed": ctx.seed, "random": 2000 if q else 60000,
                                                    "trace_bytes": 300000 if q else 8000000, "trace_stride": 11 if q else 97})
    if out["fold_mismatch"]:
        raise vlib.ToolError("harness mirror of Fold disagrees with spec/Sexp.tla on %d probe foldings" % out["fold_mismatch"])
    tres, events = _report(ctx, out, tracep)
    ctx.cov["evaluations"] = out["evaluations"]
    ctx.cov["distinct_nontrivial"] = out["distinct"]
    ctx.cov["traces_validated_against_impl"] = tres.events
    ctx.cov["exhaustive"] = not q
    ctx.cov["rule"] = ("TLC enumerates every printer option set (576) with %s parser option set compatible with it and checks the "
                       "round trip with the documented folding on the reference reader/printer for every probe value; each pairing x "
                       "probe is then executed on the implementation (to_string_custom, from_{str,slice,reader}_custom) against the "
                       "folding table emitted by TLC, plus seeded random values x random pairings; distinct = distinct (printed "
                       "text, parser option set)" % ("4 representative (minimal, maximal, two mixed)" if q else "every"))
    ctx.cov["pairings"] = out["pairs"]
    ctx.cov["probe_values"] = out["probes"]
    ctx.cov["random_values"] = out["random"]
    ctx.cov["reader_unspecified"] = tres.unspecified
    ctx.cov["samples"] = [{"text": vlib.b2s(e["text"]), "po": e["po"], "ro": e["ro"], "expected": e["exp"]} for e in events[:3]]
    ctx.assumptions += ["Compatible(po, ro) and Fold(v, po, ro) of spec/Sexp.tla are the reading of 'recognises what that printer "
                        "emits' and 'documented dialect folding' (DESIGN.md C02)",
                        "names are drawn from identifiers that are plain in every dialect (PortableIdents)"]


def replay(ctx, case):
    out, tracep = common.harness_json(ctx, "c02-replay", case)
    _report(ctx, out, tracep)
    ctx.cov["evaluations"] = 3
