"""C08 - each parser option changes exactly the tokens it is documented to govern."""
import os

import vlib
from props import common


def _report(ctx, out, tracep):
    for b in out["bad"]:
        sig = {"rule": b["rule"], "text": b["text"], "ro": b["ro"]}
        case = {"text": b["text"], "ro": b["ro"], "exp": b.get("exp"), "ro0": b.get("ro0")}
        ctx.violation(sig, case, "%s: %s: %r under %s -> %s (expected %s)" % (
            b["rule"], b["why"], vlib.b2s(b["text"]), b["ro"], str(b["res"])[:200], str(b.get("exp", b.get("res0")))[:200]))
    tres = common.validate_trace_sharded(ctx, "ReadTrace", tracep)
    events = vlib.read_ndjson(tracep)
    for lno, what in tres.bad:
        e = events[lno - 1]
        ctx.violation({"rule": "trace", "text": e["text"], "ro": e["ro"]}, {"text": e["text"], "ro": e["ro"]},
                      "reference reader disagrees on %r under %s: %s; implementation: %s" % (
                          vlib.b2s(e["text"]), e["ro"], what, str(e["res"])[:200]))
    return tres, events


def run(ctx):
    q = ctx.quick()
    res = vlib.run_tlc(os.path.join(vlib.SPEC, "mc", "C08.tla"), cfg=os.path.join(vlib.SPEC, "mc", "C08.cfg" if q else "C08Big.cfg"),
                       workdir=ctx.path("tlc"), workers=12)
    if res.notes:
        vlib.log("interference on the specification: " + res.notes[0][:500])
    vlib.require_clean_tlc(res, "C08 non-interference on the specification")
    ctx.add_tlc(res)
    cases = ctx.path("cases.ndjson")
    vlib.write_ndjson(cases, res.replay)
    out, tracep = common.harness_json(ctx, "c08", {"cases_file": cases, "trace_per_input": 8 if q else 80})
    if out["missing_expectations"]:
        raise vlib.ToolError("C08: %d (input, option set) pairs without an expectation from TLC" % out["missing_expectations"])
    tres, events = _report(ctx, out, tracep)
    ctx.cov["evaluations"] = out["evaluations"]
    ctx.cov["distinct_nontrivial"] = out["distinct"]
    ctx.cov["traces_validated_against_impl"] = tres.events
    ctx.cov["exhaustive"] = True
    ctx.cov["rule"] = ("inputs = token corpus (spec/Corpus.tla TokenCorpus: every token class with its near misses) x syntactic "
                       "contexts (top level, list head, after a dot, vector element, before ')' ']' and '#(..)'); every input is "
                       "parsed under all 1536 parser option sets and compared with the outcome of the reference classifier for "
                       "the projection of the option set onto the dimensions the input exercises; distinct = distinct (input, "
                       "projection) classes")
    ctx.cov["inputs"] = out["inputs"]
    ctx.cov["option_sets"] = 1536
    ctx.cov["projection_classes"] = out["classes"]
    ctx.cov["reader_unspecified_in_trace"] = tres.unspecified
    ctx.cov["samples"] = [{"text": vlib.b2s(r["text"]), "exercises": r["dims"], "projection": r["proj"], "expected": r["exp"]}
                          for r in res.replay[:: max(1, len(res.replay) // 6)]][:6]
    ctx.assumptions += ["spec/RefRead.tla ClassifyToken is the declarative classifier written from the documentation; inputs whose "
                        "reading the documentation does not determine (unspec) are only subject to the implementation-only "
                        "non-interference relation"]


def replay(ctx, case):
    case = {k: v for k, v in case.items() if v is not None}
    out, tracep = common.harness_json(ctx, "c08-replay", case)
    _report(ctx, out, tracep)
    ctx.cov["evaluations"] = 1
