"""Shared by C04, C14, C18: spec/mc/Serde.tla, the serde harness command and spec/trace/SerdeTrace.tla."""
import json
import os

import vlib
from props import common


def model(ctx, mode, maxcells):
    cfg = ctx.path("Serde-%s.cfg" % mode)
    with open(cfg, "w") as f:
        f.write('SPECIFICATION Spec\nCONSTANTS Mode = "%s"\n MaxCells = %d\nINVARIANTS %s Emit\n' %
                (mode, maxcells, "RoundTrip Injective" if mode == "rt" else "Normalises"))
    out = ctx.path("serde-%s.ndjson" % mode)
    n = {"rt": 0, "alt": 0, "any": 0}
    with open(out, "w") as fh:
        def on(obj):
            n[obj["kind"]] += 1
            fh.write(json.dumps(obj, separators=(",", ":")) + "\n")
        res = vlib.run_tlc(os.path.join(vlib.SPEC, "mc", "Serde.tla"), cfg=cfg, workdir=ctx.path("tlc"), workers=12, timeout=7200,
                           jvm=["-Xss512m", "-Xmx16g"], on_replay=on)
    vlib.require_clean_tlc(res, "Serde model (%s)" % mode)
    ctx.add_tlc(res)
    return out, n


def run_harness(ctx, cases, random_per_type, stride, name):
    out, tracep = common.harness_json(ctx, "serde", {"cases_file": cases, "seed": ctx.seed, "random": random_per_type,
                                                      "trace_stride": stride, "random_trace_every": 5}, name=name, timeout=7200)
    tres = common.validate_trace_sharded(ctx, "SerdeTrace", tracep, shards=8)
    events = vlib.read_ndjson(tracep)
    return out, tres, events


def report(ctx, out, tres, events, rules, trace_kinds):
    for b in out["bad"]:
        if b["rule"] not in rules:
            continue
        case = {"ti": b["ti"], "x": b.get("x"), "v": b.get("v")}
        ctx.violation({"rule": b["rule"], "ty": b["ty"], "why": str(b["why"])[:60], "x": b.get("x"), "v": b.get("v")}, case,
                      "%s [%s]: %s" % (b["rule"], b["ty"], str(b["why"])[:400]))
    for lno, what in tres.bad:
        e = events[lno - 1]
        if e["ev"] not in trace_kinds:
            continue
        case = {"ti": e["ti"], "x": e.get("x"), "v": e.get("v") if e["ev"] == "de" else None}
        ctx.violation({"rule": "trace", "why": what[:80], "ti": e["ti"], "x": e.get("x"), "v": e.get("v")}, case,
                      "SerdeTrace: %s (type %d, %s)" % (what, e["ti"], str({k: e[k] for k in e if k not in ("ev", "ti")})[:400]))
