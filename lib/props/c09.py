"""C09 - sexp! builds the value the parser reads from the same S-expression."""
import json
import os
import random
import re
import subprocess
import time

import vlib
from props import common

HM = os.path.join(vlib.ROOT, "harness-macro")

# --------------------------------------------------------------------------- rendering (mirrors spec/MacroModel.tla;
# C09Trace checks every src/text produced here against Source(p) / Render(p))


def _utf8(cps):
    return list("".join(chr(c) for c in cps).encode("utf-8"))


def _digits(neg, d):
    return ([45] if neg else []) + [48 + x for x in d]


def _float_text(neg, d, e):
    k = -e
    return ([45] if neg else []) + [48 + x for x in d[:len(d) - k]] + [46] + [48 + x for x in d[len(d) - k:]]


def _str_text(s):
    out = [34]
    for c in s:
        if c == 34:
            out += [92, 34]
        elif c == 92:
            out += [92, 92]
        elif c == 10:
            out += [92, 110]
        else:
            out += _utf8([c])
    return out + [34]


def _join(parts):
    out = []
    for i, p in enumerate(parts):
        if i:
            out.append(32)
        out += p
    return out


_UNQ_SRC = {'n': ',n', 's': ',s', 'e': ',(n + 1)', 'v': ',(v.clone())', 'b': ',(n > 1)', 'c': ',ch', 'f': ',fl', 'o': ',(String::from("own"))', 'y': ',(vec![1u8, 2u8])', 'p': ',((1, "x"))', 'w': ',(vec![Value::from(1), Value::from(2)])', 'u': ',(7u64)', 'i': ',(-7i8)'}
_UNQ_TXT = {'n': '42', 's': '"str"', 'e': '43', 'v': 'sym', 'b': '#t', 'c': '#\\λ', 'f': '2.5', 'o': '"own"', 'y': '#u8(1 2)', 'p': '(1 . "x")', 'w': '#(1 2)', 'u': '7', 'i': '-7'}


def render(p, rust):
    """rust=True: Source(p); rust=False: Render(p). Byte lists."""
    t = p["t"]
    if t == "int":
        return _digits(p["neg"], p["d"])
    if t == "flt":
        return _float_text(p["neg"], p["d"], p["e"])
    if t == "fle":
        base = _digits(p["neg"], p["d"]) if p["e"] == 0 else _float_text(p["neg"], p["d"], p["e"])
        return base + [101] + ([45] if p["xneg"] else []) + [48 + x for x in p["x"]]
    if t == "str":
        return _str_text(p["s"])
    if t == "chr":
        c = p["c"]
        if rust:
            return [39] + ([92, 39] if c == 39 else [92, 92] if c == 92 else _utf8([c])) + [39]
        return [35, 92] + _utf8([c])
    if t == "true":
        return [35, 116]
    if t == "false":
        return [35, 102]
    if t == "nil":
        return [35, 110, 105, 108]
    if t in ("id", "psym"):
        return _utf8(p["s"])
    if t == "qsym":
        return ([35] + _str_text(p["s"])) if rust else _utf8(p["s"])
    if t == "kw":
        if not rust or p["style"] == "octo":
            return [35, 58] + _utf8(p["s"])
        if p["style"] == "colon":
            return [58] + _utf8(p["s"])
        return [35, 58] + _str_text(p["s"])
    if t == "unq":
        return list((_UNQ_SRC if rust else _UNQ_TXT)[p["w"]].encode("utf-8"))
    if t == "list":
        body = _join([render(e, rust) for e in p["es"]])
        if p["tail"]["t"] != "none":
            body = body + [32, 46, 32] + render(p["tail"], rust)
        return [40] + body + [41]
    if t == "vec":
        return [35, 40] + _join([render(e, rust) for e in p["es"]]) + [41]
    raise ValueError(t)


# --------------------------------------------------------------------------- seeded random programs (depth <= 5)

_ID_START = "abcdefghijklmnopqrstuvwxyzABCDEFGHIJKLMNOPQRSTUVWXYZ_λж"
_ID_CONT = _ID_START + "0123456789"
_PUNCT = "!$%&*+-/:<=>?^~.@"
_STR_ALPHA = 'ab z09(). ;#|\'"\\\nλ€'
_CHARS = "aZ09λ€(;'\"#\\[]{}|,`@!~x"
_RUST_KW = {"as", "break", "const", "continue", "crate", "else", "enum", "extern", "false", "fn", "for", "if", "impl", "in", "let",
            "loop", "match", "mod", "move", "mut", "pub", "ref", "return", "self", "Self", "static", "struct", "super", "trait", "true",
            "type", "unsafe", "use", "where", "while", "async", "await", "dyn", "abstract", "become", "box", "do", "final", "macro",
            "override", "priv", "typeof", "unsized", "virtual", "yield", "try", "gen"}


def _cps(s):
    return [ord(c) for c in s]


def _valid_psym(s):
    """Punctuation-only identifiers of R7RS that Rust lexes as a run of punctuation (no comment starts)."""
    if "//" in s or "/*" in s or s in (".", "@") or s[0] == "@":
        return False
    if s[0] in "+-":
        # peculiar identifier: sign, then a sign subsequent (not a digit or a lone dot continuation)
        if len(s) > 1 and s[1] == ".":
            return len(s) > 2 and s[2] in "+-.@" + "!$%&*/:<=>?^~"
        return True
    if s[0] == ".":
        return len(s) > 1 and (s[1] in "+-.@" + "!$%&*/:<=>?^~")
    return True


def _rand_atom(rng):
    k = rng.randrange(14)
    if k == 13:
        a = str(rng.randrange(0, 10 ** rng.randrange(1, 5)))
        b = "".join(rng.choice("0123456789") for _ in range(rng.randrange(0, 4)))
        x = rng.randrange(-18, 19)      # effective exponent within +-22: the class the parser rounds correctly (C05)
        return {"t": "fle", "neg": rng.random() < 0.4, "d": [int(c) for c in a + b], "e": -len(b), "xneg": x < 0,
                "x": [int(c) for c in str(abs(x))]}
    if k == 0:
        n = rng.choice([rng.randrange(-2147483647, 2147483648), rng.randrange(-50, 50)])
        return {"t": "int", "neg": n < 0, "d": [int(c) for c in str(abs(n))]}
    if k == 1:
        a = str(rng.randrange(0, 10 ** rng.randrange(1, 7)))
        b = "".join(rng.choice("0123456789") for _ in range(rng.randrange(1, 6)))
        return {"t": "flt", "neg": rng.random() < 0.3, "d": [int(c) for c in a + b], "e": -len(b)}
    if k == 2:
        return {"t": "str", "s": _cps("".join(rng.choice(_STR_ALPHA) for _ in range(rng.randrange(0, 8))))}
    if k == 3:
        return {"t": "chr", "c": ord(rng.choice(_CHARS))}
    if k == 4:
        return {"t": rng.choice(["true", "false", "nil"])}
    if k in (5, 6):
        while True:
            s = rng.choice(_ID_START) + "".join(rng.choice(_ID_CONT) for _ in range(rng.randrange(0, 6)))
            if s not in _RUST_KW or s in ("if", "let", "fn", "for", "in"):
                return {"t": "id", "s": _cps(s)}
    if k == 7:
        s = rng.choice("abcxyzλ") + "".join(rng.choice("abc-!?*<>=/+.01λ") for _ in range(rng.randrange(1, 8)))
        return {"t": "qsym", "s": _cps(s)}
    if k in (8, 9):
        while True:
            s = "".join(rng.choice(_PUNCT) for _ in range(rng.choice([1, 1, 2, 2, 3, 4, 6])))
            if _valid_psym(s):
                return {"t": "psym", "s": _cps(s)}
    if k == 10:
        st = rng.choice(["octo", "colon", "quoted"])
        if st == "quoted":
            s = rng.choice("abckλ") + "".join(rng.choice("abc-!?*<>=/+01λ") for _ in range(rng.randrange(0, 8)))
        else:
            while True:
                s = rng.choice(_ID_START) + "".join(rng.choice(_ID_CONT) for _ in range(rng.randrange(0, 6)))
                if s not in _RUST_KW:
                    break
        return {"t": "kw", "style": st, "s": _cps(s)}
    if k == 11:
        return {"t": "unq", "w": rng.choice(sorted(_UNQ_SRC))}
    return {"t": "list", "es": [], "tail": {"t": "none"}}


def rand_program(rng, depth):
    if depth <= 0 or rng.random() < 0.25:
        return _rand_atom(rng)
    n = rng.choice([0, 1, 1, 2, 2, 3, 3, 4, 6])
    es = [rand_program(rng, depth - 1) for _ in range(n)]
    k = rng.random()
    if k < 0.25:
        return {"t": "vec", "es": es}
    if k < 0.6 or not es:
        return {"t": "list", "es": es, "tail": {"t": "none"}}
    return {"t": "list", "es": es, "tail": rand_program(rng, depth - 1)}


# --------------------------------------------------------------------------- the generated crate

def _rust_bytes(bs):
    out = []
    for b in bs:
        if b in (34, 92):
            out.append("\\" + chr(b))
        elif 32 <= b < 127:
            out.append(chr(b))
        else:
            out.append("\\x%02x" % b)
    return 'b"' + "".join(out) + '"'


def write_generated(path, progs, skip):
    """One program per line: line i+1 (1-based) holds program i."""
    with open(path, "w", encoding="utf-8") as f:
        for i, pr in enumerate(progs):
            if i in skip:
                f.write("fn p%d() -> Value { Value::Nil }\n" % i)
            else:
                f.write("fn p%d() -> Value { let n = 42i32; let s = \"str\"; let v = Value::symbol(\"sym\"); let ch = '\\u{3bb}'; let fl = 2.5f64; sexp!(%s) }\n"
                        % (i, bytes(pr["src"]).decode("utf-8")))
        f.write("static CASES: &[(u32, fn() -> Value, &[u8])] = &[\n")
        for i, pr in enumerate(progs):
            if i not in skip:
                f.write("(%d, p%d, %s),\n" % (i, i, _rust_bytes(pr["text"])))
        f.write("];\n")


def build_and_run(ctx, progs, name):
    """Compile the programs against /repo and run them. Returns ({id: result}, {id: compiler message})."""
    gen = ctx.path(name + ".generated.rs")
    rejected = {}
    env = dict(os.environ)
    env["CARGO_NET_OFFLINE"] = "true"
    env["VHM_GENERATED"] = gen
    t0 = time.time()
    for attempt in range(6):
        write_generated(gen, progs, rejected)
        p = subprocess.run(["cargo", "build", "--offline", "-p", "vhm", "--message-format=json"], cwd=HM, env=env,
                           stdout=subprocess.PIPE, stderr=subprocess.PIPE, text=True)
        if p.returncode == 0:
            break
        new = {}
        other = []
        for line in p.stdout.splitlines():
            try:
                m = json.loads(line)
            except ValueError:
                continue
            if m.get("reason") != "compiler-message" or m["message"].get("level") != "error":
                continue
            msg = m["message"]
            hit = False
            for sp in msg.get("spans", []):
                stack = [sp]
                while stack:
                    s = stack.pop()
                    if s.get("file_name", "").endswith("generated.rs"):
                        i = s["line_start"] - 1
                        if i < len(progs) and i not in rejected:
                            new.setdefault(i, msg["message"])
                            hit = True
                    if s.get("expansion"):
                        stack.append(s["expansion"]["span"])
            if not hit and "aborting due to" not in msg["message"]:
                other.append(msg["message"])
        if not new:
            raise vlib.ToolError("the generated crate does not build and no program can be blamed: %s\n%s" % (other[:3], p.stderr[-3000:]))
        rejected.update(new)
    else:
        raise vlib.ToolError("the generated crate still does not build after excluding %d programs" % len(rejected))
    vlib.log("generated crate: %d programs built in %.1fs (%d rejected by rustc)" % (len(progs), time.time() - t0, len(rejected)))
    outp = ctx.path(name + ".results.ndjson")
    exe = os.path.join(HM, "target", "debug", "vhm")
    r = subprocess.run([exe, outp], stdout=subprocess.PIPE, stderr=subprocess.PIPE, timeout=600)
    if r.returncode != 0:
        raise vlib.ToolError("vhm failed: %s" % r.stderr.decode("utf-8", "replace")[-2000:])
    results = {e["id"]: e for e in vlib.read_ndjson(outp)}
    return results, rejected


def events_for(progs, results, rejected):
    evs = []
    for i, pr in enumerate(progs):
        if i in rejected:
            evs.append({"p": pr["p"], "src": pr["src"], "text": pr["text"], "built": False, "eq": False,
                        "mv": {"t": "none"}, "pr": {"t": "none"}})
        else:
            r = results[i]
            prr = r["pr"] if r["pr"]["t"] == "ok" else {"t": r["pr"]["t"]}
            evs.append({"p": pr["p"], "src": pr["src"], "text": pr["text"], "built": True, "eq": r["eq"], "mv": r["mv"], "pr": prr})
    return evs


_FINDING = re.compile(r'^"finding: ([a-z ]+)"$')


def judge(ctx, progs, results, rejected, name):
    evs = events_for(progs, results, rejected)
    tracep = ctx.path(name + ".trace.ndjson")
    vlib.write_ndjson(tracep, evs)
    tres = common.validate_trace_sharded(ctx, "C09Trace", tracep, shards=10)
    nf = 0
    for lno, what in tres.bad:
        i = lno - 1
        pr = progs[i]
        src = vlib.b2s(pr["src"])
        if what.startswith('"binding'):
            raise vlib.ToolError("C09: %s for %s" % (what, src))
        m = _FINDING.match(what)
        case = {"p": pr["p"], "src": pr["src"], "text": pr["text"]}
        if m:
            nf += 1
            ctx.violation({"rule": "token-fusion", "site": m.group(1)}, case,
                          "sexp!(%s) fuses a separate `-`/`:` with what follows: macro %s, parser reads %s" % (
                              src, _show(results[i]["mv"]), _show(results[i]["pr"])))
        else:
            r = results.get(i, {})
            ctx.violation({"rule": "differs", "src": src}, case,
                          "sexp!(%s) vs %r: %s; macro %s, parser %s%s" % (
                              src, vlib.b2s(pr["text"]), what, _show(r.get("mv")), _show(r.get("pr")),
                              ("; rustc: " + rejected[i][:300]) if i in rejected else ""))
    return tres, nf


def _show(j):
    if not j:
        return "-"
    return json.dumps(j, separators=(",", ":"))[:260]


def run(ctx):
    q = ctx.quick()
    ctx.level = "translation_validation"
    mc = os.path.join(vlib.SPEC, "mc", "C09.tla")
    res = vlib.run_tlc(mc, cfg=os.path.join(vlib.SPEC, "mc", "C09.cfg" if q else "C09Deep.cfg"), workdir=ctx.path("tlc"), workers=10)
    if res.notes:
        vlib.log("C09 model: " + res.notes[0][:600])
        raise vlib.ToolError("C09: the macro model, the documented values and the reference reader disagree on %d programs" % len(res.notes))
    vlib.require_clean_tlc(res, "C09 macro model")
    ctx.add_tlc(res)
    ideal = vlib.run_tlc(mc, cfg=os.path.join(vlib.SPEC, "mc", "C09Ideal.cfg"), workdir=ctx.path("tlc"), workers=10)
    vlib.require_clean_tlc(ideal, "C09 macro grammar with faithful spacing")
    ctx.add_tlc(ideal)
    asfound = vlib.run_tlc(mc, cfg=os.path.join(vlib.SPEC, "mc", "C09AsFound.cfg"), workdir=ctx.path("tlc"), workers=4)
    if "AsBuiltStrict" not in asfound.violated:
        raise vlib.ToolError("C09: the as-found macro grammar (every '.' a pair dot) is not rejected by the model")
    progs = [{"p": r["p"], "src": r["src"], "text": r["text"], "fam": r["fam"]} for r in res.replay]
    n_model = len(progs)
    rng = random.Random(ctx.seed * 7919 + 9)
    n_rand = 1500 if q else 50000
    seen = set(bytes(p["src"]) for p in progs)
    while len(progs) < n_model + n_rand:
        p = rand_program(rng, rng.choice([2, 3, 4, 5, 5]))
        src = render(p, True)
        if bytes(src) in seen or len(src) > 400:
            continue
        seen.add(bytes(src))
        progs.append({"p": p, "src": src, "text": render(p, False), "fam": "random"})
    chunk = 6000
    total_bad, validated, nf, nrej = 0, 0, 0, 0
    depth_hist = {}
    for a in range(0, len(progs), chunk):
        part = progs[a:a + chunk]
        results, rejected = build_and_run(ctx, part, "c%d" % (a // chunk))
        tres, f = judge(ctx, part, results, rejected, "c%d" % (a // chunk))
        validated += tres.events
        nf += f
        nrej += len(rejected)
    for p in progs:
        d = _depth(p["p"])
        depth_hist[d] = depth_hist.get(d, 0) + 1
    ctx.cov["evaluations"] = len(progs)
    ctx.cov["distinct_nontrivial"] = len(progs)
    ctx.cov["traces_validated_against_impl"] = validated
    ctx.cov["exhaustive"] = False
    ctx.cov["programs_from_model"] = n_model
    ctx.cov["programs_random"] = len(progs) - n_model
    ctx.cov["programs_by_depth"] = {str(k): v for k, v in sorted(depth_hist.items())}
    ctx.cov["programs_rejected_by_rustc"] = nrej
    ctx.cov["programs_at_recorded_fusion_sites"] = nf
    ctx.cov["rule"] = ("every program is one sexp! invocation compiled against /repo in a generated crate (harness-macro/vhm) and compared "
                       "with lexpr::from_slice of the equivalent text by the property's own relation (==). Programs: (1) enumerated by TLC "
                       "from spec/MacroCorpus.tla: every atom form at top level; all lists of <= 3 and vectors of <= 2 elements over a pool "
                       "with one atom of each form and punctuation symbols of every spacing pattern; dotted lists with 22 kinds of tail "
                       "(atoms, symbols, unquotes, lists and dotted lists that flatten, vectors); every atom next to each probe in both "
                       "orders; composites nested to depth 4; (2) seeded random trees of depth <= 5 over random atoms of every form. TLC "
                       "checks on the model that the reference reader reads Render(p) as ValueOf(p) and that the token grammar "
                       "(MacroRead over Tokenize) gives ValueOf(p) except at fusion sites; C09Trace validates each compiled program's "
                       "source, text and verdict against the model")
    ctx.cov["samples"] = [{"src": vlib.b2s(p["src"]), "text": vlib.b2s(p["text"])} for p in progs[:: max(1, len(progs) // 6)]][:6]
    ctx.assumptions += [
        "Rendering rule: lexemes are separated by one space in both the macro source and the parser text; a minus sign is attached to its "
        "number; multi-character punctuation symbols are contiguous; kebab-case names use #\"...\" / #:\"...\"",
        "punctuation symbols are those R7RS identifiers made of characters Rust lexes as punctuation, excluding runs containing // or /* "
        "(Rust comments) and names the reference reader leaves unspecified (a lone @)",
        "floats in exponent form are generated with at most 8 significant digits and an effective exponent within +-22, the class "
        "for which the parser documents correct rounding (C05); beyond it the parser may differ from rustc's literal by an ulp",
        "unquoted expressions: one per From impl of Value (i32, u64, i8, f64, bool, char, &str, String, Vec<u8>, (T, U), Vec<Value>, "
        "Value) and an arithmetic and a comparison expression; the expected text is the printed value",
    ]


def _depth(p):
    if p["t"] == "list":
        sub = list(p["es"]) + ([p["tail"]] if p["tail"]["t"] != "none" else [])
        return 1 + max([_depth(x) for x in sub], default=0)
    if p["t"] == "vec":
        return 1 + max([_depth(x) for x in p["es"]], default=0)
    return 0


def replay(ctx, case):
    ctx.level = "translation_validation"
    progs = [{"p": case["p"], "src": case["src"], "text": case["text"]}]
    results, rejected = build_and_run(ctx, progs, "replay")
    judge(ctx, progs, results, rejected, "replay")
    ctx.cov["evaluations"] = 1
