"""C11 - source spans delimit exactly the text of each datum."""
import vlib
from props import common, datums


def run(ctx):
    q = ctx.quick()
    out, tres, events, nlay = datums.run_datums(ctx, q)
    datums.report(ctx, out, tres, events, "c11")
    spans = [e for e in events if e["ev"] == "spans"]
    ctx.cov["evaluations"] = out["evaluations"] * 3
    ctx.cov["distinct_nontrivial"] = out["distinct"]
    ctx.cov["traces_validated_against_impl"] = len(spans)
    ctx.cov["rule"] = ("inputs: every word of bounded length over the lexeme/trivia alphabet of spec/mc/C11.tla that the reference reader "
                       "accepts (default and Emacs Lisp options), the token-kind corpus, seeded token-alphabet texts and printed random "
                       "values with layout noise; each input is parsed with the datum API from str, slice and io::Read; for every "
                       "sub-datum reachable through list_iter / vector_iter the span relations of the property are checked and the "
                       "covered text is re-parsed; the three span trees must be identical; sampled trees are re-validated by TLC, which "
                       "reads the covered text with the reference reader; distinct = distinct inputs yielding at least one datum")
    ctx.cov["sub_data_checked"] = out["subdata"]
    ctx.cov["tlc_layouts"] = nlay
    ctx.cov["samples"] = [{"text": vlib.b2s(e["text"]), "src": e["src"], "trees": e["trees"]} for e in spans[:: max(1, len(spans) // 3)]][:3]
    ctx.assumptions += ["spans are compared as reported (1-based line, 0-based byte column); offsets are computed by the harness and, "
                        "independently, by spec/Text.tla OffsetOf in the trace run"]


def replay(ctx, case):
    out, tracep = common.harness_json(ctx, "datum-replay", case)
    tres = common.validate_trace_sharded(ctx, "DatumTrace", tracep, shards=1)
    datums.report(ctx, out, tres, vlib.read_ndjson(tracep), "c11")
    ctx.cov["evaluations"] = 1
