"""C07 - every output sink receives exactly the printed text; write errors surface."""
import json
import os

import vlib

TRACE_JVM = ["-Xss1g", "-Xmx6g", "-Dtlc2.tool.queue.IStateQueue=StateDeque"]


def _mc(ctx):
    cfg = ctx.path("C07.cfg")
    maxn, maxcalls = (4, 5) if ctx.quick() else (5, 7)
    with open(cfg, "w") as f:
        f.write("SPECIFICATION Spec\nCONSTANTS\n  MaxN = %d\n  MaxCalls = %d\n  WriteAllEverywhere = TRUE\n"
                "INVARIANTS TypeOK DeliveredIsPrefix OkMeansComplete FaultSurfaces BufferStartsAtCut Emit\n" % (maxn, maxcalls))
    res = vlib.run_tlc(os.path.join(vlib.SPEC, "mc", "C07.tla"), cfg=cfg, workdir=ctx.path("tlc"), workers=8)
    vlib.require_clean_tlc(res, "C07 sink machine")
    ctx.add_tlc(res)
    # non-vacuity: the as-found discipline (a plain write for some chunk) must violate the invariants
    res2 = vlib.run_tlc(os.path.join(vlib.SPEC, "mc", "C07.tla"), cfg=os.path.join(vlib.SPEC, "mc", "C07AsFound.cfg"),
                        workdir=ctx.path("tlc"), workers=2)
    if not any(v in ("OkMeansComplete", "DeliveredIsPrefix", "FaultSurfaces") for v in res2.violated):
        raise vlib.ToolError("C07 invariants are vacuous: the plain-write variant of the model was not rejected")
    ctx.extra["model"] = {"MaxN": maxn, "MaxCalls": maxcalls, "asfound_variant_rejected": True,
                          "behaviours": len(res.replay)}
    seen, scheds = set(), []
    for r in res.replay:
        k = json.dumps(r["resp"], sort_keys=True)
        if r["resp"] and k not in seen:
            seen.add(k)
            scheds.append(r["resp"])
    return scheds


def _validate_trace(ctx, trace_path):
    res = vlib.run_tlc(os.path.join(vlib.SPEC, "trace", "C07Trace.tla"), workdir=ctx.path("tlc"), workers=1,
                       env_extra={"TRACE": trace_path}, jvm=TRACE_JVM, timeout=3000)
    if res.errors or not res.finished:
        raise vlib.ToolError("C07 trace validation did not run: %s\n%s" % (res.errors[:2], res.stdout_tail[-1500:]))
    return res


def _report(ctx, native_bad, tlc_res, trace_path):
    events = vlib.read_ndjson(trace_path)
    # map event number -> begin event of its run
    begin_of = {}
    cur = None
    for i, e in enumerate(events, start=1):
        if e["ev"] == "begin":
            cur = e
        begin_of[i] = cur
    tlc_runs = {}
    for payload in tlc_res.bad:
        lno, what = payload.split(", ", 1)
        if what.strip('"') == "trace not consumed":
            raise vlib.ToolError("C07 trace was not consumed completely by the trace specification")
        b = begin_of[int(lno)]
        tlc_runs.setdefault(b["run"], (b, []))[1].append(what.strip('"'))
    for b in native_bad:
        case = {"ep": b["ep"], "v": b["v"], "po": b["po"], "mode": b["mode"]}
        sig = {"rules": sorted(b["bad"]), "ep": b["ep"], "v": b["v"], "po": b["po"], "mode": b["mode"]}
        ctx.violation(sig, case, "sink check %s failed for %s under %s: result=%s, sink got %d of %d bytes" % (
            b["bad"], b["ep"], json.dumps(b["mode"]), b.get("result"), len(b.get("got", [])), len(b.get("text", []))))
    for run, (b, whats) in tlc_runs.items():
        case = {"ep": b["ep"], "v": b["v"], "po": b["po"], "mode": b["mode"]}
        sig = {"rules": "trace:" + whats[0], "ep": b["ep"], "v": b["v"], "po": b["po"], "mode": b["mode"]}
        ctx.violation(sig, case, "trace rejected by Sink specification: %s (%s under %s)" % (whats, b["ep"], json.dumps(b["mode"])))
    return len(tlc_runs)


def run(ctx):
    ctx.level = "fault_enumeration"
    scheds = _mc(ctx)
    q = ctx.quick()
    cfg = {"schedules": scheds if not q else scheds[:: max(1, len(scheds) // 600)],
           "seed": ctx.seed, "random_values": 300 if q else 6000, "random_runs": 6 if q else 10,
           "trace_budget": 60000 if q else 600000, "opts_sample": 6 if q else 24}
    cfgp, outp, tracep = ctx.path("cfg.json"), ctx.path("out.json"), ctx.path("trace.ndjson")
    with open(cfgp, "w") as f:
        json.dump(cfg, f)
    vlib.run_harness(["c07", cfgp, outp, tracep])
    with open(outp) as f:
        out = json.load(f)
    tres = _validate_trace(ctx, tracep)
    ctx.add_tlc(tres)
    nbad_tlc = _report(ctx, out["bad"], tres, tracep)
    ctx.cov["evaluations"] = out["runs"]
    ctx.cov["distinct_nontrivial"] = out["distinct_nontrivial"]
    ctx.cov["traces_validated_against_impl"] = tres.distinct - 1
    ctx.cov["rule"] = ("one evaluation = one print call (probe or seeded random value x entry point x printer options) into an "
                       "instrumented io::Write following a response schedule: TLC-enumerated schedules from spec/Sink.tla, a hard "
                       "error and a zero-byte acceptance at every output offset 0..=len, caps k=1..12 per call, seeded random caps "
                       "with Interrupted; distinct+non-trivial = distinct (text, per-call buffer/accepted lengths, entry point) in "
                       "which at least one call was short, failed, returned 0 or was interrupted")
    ctx.cov["write_calls_logged"] = out["writes"]
    ctx.cov["tlc_schedules"] = len(cfg["schedules"])
    ctx.cov["trace_events_validated_by_tlc"] = tres.distinct - 1
    ctx.cov["runs_rejected_by_trace_spec"] = nbad_tlc
    ctx.cov["formatter_disagreements"] = out["formatter_disagreements"]
    ctx.cov["probes"] = out["probes"]
    ctx.cov["option_sets_with_probes"] = out["option_sets"]
    ev = vlib.read_ndjson(tracep)[:8]
    ctx.cov["samples"] = [{k: e[k] for k in e if k not in ("v", "po")} for e in ev]
    ctx.assumptions += [
        "the oracle text is the implementation's own to_string/to_string_custom output, as the property states",
        "the instrumented sink and the native judge in harness/vh/src/c07.rs are trusted; TLC re-judges the logged write calls "
        "against spec/Sink.tla for the first trace_budget events",
    ]


def replay(ctx, case):
    cfgp, outp, tracep = ctx.path("case.json"), ctx.path("out.json"), ctx.path("trace.ndjson")
    with open(cfgp, "w") as f:
        json.dump(case, f)
    vlib.run_harness(["c07-replay", cfgp, outp, tracep])
    with open(outp) as f:
        out = json.load(f)
    tres = _validate_trace(ctx, tracep)
    _report(ctx, out["out"], tres, tracep)
    ctx.cov["evaluations"] = 1
