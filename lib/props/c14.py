"""C14 - serialization produces the documented S-expression shapes; documented alternative encodings."""
import vlib
from props import common, serdes


def run(ctx):
    q = ctx.quick()
    cases, n = serdes.model(ctx, "rt", 1)
    out, tres, events = serdes.run_harness(ctx, cases, 30 if q else 20000, 1, "serde-rt")
    serdes.report(ctx, out, tres, events, {"shape", "acceptance"}, {"ser", "de"})
    ctx.cov["evaluations"] = out["rt"] + out["alt"] + out["random"]
    ctx.cov["distinct_nontrivial"] = out["rt"] + out["alt"]
    ctx.cov["traces_validated_against_impl"] = tres.events
    ctx.cov["rule"] = ("for every type of the family and every TLC-enumerated inhabitant x: to_value(x) must equal RefSer(T, x), the "
                       "transcription of the documented shape table (spec/SerdeModel.tla); for every such value the alternative encodings "
                       "(vector for list, list for vector, improper tail, wrong kind, vector payload of a tuple variant) are deserialized "
                       "and compared with the documented verdict RefDe (accepted as which value / data error); seeded random inhabitants "
                       "are serialized and their shape validated by TLC; distinct = inhabitants + alternative encodings")
    ctx.cov["tlc_inhabitants"] = n["rt"]
    ctx.cov["alternative_encodings"] = n["alt"]
    ctx.cov["samples"] = [e for e in events if e["ev"] == "de"][:3] + [e for e in events if e["ev"] == "ser"][:2]
    ctx.assumptions += ["BTreeSet / BTreeMap serialise their entries in ascending key order (std); the documented shape fixes the cells, "
                        "the order is the container's",
                        "alternative encodings with surplus elements are undetermined by the documentation and only subject to C18"]


def replay(ctx, case):
    out, tracep = common.harness_json(ctx, "serde-replay", {k: v for k, v in case.items() if v is not None})
    tres = common.validate_trace_sharded(ctx, "SerdeTrace", tracep, shards=1)
    serdes.report(ctx, out, tres, vlib.read_ndjson(tracep), {"shape", "acceptance", "deserialize"}, {"ser", "de"})
    ctx.cov["evaluations"] = 1
