"""X04 (beyond the listed properties) - unbounded argument for the printer's write discipline.

spec/extra/SinkInd.tla is spec/Sink.tla (C07) as an integer machine; Apalache discharges the inductive
invariant for every text length, every chunking and every sequence of sink answers, and refutes it when a
chunk may be written with one plain write() (the pinned tree). The bounded machine (TLC) and its binding
to the code (fault-injecting sinks, C07Trace) are in C07."""
from props import x03

RUNS = [
    ("initial states satisfy the invariant", ["--cinit=ConstInit", "--init=Init", "--inv=IndInv", "--length=0"], True),
    ("the invariant is inductive", ["--cinit=ConstInit", "--init=IndInit", "--inv=IndInv", "--length=1"], True),
    ("it implies: delivered bytes are a prefix of the text", ["--cinit=ConstInit", "--init=IndInit", "--inv=DeliveredIsPrefix", "--length=0"], True),
    ("it implies: Ok means the whole text was delivered", ["--cinit=ConstInit", "--init=IndInit", "--inv=OkMeansComplete", "--length=0"], True),
    ("it implies: a refused write never ends in Ok", ["--cinit=ConstInit", "--init=IndInit", "--inv=FaultSurfaces", "--length=0"], True),
    ("with a plain write per chunk the invariant is refuted", ["--cinit=ConstInitAsFound", "--init=IndInit", "--inv=IndInv", "--length=1"], False),
]


def run(ctx):
    x03.obligations(ctx, "SinkInd", RUNS)
    x03.tlaps(ctx, "SinkInd", "SinkIndProof", ("ASSUME Disciplined == WriteAll = TRUE", "ASSUME Disciplined == WriteAll = FALSE"))
    ctx.cov["rule"] = "proof obligations discharged by Apalache (symbolic: any text length, chunking and sink behaviour)"


def replay(ctx, case):
    run(ctx)
