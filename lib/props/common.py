"""Helpers shared by the property modules."""
import json
import os

import vlib

TRACE_JVM = ["-Xss1g", "-Xmx6g", "-Dtlc2.tool.queue.IStateQueue=StateDeque"]


def harness_json(ctx, command, cfg, name=None, package="vh", **kw):
    """Run `vh <command> cfg.json out.json trace.ndjson`; returns (out, trace_path)."""
    name = name or command
    cfgp, outp, tracep = ctx.path(name + ".cfg.json"), ctx.path(name + ".out.json"), ctx.path(name + ".trace.ndjson")
    with open(cfgp, "w") as f:
        json.dump(cfg, f)
    vlib.run_harness([command, cfgp, outp, tracep], package=package, **kw)
    with open(outp) as f:
        return json.load(f), tracep


def _trace_module(module):
    """spec/trace/<module>.tla, or spec/extra/<module>.tla for the modules beyond the listed properties."""
    p = os.path.join(vlib.SPEC, "trace", module + ".tla")
    return p if os.path.exists(p) else os.path.join(vlib.SPEC, "extra", module + ".tla")


def validate_trace(ctx, module, trace_path, env=None, timeout=3000):
    """TLC trace validation with spec/trace/<module>.tla; the trace must be consumed completely."""
    envx = {"TRACE": trace_path}
    if env:
        envx.update(env)
    if os.path.getsize(trace_path) == 0:
        raise vlib.ToolError("empty trace for %s" % module)
    res = vlib.run_tlc(_trace_module(module), workdir=ctx.path("tlc"), workers=1,
                       env_extra=envx, jvm=TRACE_JVM, timeout=timeout)
    if res.errors or not res.finished:
        raise vlib.ToolError("%s trace validation did not run: %s\n%s" % (module, res.errors[:2], res.stdout_tail[-2000:]))
    for b in res.bad:
        if "trace not consumed" in b:
            raise vlib.ToolError("%s: trace was not consumed completely by the trace specification" % module)
    ctx.add_tlc(res)
    return res


def bad_lines(res):
    """[(event number, reason)] from <<"BAD", l, reason>> lines."""
    out = []
    for p in res.bad:
        lno, what = p.split(", ", 1)
        out.append((int(lno), what))
    return out


def unspecified(res):
    for n in res.notes:
        if n.startswith('"unspecified"'):
            return int(n.split(", ")[1])
    return 0


class ShardedResult:
    def __init__(self):
        self.bad = []        # [(global event number, reason)]
        self.distinct = 0
        self.generated = 0
        self.unspecified = 0
        self.events = 0
        self.wall = 0.0


def validate_trace_sharded(ctx, module, trace_path, shards=8, env=None, timeout=3000):
    """Stateless trace modules (one independent judgement per event): split the trace over several TLC
    processes. Returns a ShardedResult with BAD lines mapped back to global event numbers."""
    import threading
    import time
    with open(trace_path) as f:
        lines = [ln for ln in f if ln.strip()]
    out = ShardedResult()
    out.events = len(lines)
    if not lines:
        raise vlib.ToolError("empty trace for %s" % module)
    shards = max(1, min(shards, (len(lines) + 199) // 200))
    # longest events first, then deal round-robin, so the shards carry similar work
    order = sorted(range(len(lines)), key=lambda i: -len(lines[i]))
    parts = [[] for _ in range(shards)]
    for n, i in enumerate(order):
        parts[n % shards].append(i)
    results = [None] * shards
    errors = []

    def work(k):
        try:
            p = ctx.path("%s.shard%d.ndjson" % (module, k))
            with open(p, "w") as f:
                for i in parts[k]:
                    f.write(lines[i])
            envx = {"TRACE": p}
            if env:
                envx.update(env)
            res = vlib.run_tlc(_trace_module(module), workdir=ctx.path("tlc%d" % k), workers=1,
                               env_extra=envx, jvm=["-Xss1g", "-Xmx3g", "-Dtlc2.tool.queue.IStateQueue=StateDeque"],
                               timeout=timeout)
            if res.errors or not res.finished:
                raise vlib.ToolError("%s trace validation (shard %d) did not run: %s\n%s" %
                                     (module, k, res.errors[:2], res.stdout_tail[-2000:]))
            results[k] = res
        except Exception as e:  # noqa
            errors.append(e)

    t0 = time.time()
    threads = [threading.Thread(target=work, args=(k,)) for k in range(shards)]
    for t in threads:
        t.start()
    for t in threads:
        t.join()
    if errors:
        raise errors[0]
    for k, res in enumerate(results):
        for lno, what in bad_lines(res):
            if "trace not consumed" in what:
                raise vlib.ToolError("%s: shard %d was not consumed completely" % (module, k))
            out.bad.append((parts[k][lno - 1] + 1, what))
        out.distinct += res.distinct
        out.generated += res.generated
        out.unspecified += unspecified(res)
        if res.distinct - 1 != len(parts[k]):
            raise vlib.ToolError("%s: shard %d validated %d of %d events" % (module, k, res.distinct - 1, len(parts[k])))
    out.wall = time.time() - t0
    ctx.cov["states"] += out.distinct
    ctx.cov["transitions"] += out.generated
    out.bad.sort()
    return out
