"""X06 (beyond the listed properties) - Serde through text under dialect pairings.

spec/extra/X06.tla specifies the text-level Serde entry points as compositions of the value-level ones
(SerdeModel) with the documented printer and reader, evaluates every type x small inhabitant x six
printer/parser pairings, and reports which pairings lose information by design (NOTE lines). Every case is
executed (vh x06): the implementation's text entry points must be those compositions and must give the
predicted outcome; spec/extra/X06Trace.tla re-judges the recorded runs."""
import collections
import os

import vlib
from props import common


def run(ctx):
    res = vlib.run_tlc(os.path.join(vlib.SPEC, "extra", "X06.tla"), workdir=ctx.path("tlc"), workers=10)
    vlib.require_clean_tlc(res, "X06 Serde through text")
    ctx.add_tlc(res)
    lossy = collections.Counter()
    for n in res.notes:
        parts = n.split(", ")
        if parts[0] == '"no round trip"':
            lossy[(int(parts[1]), int(parts[2]))] += 1
    cases = ctx.path("cases.ndjson")
    vlib.write_ndjson(cases, res.replay)
    out, tracep = common.harness_json(ctx, "x06", {"cases_file": cases})
    for b in out["bad"]:
        c = b["case"]
        ctx.violation({"rule": b["rule"], "ti": b["ti"], "pi": c["pi"], "x": c["x"]}, c, "[%s, pairing %s] %s" % (b["ty"], c["pi"], b["why"]))
    tres = common.validate_trace_sharded(ctx, "X06Trace", tracep, shards=8)
    events = vlib.read_ndjson(tracep)
    for lno, what in tres.bad:
        e = events[lno - 1]
        ctx.violation({"rule": "trace", "why": what, "ti": e["ti"], "pi": e["pi"], "x": e["x"]}, {"ti": e["ti"], "pi": e["pi"], "x": e["x"]},
                      "X06Trace: %s (type %d, pairing %d, text %r)" % (what, e["ti"], e["pi"], vlib.b2s(e["text"])))
    ctx.cov["evaluations"] = out["cases"]
    ctx.cov["distinct_nontrivial"] = out["cases"]
    ctx.cov["traces_validated_against_impl"] = tres.events
    ctx.cov["exhaustive"] = True
    ctx.cov["rule"] = "every type of the Serde family x every inhabitant of depth 1 x six printer/parser pairings"
    ctx.cov["lossy_by_design"] = [{"type_index": t - 1, "pairing": p, "inhabitants": k} for (t, p), k in sorted(lossy.items())]


def replay(ctx, case):
    raise vlib.ToolError("X06 replays by re-running the whole (small) machine: ./check X06")
