"""X10 (beyond the listed properties) - unbounded argument for terminating iteration.

spec/extra/Progress.tla: a parser session over an input of N bytes as a counter machine (offset, calls answered,
ended). Apalache discharges the inductive invariant "calls <= offset (+1 once the end was reported)" for every N,
which implies that an iteration ends after at most N items; for the pinned tree's errors that consumed nothing
(repaired by 178b045) the invariant is refuted. The bounded machine with the same switch is spec/Session.tla
(ErrorsMakeProgress, liveness checked by TLC in C12); the binding to the code is the byte offset the session hook
reports after every call (SessionTrace)."""
from props import x03

RUNS = [
    ("initial states satisfy the invariant", ["--cinit=ConstInit", "--init=Init", "--inv=IndInv", "--length=0"], True),
    ("the invariant is inductive", ["--cinit=ConstInit", "--init=IndInit", "--inv=IndInv", "--length=1"], True),
    ("it implies: at most N items and one end-of-input answer", ["--cinit=ConstInit", "--init=IndInit", "--inv=Terminates", "--length=0"], True),
    ("with errors that consume nothing the invariant is refuted", ["--cinit=ConstInitAsFound", "--init=IndInit", "--inv=IndInv", "--length=1"], False),
]


def run(ctx):
    x03.obligations(ctx, "Progress", RUNS)
    x03.tlaps(ctx, "Progress", "ProgressProof", ("ASSUME Consuming == ErrorsConsume = TRUE", "ASSUME Consuming == ErrorsConsume = FALSE"))
    ctx.cov["rule"] = "proof obligations discharged by Apalache (symbolic: any input length, any split of the input into items)"


def replay(ctx, case):
    run(ctx)
