"""C19 - parse errors carry an in-bounds location; truncation is reported as EOF."""
import os

import vlib
from props import common


def _report(ctx, out, tracep):
    for b in out["bad"]:
        res = b["res"]
        sig = {"rule": b["rule"], "text": b["text"], "ro": b["ro"], "src": b["src"]}
        ctx.violation(sig, {"text": b["text"], "ro": b["ro"], "trunc": b["rule"] == "truncation-not-eof"},
                      "%s: %r (%s, %s) -> %s %r at %s:%s kind=%s" % (b["rule"], vlib.b2s(b["text"]), b["src"], _short(b["ro"]),
                                                                  res.get("cat"), res.get("msg"), res.get("line"), res.get("col"), res.get("iokind")))
    tres = common.validate_trace_sharded(ctx, "C19Trace", tracep)
    events = vlib.read_ndjson(tracep)
    for lno, what in tres.bad:
        e = events[lno - 1]
        ctx.violation({"rule": "trace:" + what, "text": e["text"], "ro": e["ro"], "src": e["src"]},
                      {"text": e["text"], "ro": e["ro"], "trunc": e["trunc"]},
                      "C19Trace: %s: %r -> %s at %s:%s" % (what, vlib.b2s(e["text"]), e["cat"], e["line"], e["col"]))
    return tres, events


def _short(ro):
    return "elisp" if ro.get("chr") == "elisp" and ro.get("str") == "elisp" else ("default" if ro.get("kw") == [True, False, False] and ro.get("br") == "list" else "custom")


# tokens that fail in ways of their own (a nested number parser, escapes, ranges); joined with the C08 token corpus
ERROR_TOKENS = ["1e999", "-1e999", "1e400", "9.9e999", "123456789012345678901234567890e999", "#e1", "#x1g", "#b2", "#\\xD800", "#\\x110000",
                "#\\nosuchname", '"\\xD800;"', '"\\x110000;"', '"\\q"', '"\\u12"', '"\\N{U+110000}"', "#u8(256)", "#u8(-1)", "#u8(a)", "#u8(1.5)",
                "?\\C-", "?\\N{U+110000}", "?\\x110000", "?\\u12", "#:", "#z", "#!eof", "1x", "1.2.3", "0x", "#\\", "\\", "{", "}", "#<a>",
                "#xFFFFFFFFFFFFFFFFFFFFFFFFFFFFFFFFFFFFFFFFFFFFFFFFFFFFFFFFFFFFFFFFFFFFFFFFFFFFFFFFFFFFFFFFFFFFFFFFFFFFFFFFFFFFFFFFFFFFFFFFFFFFFFFFFFFFFFFFFFFF"
                "FFFFFFFFFFFFFFFFFFFFFFFFFFFFFFFFFFFFFFFFFFFFFFFFFFFFFFFFFFFFFFFFFFFFFFFFFFFFFFFFFFFFFFFFFFFFFFFFFFFFFFFFFFFFFFFFFFFFFFFFFFFFFFFFFFFFFFFFFFFFFFFFFFFFFFFFFFFFFFFFFFFFFFFFFFFFFFFFFFFFFFFFFFFFFFFF"]


def _alphabet(big=False):
    import importlib.util
    spec = importlib.util.spec_from_file_location("corpus_gen", os.path.join(vlib.ROOT, "gen", "corpus.py"))
    m = importlib.util.module_from_spec(spec)
    spec.loader.exec_module(m)
    toks = (m.big_tokens() if big else [t.replace("\u00a7", "\\") for t in m.TOKENS]) + [t.replace("\\\\", "\\") for t in ERROR_TOKENS]
    return [list(t.encode("utf-8")) for t in toks]


def run(ctx):
    q = ctx.quick()
    res = vlib.run_tlc(os.path.join(vlib.SPEC, "mc", "C19.tla"), workdir=ctx.path("tlc"), workers=8)
    if res.notes:
        vlib.log("specification calls a prefix malformed: " + res.notes[0][:300])
    vlib.require_clean_tlc(res, "C19 truncation clause on the specification")
    ctx.add_tlc(res)
    cases = ctx.path("cases.ndjson")
    vlib.write_ndjson(cases, res.replay)
    out, tracep = common.harness_json(ctx, "c19", {"cases_file": cases, "seed": ctx.seed, "random_values": 300 if q else 40000,
                                                    "random_junk": 4000 if q else 6000000, "alphabet_extra": _alphabet(big=not q), "trace_bytes": 250000 if q else 12000000})
    tres, events = _report(ctx, out, tracep)
    ctx.cov["evaluations"] = out["evaluations"] + out["prefixes"]
    ctx.cov["distinct_nontrivial"] = out["distinct_wellformed"]
    ctx.cov["traces_validated_against_impl"] = tres.events
    ctx.cov["rule"] = ("texts: the TLC-checked corpus of single-datum texts (every token kind, both dialects), seeded random values "
                       "printed with the default and the Emacs Lisp printer, seeded junk spliced from a token alphabet and from the specification's token corpus (every token class with its near misses, out-of-range numbers, bad escapes) laid out over several lines; for every text that the "
                       "implementation parses, every proper byte prefix is parsed (slice; str and reader on every third) and a "
                       "failure must be of the EOF category; every error from every source is checked for location bounds and "
                       "io::Error kind; distinct = distinct well-formed texts whose prefixes were all tried")
    ctx.cov["prefixes_tried"] = out["prefixes"]
    ctx.cov["errors_checked"] = out["errors_checked"]
    ctx.cov["tlc_texts"] = out["tlc_cases"]
    ctx.cov["samples"] = [{"text": vlib.b2s(e["text"]), "cat": e["cat"], "line": e["line"], "col": e["col"], "truncated": e["trunc"]}
                          for e in events[:: max(1, len(events) // 6)]][:6]
    ctx.assumptions += ["the premise 'the full text parses as a single datum' is evaluated on the implementation itself"]


def replay(ctx, case):
    out, tracep = common.harness_json(ctx, "c19-replay", case)
    _report(ctx, out, tracep)
    ctx.cov["evaluations"] = 1
