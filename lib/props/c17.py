"""C17 - only well-formed UTF-8 ever reaches a str."""
import os

import vlib
from props import common


def _report(ctx, out, tracep):
    for b in out["bad"]:
        if b["rule"] == "print":
            ctx.violation({"rule": "print", "why": b["why"][:60], "v": b["v"], "po": b["po"]}, {"v": b["v"], "po": b["po"]}, "print: %s" % b["why"])
        else:
            ctx.violation({"rule": b["rule"], "why": b["why"][:60], "text": b["text"], "ro": b["ro"], "src": b["src"]},
                          {"text": b["text"], "ro": b["ro"]},
                          "%s: %s on %r (source %s, %s)" % (b["rule"], b["why"][:300], bytes(b["text"]), b["src"], b["ro"]))
    tres = common.validate_trace_sharded(ctx, "ReadTrace", tracep)
    events = vlib.read_ndjson(tracep)
    for lno, what in tres.bad:
        e = events[lno - 1]
        ctx.violation({"rule": "trace", "why": what[:70], "text": e["text"], "ro": e["ro"]}, {"text": e["text"], "ro": e["ro"]},
                      "reference reader on %r: %s; implementation: %s %s" % (bytes(e["text"]), what, e["res"], str(e["vs"])[:200]))
    return tres, events


def run(ctx):
    q = ctx.quick()
    res = vlib.run_tlc(os.path.join(vlib.SPEC, "mc", "C17.tla"), workdir=ctx.path("tlc"), workers=8)
    vlib.require_clean_tlc(res, "C17 UTF-8 classes on the specification")
    ctx.add_tlc(res)
    cases = ctx.path("cases.ndjson")
    vlib.write_ndjson(cases, res.replay)
    out, tracep = common.harness_json(ctx, "c17", {"cases_file": cases, "seed": ctx.seed, "random_bytes": 4000 if q else 300000,
                                                    "random_values": 400 if q else 20000})
    tres, events = _report(ctx, out, tracep)
    ctx.cov["evaluations"] = out["evaluations"]
    ctx.cov["distinct_nontrivial"] = out["tlc_cases"] + out["illformed_inputs"]
    ctx.cov["traces_validated_against_impl"] = tres.events
    ctx.cov["rule"] = ("input side: every class of UTF-8 sequence (16 classes: valid 2/3/4-byte, overlong, surrogate, beyond U+10FFFF, invalid "
                       "leads, truncated, stray continuation) in 14 contexts (inside / at the start of a symbol, inside a string, between "
                       "escapes, next to R6RS and Emacs hex / octal escapes, characters of both syntaxes, comments, list elements, keyword "
                       "names, unterminated strings) under default and Emacs Lisp options, with the verdict of the reference reader; plus "
                       "seeded fragment-spliced random bytes; parsed from slice, stream and (when valid) str; every str reachable from the "
                       "result is re-validated and the add-only hook in front of the five unchecked conversions must never see an "
                       "ill-formed buffer; output side: all probe values x all 576 printer option sets and random values: the String is "
                       "valid UTF-8 and equals to_vec / to_writer; distinct = TLC cases + ill-formed random inputs")
    ctx.cov["unspecified_by_reference"] = tres.unspecified
    ctx.cov["samples"] = [{"text": str(bytes(e["text"])), "result": e["res"], "values": e["vs"]} for e in events[:: max(1, len(events) // 5)]][:5]
    ctx.assumptions += ["undefined behaviour itself is not observable; it is approximated by re-validating every str and by counting ill-formed "
                        "buffers immediately before each from_utf8_unchecked call (hook)"]


def replay(ctx, case):
    out, tracep = common.harness_json(ctx, "c17-replay", {k: v for k, v in case.items() if v is not None})
    if os.path.getsize(tracep) > 0:
        _report(ctx, out, tracep)
    else:
        for b in out["bad"]:
            ctx.violation({"rule": b["rule"]}, case, b["why"])
    ctx.cov["evaluations"] = 1
