"""C20 - Value and Number accessors, conversions and comparisons are coherent."""
import os

import vlib
from props import common


def run(ctx):
    q = ctx.quick()
    res = vlib.run_tlc(os.path.join(vlib.SPEC, "mc", "C20.tla"), workdir=ctx.path("tlc"), workers=8)
    vlib.require_clean_tlc(res, "C20 number model")
    ctx.add_tlc(res)
    cases = ctx.path("cases.ndjson")
    vlib.write_ndjson(cases, res.replay)
    out, tracep = common.harness_json(ctx, "c20", {"cases_file": cases, "seed": ctx.seed, "random": 2000 if q else 4000000})
    for b in out["bad"]:
        ctx.violation({"rule": b["rule"], "why": b["why"][:70], "k": b["k"], "p": b.get("p")}, {"k": b["k"]},
                      "%s: %s (value built by %s%s)" % (b["rule"], b["why"], b["k"], ", primitive %s" % b["p"] if b.get("p") else ""))
    tres = common.validate_trace_sharded(ctx, "C20Trace", tracep, shards=8)
    events = vlib.read_ndjson(tracep)
    for lno, what in tres.bad:
        e = events[lno - 1]
        ctx.violation({"rule": "trace", "why": what[:70], "k": e["k"], "p": e.get("p")}, {"k": e["k"]}, "C20Trace: %s on %s" % (what, str(e)[:300]))
    ctx.cov["evaluations"] = out["evaluations"]
    ctx.cov["distinct_nontrivial"] = len(res.replay) * 46
    ctx.cov["traces_validated_against_impl"] = tres.events
    ctx.cov["exhaustive"] = True
    ctx.cov["rule"] = ("values: Value::from(p) for every boundary value p (min, min+1, -1, 0, 1, max-1, max, and the i64/u64 limits) of each of "
                       "the eight integer widths, float class representatives, and one payload of every other kind; for each: exactly one "
                       "kind predicate, is_x <=> as_x, as_name, payload preservation, as_i64/as_u64 against the number model, and == in "
                       "both operand orders (and through references) against every integer boundary primitive of every width, bools, "
                       "strings and 13 float primitives incl. NaN and infinity; plus seeded random integers of random widths validated by "
                       "TLC; distinct = (value, integer primitive) pairs")
    ctx.cov["samples"] = [e for e in events if e["ev"] == "cmp"][:3] + [e for e in events if e["ev"] == "num"][:2]
    ctx.assumptions += ["Interpretation: for f64 only is_f64 => as_f64.is_some() is required (as_f64 also converts integers, as the property says)",
                        "as_f64 of an integer is compared with Rust's `as f64` conversion (round to nearest)"]


def replay(ctx, case):
    out, _ = common.harness_json(ctx, "c20-replay", case)
    for b in out["bad"]:
        ctx.violation({"rule": b["rule"]}, case, b["why"])
    ctx.cov["evaluations"] = 1
