"""X07 (beyond the listed properties) - the consuming iterator cons::IntoIter with peek / peek_mut.

spec/extra/X07.tla is the iterator as a machine (Next, SetCar / SetCdr through peek_mut); TLC checks that it
holds no state besides the remainder and that a finished iterator stays finished; every behaviour is
replayed (harness-extra/vx) and the recorded runs are validated by spec/extra/X07Trace.tla."""
import os

import vlib
from props import common


def run(ctx):
    q = ctx.quick()
    res = vlib.run_tlc(os.path.join(vlib.SPEC, "extra", "X07.tla"), cfg=os.path.join(vlib.SPEC, "extra", "X07Quick.cfg" if q else "X07.cfg"),
                       workdir=ctx.path("tlc"), workers=10)
    vlib.require_clean_tlc(res, "X07 consuming iterator")
    ctx.add_tlc(res)
    cases = ctx.path("cases.ndjson")
    vlib.write_ndjson(cases, res.replay)
    out, tracep = common.harness_json(ctx, "x07", {"cases_file": cases, "trace_every": 1 if q else 8}, package="vx")
    for b in out["bad"]:
        c = b["case"]
        ctx.violation({"rule": b["rule"], "init": c["init"], "acts": [s["act"] for s in c["steps"]]}, c, "%s: %s" % (b["rule"], b["why"]))
    tres = common.validate_trace(ctx, "X07Trace", tracep)
    events = vlib.read_ndjson(tracep)
    for lno, what in common.bad_lines(tres):
        e = events[lno - 1]
        ctx.violation({"rule": "trace", "why": what, "n": lno}, {"init": e["init"], "steps": []}, "X07Trace: %s (event %d: %s)" % (what, lno, e["act"]))
    ctx.cov["evaluations"] = out["steps"]
    ctx.cov["distinct_nontrivial"] = out["behaviours"]
    ctx.cov["traces_validated_against_impl"] = len(events)
    ctx.cov["exhaustive"] = True
    ctx.cov["rule"] = "every sequence of %d actions (next, set_car / set_cdr through peek_mut with five values) from five roots" % (3 if q else 4)


def replay(ctx, case):
    cases = ctx.path("cases.ndjson")
    vlib.write_ndjson(cases, [case])
    out, tracep = common.harness_json(ctx, "x07", {"cases_file": cases, "trace_every": 1}, package="vx")
    for b in out["bad"]:
        ctx.violation({"rule": b["rule"]}, case, b["why"])
    ctx.cov["evaluations"] = 1
