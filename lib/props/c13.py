"""C13 - whatever the parser accepts can be printed and read back unchanged."""
import json
import os

import vlib
from props import common


def _report(ctx, out, tracep):
    for b in out["bad"]:
        sig = {"rule": b["rule"], "text": b["text"], "ro": b["ro"]}
        ctx.violation(sig, {"text": b["text"], "ro": b["ro"], "po": b["po"]},
                      "%s: %r under %s: %s %s" % (b["rule"], vlib.b2s(b["text"]), b["ro"], b.get("detail"),
                                                  {k: (vlib.b2s(v) if isinstance(v, list) else v) for k, v in (b.get("more") or {}).items()}))
    tres = common.validate_trace_sharded(ctx, "C13Trace", tracep)
    events = vlib.read_ndjson(tracep)
    for lno, what in tres.bad:
        e = events[lno - 1]
        ctx.violation({"rule": "trace:" + what, "text": e["text"], "ro": e["ro"]}, {"text": e["text"], "ro": e["ro"], "po": e["po"]},
                      "C13Trace: %s: text %r printed as %r" % (what, vlib.b2s(e["text"]), vlib.b2s(e["t1"])))
    return tres, events


def run(ctx):
    q = ctx.quick()
    cfg = ctx.path("C13.cfg")
    maxlen, big = (4, False) if q else (5, True)
    with open(cfg, "w") as f:
        f.write("SPECIFICATION Spec\nCONSTANTS MaxLen = %d\n Big = %s\nINVARIANTS AllFixedPoints Emit EmitCorpus\n" %
                (maxlen, "TRUE" if big else "FALSE"))
    res = vlib.run_tlc(os.path.join(vlib.SPEC, "mc", "C13.tla"), cfg=cfg, workdir=ctx.path("tlc"), workers=14, timeout=7200,
                       jvm=["-Xss512m", "-Xmx16g"])
    if res.notes:
        vlib.log("not a fixed point on the specification: " + res.notes[0][:500])
    vlib.require_clean_tlc(res, "C13 fixed point on the specification")
    ctx.add_tlc(res)
    tlc_file = ctx.path("tlc.ndjson")
    vlib.write_ndjson(tlc_file, res.replay)
    from props import c19
    toks = c19._alphabet(big=not q)
    extra = toks + [[40] + t + [32, 120, 41] for t in toks] + [[40, 120, 32, 46, 32] + t + [41] for t in toks]
    out, tracep = common.harness_json(ctx, "c13", {"tlc_file": tlc_file, "extra_texts": extra, "trace_bytes": 300000 if q else 5000000,
                                                    "trace_stride": 7 if q else 211})
    tres, events = _report(ctx, out, tracep)
    ctx.cov["evaluations"] = out["evaluations"]
    ctx.cov["distinct_nontrivial"] = out["distinct_accepted"]
    ctx.cov["traces_validated_against_impl"] = tres.events
    ctx.cov["exhaustive"] = True
    ctx.cov["rule"] = ("inputs: every word of length <= %d over the %d-symbol byte-string alphabet of spec/mc/C13.tla plus the corpus of "
                       "single-datum texts, each under %d parser option sets with their corresponding printer options (PrinterFor); "
                       "for every input the implementation accepts: print, re-parse, compare with the documented folding, print "
                       "again, re-parse; distinct+non-trivial = distinct (accepted text, option set)" %
                       (maxlen, 27 if big else 15, out["option_sets"]))
    ctx.cov["words"] = out["words"]
    ctx.cov["accepted"] = out["accepted"]
    ctx.cov["reader_unspecified_in_trace"] = tres.unspecified
    ctx.cov["samples"] = [{"text": vlib.b2s(e["text"]), "printed": vlib.b2s(e["t1"]), "value": e["v"]}
                          for e in events[:: max(1, len(events) // 6)]][:6]
    ctx.assumptions += ["Interpretation (DESIGN.md C13): the text fixed point t2 = t1 is required when the documented folding leaves "
                        "the value unchanged and all floats were re-read bit-exactly; where folding changes the value (e.g. #f "
                        "under Emacs Lisp options becomes the empty list) the folded value must itself be a fixed point"]


def replay(ctx, case):
    out, tracep = common.harness_json(ctx, "c13-replay", case)
    _report(ctx, out, tracep)
    ctx.cov["evaluations"] = 1
