"""X02 (beyond the listed properties) - the Formatter callback protocol of the printer.

Specification: spec/Formatter.tla (Events, the protocol's stack machine, Render); spec/extra/X02.tla
model-checks well-formedness and the refinement Render o Events = RefPrint!PrintDatum over the bounded value
universe; the values (and seeded random ones) are printed through a logging formatter (harness-extra/vx)
and the logged callback sequences validated by spec/extra/X02Trace.tla."""
import os

import vlib
from props import common


def _report(ctx, out, tracep):
    for b in out["bad"]:
        ctx.violation({"rule": b["rule"], "v": b["v"]}, {"v": b["v"]}, "%s: %s" % (b["rule"], b["why"]))
    tres = common.validate_trace_sharded(ctx, "X02Trace", tracep, shards=8)
    events = vlib.read_ndjson(tracep)
    for lno, what in tres.bad:
        e = events[lno - 1]
        ctx.violation({"rule": "trace", "why": what, "v": e["v"]}, {"v": e["v"]},
                      "X02Trace: %s when printing %s" % (what, vlib.b2s(e["text"])[:200]))
    return tres.events


def run(ctx):
    q = ctx.quick()
    res = vlib.run_tlc(os.path.join(vlib.SPEC, "extra", "X02.tla"), workdir=ctx.path("tlc"), workers=10)
    vlib.require_clean_tlc(res, "X02 formatter protocol")
    ctx.add_tlc(res)
    cases = ctx.path("cases.ndjson")
    vlib.write_ndjson(cases, res.replay)
    out, tracep = common.harness_json(ctx, "x02", {"cases_file": cases, "seed": ctx.seed, "random": 1500 if q else 40000}, package="vx")
    n = _report(ctx, out, tracep)
    ctx.cov["evaluations"] = out["values"]
    ctx.cov["distinct_nontrivial"] = out["values"]
    ctx.cov["traces_validated_against_impl"] = n
    ctx.cov["exhaustive"] = False
    ctx.cov["rule"] = "values of the bounded universe (spec/ValGen.tla, width 2) plus seeded random values; one print through a logging formatter each"


def replay(ctx, case):
    cases = ctx.path("cases.ndjson")
    vlib.write_ndjson(cases, [case])
    out, tracep = common.harness_json(ctx, "x02", {"cases_file": cases, "random": 0}, package="vx")
    _report(ctx, out, tracep)
    ctx.cov["evaluations"] = 1
