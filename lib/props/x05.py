"""X05 (beyond the listed properties) - the option constructors and builder methods.

spec/OptionsAlgebra.tla gives the option records of Sexp.tla (DefaultParse, ElispParse, DefaultPrint,
ElispPrint - used by every other specification module) an operational meaning: builder chains. TLC checks
frame, idempotence and typing on the machine (spec/extra/X05.tla); every chain is executed (harness-extra/vx):
parser options are read back through their getters, printer options are observed through the text of a
probe set; spec/extra/X05Trace.tla validates both."""
import os

import vlib
from props import common


def _report(ctx, out, tracep):
    for b in out["bad"]:
        ctx.violation({"rule": b["rule"], "side": b["side"], "calls": b["calls"]}, {"side": b["side"], "calls": b["calls"]},
                      "%s options built by %s: %s" % (b["side"], [(c["m"], c["a"]) for c in b["calls"]], b["why"]))
    tres = common.validate_trace_sharded(ctx, "X05Trace", tracep, shards=6)
    events = vlib.read_ndjson(tracep)
    for lno, what in tres.bad:
        e = events[lno - 1]
        ctx.violation({"rule": "trace", "side": e["side"], "calls": e["calls"]}, {"side": e["side"], "calls": e["calls"]},
                      "X05Trace: %s (%s)" % (what, [(c["m"], c["a"]) for c in e["calls"]]))
    return tres.events


def run(ctx):
    res = vlib.run_tlc(os.path.join(vlib.SPEC, "extra", "X05.tla"), workdir=ctx.path("tlc"), workers=8)
    vlib.require_clean_tlc(res, "X05 option builders")
    ctx.add_tlc(res)
    cases = ctx.path("cases.ndjson")
    vlib.write_ndjson(cases, res.replay)
    out, tracep = common.harness_json(ctx, "x05", {"cases_file": cases}, package="vx")
    n = _report(ctx, out, tracep)
    ctx.cov["evaluations"] = out["chains"]
    ctx.cov["distinct_nontrivial"] = out["chains"]
    ctx.cov["traces_validated_against_impl"] = n
    ctx.cov["exhaustive"] = True
    ctx.cov["rule"] = "every chain of a constructor and up to two builder calls, for parser and printer options; 16 probe values per printer chain"


def replay(ctx, case):
    raise vlib.ToolError("X05 replays by re-running the whole (small) machine: ./check X05")
