"""C18 - deserializing any S-expression value is total and self-consistent."""
import vlib
from props import common, serdes


def run(ctx):
    q = ctx.quick()
    cases, n = serdes.model(ctx, "any", 1 if q else 2)
    # "not only serializer output" includes serializer output: the documented shape of every inhabitant (from the
    # specification, not from the serializer under test) and its documented alternative encodings are inputs as well
    import json
    rt_cases, _ = serdes.model(ctx, "rt", 1)
    extra = 0
    with open(cases, "a") as out_f, open(rt_cases) as in_f:
        for line in in_f:
            c = json.loads(line)
            if c["kind"] == "rt":
                c = {"kind": "any", "ti": c["ti"], "v": c["v"], "exp": {"t": "ok", "x": c["x"]}}
            out_f.write(json.dumps(c, separators=(",", ":")) + "\n")
            extra += 1
    out, tres, events = serdes.run_harness(ctx, cases, 0, 40 if q else 400, "serde-any")
    serdes.report(ctx, out, tres, events, {"deserialize"}, {"de"})
    ctx.cov["evaluations"] = out["any"] + out["alt"] + out["hostile"]
    ctx.cov["distinct_nontrivial"] = out["any"] + out["alt"] + out["hostile"]
    ctx.cov["documented_shapes_and_alternatives_as_inputs"] = extra
    ctx.cov["hostile_values_x_types"] = out["hostile"]
    ctx.cov["traces_validated_against_impl"] = tres.events
    ctx.cov["exhaustive"] = True
    ctx.cov["rule"] = ("every S-expression value of bounded size over a 12-atom alphabet of every kind (incl. improper lists, vectors where "
                       "lists are expected and vice versa, alists with non-pair entries or improper tails, (variant . payload) forms) x every "
                       "type of the family, plus the documented shape of every TLC-enumerated inhabitant and its documented alternative encodings: from_value under catch_unwind; an error must be a data error; an accepted value x must satisfy "
                       "from_value(to_value(x)) = x; the accept/reject decision is compared with the type-directed reference RefDe where "
                       "the documentation determines it; the model itself is checked by TLC for 'accepted => normalised'. In addition a fixed "
                       "pool of hostile values (numbers at and beyond every width incl. 1e300, 3.5e38, infinities, NaN; 40-byte, CJK and emoji "
                       "text as string, symbol and keyword; a 256-byte vector), each bare and in 8 wrappers (lists, pair, vector, alist key "
                       "and value, variant forms), goes into every type under the same totality and self-consistency rules")
    ctx.cov["types"] = out["types"]
    ctx.cov["samples"] = [e for e in events if e["res"]["r"] == "ok"][:3] + [e for e in events if e["res"]["r"] == "err"][:2]
    ctx.assumptions += ["serde_derive's handling of unknown, duplicate and missing struct fields is part of the trusted base; encodings the "
                        "documentation does not determine are only checked for totality and self-consistency"]


def replay(ctx, case):
    out, tracep = common.harness_json(ctx, "serde-replay", {k: v for k, v in case.items() if v is not None})
    tres = common.validate_trace_sharded(ctx, "SerdeTrace", tracep, shards=1)
    serdes.report(ctx, out, tres, vlib.read_ndjson(tracep), {"deserialize", "roundtrip"}, {"ser", "de"})
    ctx.cov["evaluations"] = 1
