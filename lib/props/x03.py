"""X03 (beyond the listed properties) - unbounded argument for the nesting budget.

spec/extra/DepthBudget.tla is the budget accounting of a parser session as a counter machine; Apalache
discharges the inductive invariant (budget + open frames = L, budget >= 1) for every limit L <= 255 and
every nesting depth, and refutes it for the accounting of the pinned tree (no refund at the limit error).
The bounded, implementation-shaped counterpart is spec/Session.tla (TLC, C03), which is bound to the code
by the session traces (budget after every call, recursion high-water mark)."""
import os
import shutil
import subprocess
import time

import vlib

RUNS = [
    ("initial states satisfy the invariant", ["--cinit=ConstInit", "--init=Init", "--inv=IndInv", "--length=0"], True),
    ("the invariant is inductive", ["--cinit=ConstInit", "--init=IndInit", "--inv=IndInv", "--length=1"], True),
    ("it implies bounded recursion", ["--cinit=ConstInit", "--init=IndInit", "--inv=BoundedRecursion", "--length=0"], True),
    ("it implies the budget is restored between calls", ["--cinit=ConstInit", "--init=IndInit", "--inv=RestoredBetweenCalls", "--length=0"], True),
    ("without the refund the invariant is refuted", ["--cinit=ConstInitAsFound", "--init=IndInit", "--inv=IndInv", "--length=1"], False),
]


def obligations(ctx, module, runs):
    """Discharge proof obligations on spec/extra/<module>.tla with Apalache. runs: (what, args, expect_no_error)."""
    ctx.level = "proof"
    d = ctx.path("apalache")
    shutil.rmtree(d, ignore_errors=True)
    os.makedirs(d)
    shutil.copy(os.path.join(vlib.SPEC, "extra", module + ".tla"), d)
    done = []
    for what, args, expect_ok in runs:
        t0 = time.time()
        try:
            p = subprocess.run(["apalache-mc", "check"] + args + [module + ".tla"], cwd=d, stdout=subprocess.PIPE,
                               stderr=subprocess.STDOUT, text=True, timeout=900)
        except subprocess.TimeoutExpired:
            raise vlib.ToolError("apalache timed out: " + what)
        ok = "EXITCODE: OK" in p.stdout
        err = "EXITCODE: ERROR (12)" in p.stdout
        if not ok and not err:
            raise vlib.ToolError("apalache failed (%s): %s" % (what, p.stdout[-1500:]))
        if ok != expect_ok:
            ctx.violation({"rule": "apalache", "what": what}, {"args": args}, "%s: %s - Apalache says %s" % (module, what, "no error" if ok else "error"))
        done.append({"obligation": what, "args": " ".join(args), "outcome": "no error" if ok else "counterexample", "seconds": round(time.time() - t0, 1)})
        vlib.log("apalache: %s: %s (%.1fs)" % (what, done[-1]["outcome"], time.time() - t0))
    shutil.rmtree(os.path.join(d, "_apalache-out"), ignore_errors=True)
    ctx.cov["evaluations"] = len(done)
    ctx.cov["distinct_nontrivial"] = len(done)
    ctx.cov["exhaustive"] = True
    ctx.cov["samples"] = done


def tlaps(ctx, module, proof, flip):
    """Check the TLAPS proof spec/extra/<proof>.tla (which EXTENDS <module>), and that it fails once the assumption
    `flip` = (text, replacement) is turned into the accounting of the pinned tree."""
    import re
    d = ctx.path("tlaps")
    shutil.rmtree(d, ignore_errors=True)
    os.makedirs(d)
    for m in (module, proof):
        shutil.copy(os.path.join(vlib.SPEC, "extra", m + ".tla"), d)
    out = []
    for name, expect_ok in ((proof, True), ("AsFound", False)):
        if name == "AsFound":
            src = open(os.path.join(d, proof + ".tla")).read()
            assert flip[0] in src
            open(os.path.join(d, "AsFound.tla"), "w").write(src.replace(flip[0], flip[1]).replace("MODULE " + proof, "MODULE AsFound"))
        t0 = time.time()
        try:
            p = subprocess.run(["tlapm", "--threads", "4", name + ".tla"], cwd=d, stdout=subprocess.PIPE, stderr=subprocess.STDOUT, text=True, timeout=900)
        except subprocess.TimeoutExpired:
            raise vlib.ToolError("tlapm timed out on " + name)
        m = re.search(r"All (\d+) obligations proved", p.stdout)
        f = re.search(r"(\d+)/(\d+) obligations failed", p.stdout)
        if not m and not f:
            raise vlib.ToolError("tlapm gave no verdict on %s: %s" % (name, p.stdout[-1200:]))
        ok = bool(m)
        if ok != expect_ok:
            ctx.violation({"rule": "tlaps", "what": name}, {"module": name}, "%s: tlapm says %s" % (name, "proved" if ok else "unproved obligations"))
        out.append({"obligation": "TLAPS proof %s (%s)" % (name, "all obligations proved" if ok else "%s of %s obligations fail, as they must" % (f.group(1), f.group(2))),
                    "args": "tlapm " + name + ".tla", "outcome": "proved" if ok else "refuted", "seconds": round(time.time() - t0, 1)})
        vlib.log("tlapm: %s: %s (%.1fs)" % (name, out[-1]["outcome"], time.time() - t0))
    ctx.cov["samples"] = ctx.cov["samples"] + out
    ctx.cov["evaluations"] += len(out)
    ctx.cov["distinct_nontrivial"] += len(out)
    ctx.cov["tlaps"] = [o["obligation"] for o in out]


def run(ctx):
    obligations(ctx, "DepthBudget", RUNS)
    tlaps(ctx, "DepthBudget", "DepthBudgetProof", ("ASSUME Refunded == Refund = TRUE", "ASSUME Refunded == Refund = FALSE"))
    ctx.cov["rule"] = "proof obligations discharged by Apalache (symbolic, all limits 1..255, unbounded nesting)"


def replay(ctx, case):
    run(ctx)
