"""C16 - stack use does not grow with the number of list elements."""
import os

import vlib
from props import common


def run(ctx):
    q = ctx.quick()
    ctx.level = "exploration"
    res = vlib.run_tlc(os.path.join(vlib.SPEC, "mc", "C16.tla"), workdir=ctx.path("tlc"), workers=8)
    vlib.require_clean_tlc(res, "C16 stack model (intended recursion structure)")
    ctx.add_tlc(res)
    res2 = vlib.run_tlc(os.path.join(vlib.SPEC, "mc", "C16.tla"), cfg=os.path.join(vlib.SPEC, "mc", "C16AsFound.cfg"),
                        workdir=ctx.path("tlc"), workers=2)
    if "StackIndependentOfLength" not in res2.violated:
        raise vlib.ToolError("C16 stack model: the cdr-recursive variant is not rejected (vacuous invariant)")
    n = 1000000 if q else 4000000
    cells = [dict(c, n=n) for c in res.replay]
    cells.sort(key=lambda c: (c["op"], c["shape"], c["builder"]))
    total = {"cells": 0, "events": 0}
    samples = []
    for profile in ("release", "debug"):
        cf = ctx.path("cells-%s.ndjson" % profile)
        # unoptimised code is an order of magnitude slower; 400 000 elements are still far beyond what recursion survives on 2 MiB
        vlib.write_ndjson(cf, [dict(c, profile=profile, n=(c["n"] if profile == "release" or not q else 400000)) for c in cells])
        out, tracep = common.harness_json(ctx, "c16", {"cells_file": cf, "profile": profile}, name="c16-" + profile, profile=profile,
                                          timeout=7200, env_extra={"VH_SCRATCH": ctx.work})
        for b in out["bad"]:
            cell = dict(b["cell"], profile=profile)
            ctx.violation({"rule": "stack", "op": cell["op"], "shape": cell["shape"], "builder": cell["builder"], "profile": profile}, cell,
                          "[%s build] %s" % (profile, b["why"]))
        tres = common.validate_trace(ctx, "C16Trace", tracep)
        events = vlib.read_ndjson(tracep)
        for lno, what in common.bad_lines(tres):
            if "matrix not covered" in what:
                raise vlib.ToolError("C16: the operation x shape x builder matrix was not covered")
            e = events[lno - 1] if lno - 1 < len(events) else {}
            ctx.violation({"rule": "stack", "op": e.get("op"), "shape": e.get("shape"), "builder": e.get("builder"), "profile": profile},
                          dict(e, profile=profile), "C16Trace: %s" % what)
        total["cells"] += out["cells"]
        total["events"] += len(events)
        samples += events[:2]
    ctx.cov["evaluations"] = total["cells"]
    ctx.cov["distinct_nontrivial"] = len(cells)
    ctx.cov["traces_validated_against_impl"] = total["events"]
    ctx.cov["rule"] = ("the operation x shape x builder matrix of spec/StackModel.tla (24 list-walking operations: parse value/datum, print, "
                       "Display, the vector conversions, the three iterators, positional and association indexing, is_list / is_dotted_list, "
                       "clone, ==, drop, Datum clone / == / drop / span walk, Serde to_value / from_value; proper and dotted; built by the "
                       "parser, the constructors and Serde): each cell runs in a child process inside a thread with a fixed 2 MiB stack on "
                       "a list of %d elements, in the release and in the debug profile; distinct = cells" % n)
    ctx.cov["list_length"] = n
    ctx.cov["samples"] = samples
    ctx.assumptions += ["stack exhaustion is observed as the death of the child process; the TLA+ model only states the intended recursion "
                        "structure and generates the matrix (DESIGN.md sections 6 and 9)"]


def replay(ctx, case):
    profile = case.get("profile", "release")
    out, tracep = common.harness_json(ctx, "c16-replay", case, profile=profile, env_extra={"VH_SCRATCH": ctx.work})
    for b in out["bad"]:
        ctx.violation({"rule": "stack", "op": case.get("op"), "profile": profile}, case, b["why"])
    ctx.cov["evaluations"] = 1
