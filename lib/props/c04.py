"""C04 - Serde round trip: Rust data -> S-expression -> Rust data is the identity."""
import vlib
from props import common, serdes


def run(ctx):
    q = ctx.quick()
    cases, n = serdes.model(ctx, "rt", 1)
    out, tres, events = serdes.run_harness(ctx, cases, 60 if q else 40000, 1, "serde-rt")
    serdes.report(ctx, out, tres, events, {"roundtrip"}, {"ser"})
    ser = [e for e in events if e["ev"] == "ser"]
    ctx.cov["evaluations"] = out["rt"] + out["random"]
    ctx.cov["distinct_nontrivial"] = out["rt"] + out["random"]
    ctx.cov["traces_validated_against_impl"] = len(ser)
    ctx.cov["rule"] = ("a family of %d concrete types covering every Serde data-model category and the shape-ambiguous nestings (generated "
                       "from gen/types.py into Rust and TLA+); TLC enumerates small inhabitants of every type (boundary integers of each "
                       "width, strings with non-ASCII / quote / backslash, empty and short collections, every enum variant, trees of depth 2), "
                       "checks RefDe(RefSer(x)) = x and injectivity of RefSer; each inhabitant and %d seeded random inhabitants per type "
                       "(arbitrary Unicode strings, collections up to 60 elements, all integers, random doubles) go through to_value / "
                       "from_value and through to_string / to_vec / to_writer and from_str / from_slice / from_reader; "
                       "distinct = inhabitants tried" % (out["types"], out["random"] // max(1, out["types"])))
    ctx.cov["tlc_inhabitants"] = n["rt"]
    ctx.cov["types"] = out["types"]
    ctx.cov["samples"] = [{"type_index": e["ti"], "x": e["x"], "to_value": e["v"]} for e in ser[:: max(1, len(ser) // 4)]][:4]
    ctx.assumptions += ["externally tagged default derive only (serde attributes such as untagged / flatten are not data-model categories)",
                        "floats on the text path are compared to the accuracy of C05"]


def replay(ctx, case):
    out, tracep = common.harness_json(ctx, "serde-replay", {k: v for k, v in case.items() if v is not None})
    tres = common.validate_trace_sharded(ctx, "SerdeTrace", tracep, shards=1)
    serdes.report(ctx, out, tres, vlib.read_ndjson(tracep), {"roundtrip"}, {"ser"})
    ctx.cov["evaluations"] = 1
