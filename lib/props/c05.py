"""C05 - numeric literals denote their exact mathematical value."""
import os

import vlib
from props import common


def _report(ctx, out, tracep, build):
    for b in out["bad"]:
        if b["rule"] == "literal":
            ctx.violation({"rule": "literal", "text": b["text"], "build": build}, {"text": b["text"], "den": b["den"], "cls": b["cls"], "build": build},
                          "[%s] literal %r: %s" % (build, vlib.b2s(b["text"])[:80], b["why"][:300]))
        else:
            ctx.violation({"rule": "print", "n": b["n"], "build": build}, {"n": b["n"], "build": build}, "[%s] %s" % (build, b["why"][:300]))
    tres = common.validate_trace_sharded(ctx, "C05Trace", tracep, shards=8)
    events = vlib.read_ndjson(tracep)
    for lno, what in tres.bad:
        e = events[lno - 1]
        case = {"text": e["text"], "build": build} if e["ev"] == "lit" else {"n": e["n"], "build": build}
        ctx.violation({"rule": "trace", "why": what, "text": e["text"], "build": build}, case,
                      "[%s] C05Trace: %s on %r -> %s (accuracy %s)" % (build, what, vlib.b2s(e["text"])[:80], str(e.get("res", e.get("n")))[:200], e.get("ach")))
    return tres, events


def run(ctx):
    q = ctx.quick()
    cfg = ctx.path("C05.cfg")
    with open(cfg, "w") as f:
        f.write("SPECIFICATION Spec\nCONSTANT Deep = %s\nINVARIANTS TotalAndPartitioned\n" % ("FALSE" if q else "TRUE"))
    res = vlib.run_tlc(os.path.join(vlib.SPEC, "mc", "C05.tla"), cfg=cfg, workdir=ctx.path("tlc"), workers=12, timeout=7200)
    vlib.require_clean_tlc(res, "C05 literal grammar on the specification")
    ctx.add_tlc(res)
    cases = ctx.path("cases.ndjson")
    vlib.write_ndjson(cases, res.replay)
    total = {"evaluations": 0, "distinct": 0, "events": 0}
    samples = []
    for build, pkg in (("fast-float-parsing", "vh"), ("no-fast-float-parsing", "vhn")):
        out, tracep = common.harness_json(ctx, "c05", {"cases_file": cases, "seed": ctx.seed, "random": 2400 if q else 300000},
                                          name="c05-" + pkg, package=pkg)
        if out["fast_float"] != (pkg == "vh"):
            raise vlib.ToolError("harness %s was built with the wrong float feature" % pkg)
        tres, events = _report(ctx, out, tracep, build)
        total["evaluations"] += out["evaluations"]
        total["distinct"] = max(total["distinct"], out["distinct"])
        total["events"] += tres.events
        samples += [{"build": build, "literal": vlib.b2s(e["text"]), "result": e.get("res", e.get("n")), "accuracy": e.get("ach")}
                    for e in events[:: max(1, len(events) // 3)]][:3]
    ctx.cov["evaluations"] = total["evaluations"]
    ctx.cov["distinct_nontrivial"] = total["distinct"]
    ctx.cov["traces_validated_against_impl"] = total["events"]
    ctx.cov["rule"] = ("literals: the TLC-enumerated grammar of spec/mc/C05.tla (every 64-bit boundary 2^k, 2^k+-1, powers of ten and long "
                       "digit strings in radix 2/8/10/16, both signs, leading zeros; decimal forms with fraction and/or exponent up to the "
                       "overflow and underflow edges) plus seeded random digit strings up to 400 digits, random decimal literals built from "
                       "components, and all printed forms of random doubles / u64 / i64; every literal is parsed in both feature "
                       "configurations; integers compared exactly, floats classified exact / within 2^-50 / bad with big-integer "
                       "arithmetic and std's correctly rounded parser; TLC recomputes the denotation and required class from the text "
                       "and judges every event; distinct = distinct literal texts")
    ctx.cov["tlc_literals"] = len(res.replay)
    ctx.cov["samples"] = samples
    ctx.assumptions += ["the accuracy measurement (harness/vh/src/big.rs, str::parse::<f64> as the correctly rounded reference) is trusted; "
                        "TLC decides the required class (NumLit!Class) and that integer results are exact",
                        "subnormal results: absolute error of one subnormal ulp instead of the unattainable relative bound (DESIGN.md C05)"]


def replay(ctx, case):
    pkg = "vhn" if case.get("build") == "no-fast-float-parsing" else "vh"
    c = dict(case)
    out, tracep = common.harness_json(ctx, "c05-replay", c, package=pkg)
    _report(ctx, out, tracep, case.get("build", "fast-float-parsing"))
    ctx.cov["evaluations"] = 1
