#!/usr/bin/env python3
"""Generates spec/MacroCorpus.tla: the lexeme pools from which spec/mc/C09.tla builds sexp! programs.

Lexemes are the records of spec/MacroModel.tla.  Readable notation here:
  ("int", "-7")  ("flt", "1.5")  ("str", "a b")  ("chr", "a")  ("true",) ("false",) ("nil",)
  ("id", "foo")  ("qsym", "kebab-symbol")  ("psym", "<=")  ("kw", "octo|colon|quoted", "name")
  ("unq", "n|s|e|v")  ("list", [..], tail-or-None)  ("vec", [..])
"""
import os

HERE = os.path.dirname(os.path.abspath(__file__))


def cps(s):
    return "<<" + ", ".join(str(ord(c)) for c in s) + ">>"


def tla(x):
    k = x[0]
    if k == "int":
        t = x[1]
        neg = t.startswith("-")
        ds = t.lstrip("-")
        return '[t |-> "int", neg |-> %s, d |-> <<%s>>]' % ("TRUE" if neg else "FALSE", ", ".join(ds))
    if k == "flt":
        t = x[1]
        neg = t.startswith("-")
        a, b = t.lstrip("-").split(".")
        return '[t |-> "flt", neg |-> %s, d |-> <<%s>>, e |-> %d]' % ("TRUE" if neg else "FALSE", ", ".join(a + b), -len(b))
    if k == "fle":
        t = x[1]
        neg = t.startswith("-")
        m, ex = t.lstrip("-").lower().split("e")
        a, b = (m.split(".") + [""])[:2]
        return '[t |-> "fle", neg |-> %s, d |-> <<%s>>, e |-> %d, xneg |-> %s, x |-> <<%s>>]' % (
            "TRUE" if neg else "FALSE", ", ".join(a + b), -len(b), "TRUE" if ex.startswith("-") else "FALSE", ", ".join(ex.lstrip("-")))
    if k == "str":
        return '[t |-> "str", s |-> %s]' % cps(x[1])
    if k == "chr":
        return '[t |-> "chr", c |-> %d]' % ord(x[1])
    if k in ("true", "false", "nil"):
        return '[t |-> "%s"]' % k
    if k in ("id", "qsym", "psym"):
        return '[t |-> "%s", s |-> %s]' % (k, cps(x[1]))
    if k == "kw":
        return '[t |-> "kw", style |-> "%s", s |-> %s]' % (x[1], cps(x[2]))
    if k == "unq":
        return '[t |-> "unq", w |-> "%s"]' % x[1]
    if k == "list":
        tail = '[t |-> "none"]' if x[2] is None else tla(x[2])
        return '[t |-> "list", es |-> <<%s>>, tail |-> %s]' % (", ".join(tla(e) for e in x[1]), tail)
    if k == "vec":
        return '[t |-> "vec", es |-> <<%s>>]' % ", ".join(tla(e) for e in x[1])
    raise ValueError(x)


def I(t): return ("int", t)
def F(t): return ("flt", t)
def FE(t): return ("fle", t)
def S(t): return ("str", t)
def C(t): return ("chr", t)
def Id(t): return ("id", t)
def Q(t): return ("qsym", t)
def P(t): return ("psym", t)
def K(st, t): return ("kw", st, t)
def U(w): return ("unq", w)
def L(*es, tail=None): return ("list", list(es), tail)
def V(*es): return ("vec", list(es))


INTS = [I(t) for t in ["0", "7", "42", "-7", "-0", "2147483647", "-2147483647", "007"]]
FLTS = [F(t) for t in ["1.5", "-1.5", "0.25", "100.0", "-0.0", "3.14159", "0.1", "12345.678"]]
FLES = [FE(t) for t in ["1e3", "-1e3", "2.5e-3", "-2.5e-3", "1e16", "-1e16", "6.02e23", "1e0", "-0e0", "12e-1"]]
STRS = [S(t) for t in ["", "a b", 'q"b\\c\nd', "λx", "(not . a list)", ";#|"]]
CHRS = [C(t) for t in ["a", "Z", "λ", "(", "'", "0", ";", '"', "#", "\\"]]
CONSTS = [("true",), ("false",), ("nil",)]
IDS = [Id(t) for t in ["foo", "foo_bar", "x1", "_", "nil", "t", "if", "λx", "Foo", "null", "e1"]]
QSYMS = [Q(t) for t in ["kebab-symbol", "set!", "a->b", "foo", "λ-calc", "list->vector", "x.y"]]
PSYMS = [P(t) for t in ["+", "-", "*", "/", "<", ">", "=", "!", "?", "$", "%", "&", "^", "~", ":",
                        "...", "<=", ">=", "->", "=>", "==", "!=", "&&", "::", ".++", "+-", "<=>", "--", "-:", ":-",
                        "!$%&*+-./:<=>?@^~", "+.+", "..."]]
KWS = [K("octo", "foo"), K("octo", "foo_bar"), K("octo", "+"), K("octo", "<="), K("octo", "nil"),
       K("colon", "foo"), K("colon", "foo_bar"), K("colon", "t"),
       K("quoted", "kebab-keyword"), K("quoted", "foo"), K("quoted", "list->kw")]
UNQS = [U(w) for w in "nsevbcfoypwui"]


def dedup(xs):
    out = []
    for x in xs:
        if x not in out:
            out.append(x)
    return out


ATOMS = dedup(INTS + FLTS + FLES + STRS + CHRS + CONSTS + IDS + QSYMS + PSYMS + KWS + UNQS)

# one atom of every form, punctuation symbols of every spacing pattern: the elements of the exhaustive composites
SMALL = [I("7"), I("-7"), F("1.5"), FE("-2.5e-3"), S("a b"), C("a"), ("true",), Id("foo"), Q("kebab-symbol"),
         P("-"), P("..."), P("<="), P(":"), K("octo", "foo"), K("colon", "foo"), U("n"), U("e")]
# the subset used by the quick tier
SMALLQ = [I("7"), FE("-1e3"), S("a b"), Id("foo"), P("-"), P("..."), P("<="), K("colon", "foo"), U("n")]

# what a pair dot can be followed by
TAILS = [I("3"), I("-3"), FE("-1e16"), Id("three"), P("..."), P("-"), P("<="), S("s"), K("octo", "k"), K("colon", "k"), U("n"), U("e"), U("v"), U("y"), U("p"), U("w"), U("c"),
         L(), L(I("2"), I("3")), L(I("2"), tail=I("3")), L(I("2"), tail=L(I("3"), tail=L())), L(Id("x"), tail=U("n")),
         L(P("..."), tail=P("...")), V(I("1")), V(), ("nil",), C("a")]

# neighbours for the adjacency sweep: every atom next to each of these, in both orders
PROBES = [P("-"), P(":"), P("..."), I("1"), Id("foo"), F("2.5"), FE("1e3"), S("s"), P("+"), C("c"), U("n")]

# composites nested inside other composites
COMPOSITES = [L(), L(I("1")), L(P("+"), I("1"), I("2")), L(I("1"), tail=I("2")), L(Id("a"), tail=L(Id("b"), tail=L())),
              L(P("..."), P("...")), L(P("-"), tail=P("-")), V(), V(I("1"), S("two")), V(P("..."), P("<=")),
              L(L(Id("answer"), tail=U("e"))), L(U("n"), tail=U("v")), V(L(I("1"), tail=V(I("2")))),
              L(K("colon", "k"), I("-1"), K("octo", "k"), F("-2.5"), FE("-2.5e-3"))]


def main():
    out = ["----------------------------- MODULE MacroCorpus -----------------------------",
           "\\* Generated by gen/macro_corpus.py - do not edit.",
           "EXTENDS Naturals, Integers, Sequences", ""]
    for name, xs in [("MacroAtoms", ATOMS), ("MacroSmall", SMALL), ("MacroSmallQ", SMALLQ), ("MacroTails", TAILS),
                     ("MacroProbes", PROBES), ("MacroComposites", COMPOSITES)]:
        out.append("%s == <<" % name)
        out.append(",\n".join("  " + tla(x) for x in xs))
        out.append(">>")
        out.append("")
    out.append("=============================================================================")
    with open(os.path.join(HERE, "..", "spec", "MacroCorpus.tla"), "w") as f:
        f.write("\n".join(out) + "\n")
    print("atoms", len(ATOMS), "small", len(SMALL), "tails", len(TAILS), "composites", len(COMPOSITES))


if __name__ == "__main__":
    main()
