#!/usr/bin/env python3
"""Single source of truth for the Serde type family (C04, C14, C18; DESIGN.md Appendix D).

Emits  harness/vh/src/types_gen.rs  (derive'd Rust types, conversions to/from the abstract value
                                     representation, and the family dispatch table)
and    spec/SerdeTypes.tla          (the same types as descriptors for spec/SerdeModel.tla).
Run after editing:  python3 gen/types.py
"""
import os

ROOT = os.path.dirname(os.path.dirname(os.path.abspath(__file__)))

# ---------------------------------------------------------------- type expressions
INTS = ["i8", "i16", "i32", "i64", "u8", "u16", "u32", "u64"]


class T:
    def __init__(self, c, **kw):
        self.c = c
        self.__dict__.update(kw)


def prim(c):
    return T(c)


BOOL, F32, F64, CHAR, STR, BYTES, UNIT = (prim(c) for c in ["bool", "f32", "f64", "char", "str", "bytes", "unit"])


def Int(w):
    return T("int", w=w)


def Opt(t):
    return T("opt", t=t)


def Vec(t):
    return T("seq", t=t)


def Set(t):
    return T("set", t=t)


def Tup(*ts):
    return T("tuple", ts=list(ts))


def Arr(t, n):
    return T("tuple", ts=[t] * n, arr=n)


def Map(k, v):
    return T("map", k=k, v=v)


def Ref(name):
    return T("ref", name=name)


def Boxed(t):
    return T("box", t=t)


# ---------------------------------------------------------------- named types
# kind: ustruct | newtype | tstruct | struct | enum
NAMED = {
    "Unit": ("ustruct", None),
    "N": ("newtype", Int("i32")),
    "NV": ("newtype", Vec(Int("u8"))),
    "TS": ("tstruct", [Int("u16"), CHAR]),
    "P": ("struct", [("a", Int("u8")), ("b", STR)]),
    "Q": ("struct", [("u", UNIT), ("o", Opt(Int("i8"))), ("n", Ref("N"))]),
    "Empty": ("struct", []),
    "E1": ("enum", [("A", "unit", None), ("B", "unit", None)]),
    "E2": ("enum", [("U", "unit", None), ("N", "newtype", Int("u32")), ("NO", "newtype", Opt(Int("u32"))),
                    ("NS", "newtype", Vec(Int("u8"))), ("NE", "newtype", Ref("E1")), ("T", "tuple", [Int("u8"), Int("u8")]),
                    ("T0", "tuple", []), ("S", "struct", [("x", BOOL), ("y", Int("u32"))]), ("S0", "struct", [])]),
    "R": ("struct", [("m", Map(STR, Ref("E1"))), ("e", Ref("E2")), ("v", Vec(Ref("P")))]),
    # newtype variants around the shapes that serialize as vectors or have no content, and a map with sequence keys
    "E3": ("enum", [("NT", "newtype", Tup(Int("u8"), Int("u8"))), ("NA", "newtype", Arr(Int("u8"), 3)), ("NTS", "newtype", Ref("TS")),
                    ("NU", "newtype", Ref("Unit")), ("NM", "newtype", Map(STR, Int("u8"))), ("NP", "newtype", Ref("P"))]),
    "Tree": ("enum", [("Leaf", "newtype", Int("i8")), ("Node", "tuple", [Boxed(Ref("Tree")), Boxed(Ref("Tree"))])]),
}

# ---------------------------------------------------------------- the family (top-level types that are exercised)
FAMILY = (
    [("bool", BOOL)] + [(w, Int(w)) for w in INTS] + [("f32", F32), ("f64", F64), ("char", CHAR), ("String", STR), ("ByteBuf", BYTES), ("unit", UNIT)]
    + [(n, Ref(n)) for n in ["Unit", "N", "NV", "TS"]]
    + [("Option<u8>", Opt(Int("u8"))), ("Option<Option<i32>>", Opt(Opt(Int("i32")))), ("Option<()>", Opt(UNIT)),
       ("Option<Vec<u8>>", Opt(Vec(Int("u8")))), ("Option<Unit>", Opt(Ref("Unit"))), ("Option<E2>", Opt(Ref("E2")))]
    + [("Vec<String>", Vec(STR)), ("Vec<Option<i16>>", Vec(Opt(Int("i16")))), ("Vec<Vec<u8>>", Vec(Vec(Int("u8")))),
       ("BTreeSet<u32>", Set(Int("u32"))), ("[u8; 3]", Arr(Int("u8"), 3)), ("Vec<E2>", Vec(Ref("E2")))]
    + [("(u8,)", Tup(Int("u8"))), ("(i64, String, bool)", Tup(Int("i64"), STR, BOOL)), ("(E1, Option<E2>)", Tup(Ref("E1"), Opt(Ref("E2")))),
       ("((), (u8,))", Tup(UNIT, Tup(Int("u8"))))]
    + [("BTreeMap<String, u32>", Map(STR, Int("u32"))), ("BTreeMap<i64, bool>", Map(Int("i64"), BOOL)),
       ("BTreeMap<char, Option<u8>>", Map(CHAR, Opt(Int("u8")))), ("BTreeMap<String, E2>", Map(STR, Ref("E2")))]
    + [(n, Ref(n)) for n in ["P", "Q", "Empty", "R", "E1", "E2", "Tree"]]
    # appended later (indices above are referred to by the harness)
    + [("E3", Ref("E3")), ("BTreeMap<(u8, u8), u8>", Map(Tup(Int("u8"), Int("u8")), Int("u8"))),
       ("Vec<(String, u32)>", Vec(Tup(STR, Int("u32"))))]
)


def has_ref(t):
    """does the type expression mention a named type (possible recursion)?"""
    c = t.c
    if c == "ref":
        return True
    if c in ("opt", "seq", "set", "box"):
        return has_ref(t.t)
    if c == "tuple":
        return any(has_ref(x) for x in t.ts)
    if c == "map":
        return has_ref(t.k) or has_ref(t.v)
    return False


# ---------------------------------------------------------------- Rust
def rust_ty(t):
    c = t.c
    if c == "bool":
        return "bool"
    if c == "int":
        return t.w
    if c in ("f32", "f64", "char"):
        return c
    if c == "str":
        return "String"
    if c == "bytes":
        return "serde_bytes::ByteBuf"
    if c == "unit":
        return "()"
    if c == "opt":
        return "Option<%s>" % rust_ty(t.t)
    if c == "seq":
        return "Vec<%s>" % rust_ty(t.t)
    if c == "set":
        return "BTreeSet<%s>" % rust_ty(t.t)
    if c == "tuple":
        if getattr(t, "arr", None):
            return "[%s; %d]" % (rust_ty(t.ts[0]), t.arr)
        return "(%s)" % "".join(rust_ty(x) + ", " for x in t.ts) if t.ts else "()"
    if c == "map":
        return "BTreeMap<%s, %s>" % (rust_ty(t.k), rust_ty(t.v))
    if c == "ref":
        return t.name
    if c == "box":
        return "Box<%s>" % rust_ty(t.t)
    raise ValueError(c)


def gen_rust():
    o = []
    o.append("//! GENERATED by gen/types.py - the Serde type family. Do not edit.\n")
    o.append("#![allow(dead_code, clippy::all)]\n")
    o.append("use crate::serde_abs::Abs;\nuse rand::rngs::StdRng;\nuse rand::Rng;\nuse serde_derive::{Deserialize, Serialize};\nuse serde_json::{json, Value as J};\nuse std::collections::{BTreeMap, BTreeSet};\n")
    for name, (kind, body) in NAMED.items():
        o.append("#[derive(Serialize, Deserialize, PartialEq, Debug, Clone)]")
        if kind == "ustruct":
            o.append("pub struct %s;" % name)
            o.append("impl Abs for %s {\n    fn to_abs(&self) -> J { json!({\"a\":\"unit\"}) }\n    fn from_abs(_j: &J) -> Self { %s }\n    fn arb(_rng: &mut StdRng, _d: u32) -> Self { %s }\n}\n" % (name, name, name))
        elif kind == "newtype":
            o.append("pub struct %s(pub %s);" % (name, rust_ty(body)))
            o.append("impl Abs for %s {\n    fn to_abs(&self) -> J { json!({\"a\":\"nt\",\"x\":self.0.to_abs()}) }\n    fn from_abs(j: &J) -> Self { %s(Abs::from_abs(&j[\"x\"])) }\n    fn arb(rng: &mut StdRng, d: u32) -> Self { %s(Abs::arb(rng, d)) }\n}\n" % (name, name, name))
        elif kind == "tstruct":
            o.append("pub struct %s(%s);" % (name, ", ".join("pub " + rust_ty(x) for x in body)))
            xs = ", ".join("self.%d.to_abs()" % i for i in range(len(body)))
            fr = ", ".join("Abs::from_abs(&j[\"xs\"][%d])" % i for i in range(len(body)))
            ar = ", ".join("Abs::arb(rng, d)" for _ in body)
            o.append("impl Abs for %s {\n    fn to_abs(&self) -> J { json!({\"a\":\"seq\",\"xs\":[%s]}) }\n    fn from_abs(j: &J) -> Self { %s(%s) }\n    fn arb(rng: &mut StdRng, d: u32) -> Self { %s(%s) }\n}\n" % (name, xs, name, fr, name, ar))
        elif kind == "struct":
            o.append("pub struct %s {%s}" % (name, "".join(" pub %s: %s," % (f, rust_ty(t)) for f, t in body)))
            xs = ", ".join("self.%s.to_abs()" % f for f, _ in body)
            fr = ", ".join("%s: Abs::from_abs(&j[\"fs\"][%d])" % (f, i) for i, (f, _) in enumerate(body))
            ar = ", ".join("%s: Abs::arb(rng, d)" % f for f, _ in body)
            o.append("impl Abs for %s {\n    fn to_abs(&self) -> J { json!({\"a\":\"rec\",\"fs\":[%s]}) }\n    fn from_abs(j: &J) -> Self { let _ = j; %s { %s } }\n    fn arb(rng: &mut StdRng, d: u32) -> Self { let _ = (&rng, d); %s { %s } }\n}\n" % (name, xs, name, fr, name, ar))
        elif kind == "enum":
            vs = []
            to_arms = []
            from_arms = []
            arb_arms = []
            for i, (vn, vk, pl) in enumerate(body, start=1):
                if vk == "unit":
                    vs.append("    %s," % vn)
                    to_arms.append("            %s::%s => json!({\"a\":\"var\",\"i\":%d,\"x\":{\"a\":\"unit\"}})," % (name, vn, i))
                    from_arms.append("            %d => %s::%s," % (i, name, vn))
                    arb_arms.append("            %d => %s::%s," % (i, name, vn))
                elif vk == "newtype":
                    vs.append("    %s(%s)," % (vn, rust_ty(pl)))
                    to_arms.append("            %s::%s(x) => json!({\"a\":\"var\",\"i\":%d,\"x\":x.to_abs()})," % (name, vn, i))
                    from_arms.append("            %d => %s::%s(Abs::from_abs(&j[\"x\"]))," % (i, name, vn))
                    arb_arms.append("            %d if d > 0 || %s => %s::%s(Abs::arb(rng, d.saturating_sub(1)))," % (i, "false" if has_ref(pl) else "true", name, vn))
                elif vk == "tuple":
                    vs.append("    %s(%s)," % (vn, ", ".join(rust_ty(x) for x in pl)))
                    binds = ", ".join("x%d" % k for k in range(len(pl)))
                    xs = ", ".join("x%d.to_abs()" % k for k in range(len(pl)))
                    fr = ", ".join("Abs::from_abs(&j[\"x\"][\"xs\"][%d])" % k for k in range(len(pl)))
                    to_arms.append("            %s::%s(%s) => json!({\"a\":\"var\",\"i\":%d,\"x\":{\"a\":\"seq\",\"xs\":[%s]}})," % (name, vn, binds, i, xs))
                    from_arms.append("            %d => %s::%s(%s)," % (i, name, vn, fr))
                    arb_arms.append("            %d if d > 0 || %s => %s::%s(%s)," % (i, "true" if not any(has_ref(x) for x in pl) else "false", name, vn, ", ".join("Abs::arb(rng, d.saturating_sub(1))" for _ in pl)))
                else:
                    vs.append("    %s {%s }," % (vn, "".join(" %s: %s," % (f, rust_ty(t)) for f, t in pl)))
                    binds = ", ".join(f for f, _ in pl)
                    xs = ", ".join("%s.to_abs()" % f for f, _ in pl)
                    fr = ", ".join("%s: Abs::from_abs(&j[\"x\"][\"fs\"][%d])" % (f, k) for k, (f, _) in enumerate(pl))
                    to_arms.append("            %s::%s { %s } => json!({\"a\":\"var\",\"i\":%d,\"x\":{\"a\":\"rec\",\"fs\":[%s]}})," % (name, vn, binds, i, xs))
                    from_arms.append("            %d => %s::%s { %s }," % (i, name, vn, fr))
                    arb_arms.append("            %d => %s::%s { %s }," % (i, name, vn, ", ".join("%s: Abs::arb(rng, d.saturating_sub(1))" % f for f, _ in pl)))
            o.append("pub enum %s {\n%s\n}" % (name, "\n".join(vs)))
            o.append("impl Abs for %s {\n    fn to_abs(&self) -> J {\n        match self {\n%s\n        }\n    }\n    fn from_abs(j: &J) -> Self {\n        match j[\"i\"].as_u64().unwrap() {\n%s\n            x => panic!(\"variant index {}\", x),\n        }\n    }\n    fn arb(rng: &mut StdRng, d: u32) -> Self {\n        loop {\n            return match rng.gen_range(1..=%d) {\n%s\n                _ => continue,\n            };\n        }\n    }\n}\n" % (name, "\n".join(to_arms), "\n".join(from_arms), len(body), "\n".join("    " + a for a in arb_arms)))
    # dispatch
    o.append("/// Names of the family, in index order.")
    o.append("pub const FAMILY: &[&str] = &[%s];\n" % ", ".join('"%s"' % n for n, _ in FAMILY))
    o.append("/// Calls `$f::<T>($($args),*)` for the family member with index `$idx`.")
    o.append("#[macro_export]\nmacro_rules! with_family_type {\n    ($idx:expr, $f:ident, $($args:expr),*) => {\n        match $idx {")
    for i, (n, t) in enumerate(FAMILY):
        o.append("            %d => $f::<%s>($($args),*)," % (i, rust_ty(t)))
    o.append("            x => panic!(\"family index {}\", x),\n        }\n    };\n}\n")
    return "\n".join(o)


# ---------------------------------------------------------------- TLA+
def tla_str(s):
    return "<<" + ", ".join(str(ord(ch)) for ch in s) + ">>"


def tla_ty(t):
    c = t.c
    if c in ("bool", "f32", "f64", "char", "str", "bytes", "unit"):
        return '[c |-> "%s"]' % c
    if c == "int":
        return '[c |-> "int", w |-> "%s"]' % t.w
    if c in ("opt", "seq", "set"):
        return '[c |-> "%s", t |-> %s]' % (c, tla_ty(t.t))
    if c == "tuple":
        return '[c |-> "tuple", ts |-> <<%s>>]' % ", ".join(tla_ty(x) for x in t.ts)
    if c == "map":
        return '[c |-> "map", kt |-> %s, vt |-> %s]' % (tla_ty(t.k), tla_ty(t.v))
    if c == "ref":
        return '[c |-> "ref", name |-> "%s"]' % t.name
    if c == "box":
        return tla_ty(t.t)
    raise ValueError(c)


def tla_fields(fs):
    return "<<%s>>" % ", ".join('[name |-> %s, t |-> %s]' % (tla_str(f), tla_ty(t)) for f, t in fs)


def gen_tla():
    o = ["------------------------------ MODULE SerdeTypes ------------------------------",
         "(***************************************************************************)",
         "(* GENERATED by gen/types.py - the Serde type family of C04 / C14 / C18 as *)",
         "(* descriptors for SerdeModel.tla.  Names are code point sequences.        *)",
         "(***************************************************************************)",
         "EXTENDS Naturals, Sequences", ""]
    o.append("NamedTypes == {%s}" % ", ".join('"%s"' % n for n in NAMED))
    o.append("TypeDef(name) ==")
    first = True
    for name, (kind, body) in NAMED.items():
        lead = "  CASE" if first else "    []"
        first = False
        if kind == "ustruct":
            d = '[c |-> "ustruct"]'
        elif kind == "newtype":
            d = '[c |-> "newtype", t |-> %s]' % tla_ty(body)
        elif kind == "tstruct":
            d = '[c |-> "tstruct", ts |-> <<%s>>]' % ", ".join(tla_ty(x) for x in body)
        elif kind == "struct":
            d = '[c |-> "struct", fs |-> %s]' % tla_fields(body)
        else:
            vs = []
            for vn, vk, pl in body:
                if vk == "unit":
                    vs.append('[name |-> %s, kind |-> "unit"]' % tla_str(vn))
                elif vk == "newtype":
                    vs.append('[name |-> %s, kind |-> "newtype", t |-> %s]' % (tla_str(vn), tla_ty(pl)))
                elif vk == "tuple":
                    vs.append('[name |-> %s, kind |-> "tuple", ts |-> <<%s>>]' % (tla_str(vn), ", ".join(tla_ty(x) for x in pl)))
                else:
                    vs.append('[name |-> %s, kind |-> "struct", fs |-> %s]' % (tla_str(vn), tla_fields(pl)))
            d = '[c |-> "enum", vs |-> <<%s>>]' % ",\n                              ".join(vs)
        o.append('%s name = "%s" -> %s' % (lead, name, d))
    o.append("")
    o.append("\\* the family: index (0-based, as in the harness) -> descriptor")
    o.append("Family == <<")
    for i, (n, t) in enumerate(FAMILY):
        o.append("  %s%s  \\* %d: %s" % (tla_ty(t), "," if i + 1 < len(FAMILY) else "", i, n))
    o.append(">>")
    o.append("=============================================================================")
    return "\n".join(o) + "\n"


def main():
    with open(os.path.join(ROOT, "harness", "vh", "src", "types_gen.rs"), "w") as f:
        f.write(gen_rust())
    with open(os.path.join(ROOT, "spec", "SerdeTypes.tla"), "w") as f:
        f.write(gen_tla())


if __name__ == "__main__":
    main()
