#!/usr/bin/env python3
"""Generates spec/Corpus.tla: the data tables (identifier corpus, character classes, string and
token corpora) used by the model-checking modules.  TLA+ has no character literals, so the tables
are written as code point / byte sequences with the spelling in a comment.  Run after editing."""
import os

ROOT = os.path.dirname(os.path.dirname(os.path.abspath(__file__)))


def cps(s):
    return "<<" + ", ".join(str(ord(c)) for c in s) + ">>"


def bs(s):
    if isinstance(s, str):
        s = s.encode("utf-8")
    return "<<" + ", ".join(str(b) for b in s) + ">>"


def cm(s):
    """comment-safe rendering"""
    r = repr(s)
    return r.replace("*)", "* )").replace("(*", "( *")


def tset(name, items, conv, doc=""):
    out = []
    if doc:
        out.append("\\* " + doc)
    out.append(name + " == {")
    for i, it in enumerate(items):
        sep = "," if i + 1 < len(items) else ""
        out.append("  %s%s  \\* %s" % (conv(it), sep, cm(it)))
    out.append("}")
    return "\n".join(out) + "\n"


def tseq(name, items, conv, doc=""):
    out = []
    if doc:
        out.append("\\* " + doc)
    out.append(name + " == <<")
    for i, it in enumerate(items):
        sep = "," if i + 1 < len(items) else ""
        out.append("  %s%s  \\* %d: %s" % (conv(it), sep, i + 1, cm(it)))
    out.append(">>")
    return "\n".join(out) + "\n"


# plain identifiers of the default (Scheme) dialect: R7RS initial/subsequent alphabet, peculiar identifiers,
# Unicode-alphabetic initials
IDENTS = ["a", "x", "foo-bar", "list->vector", "a.b", "a1", "!", "$?:!", "<=", "x@y", "a+", "set!", "nilx", "tt", "nil", "t",
          "e", "E1", "b1", "d", "f", "inf", "+", "-", "...", "..", ".a", "+a", "-a", "+.a", "-.-", "->", "+@", "--", "+.+",
          "λ", "λ-1", "éa", "ж:", "中→", "á", "x€", "a٣", ":a", "a:", "&b", "*", "/", "<", "=", ">", "?", "^", "_", "~", "%a",
          "A", "Z9", "q?x", "a.", "a..b", "nan", "NaN", "Infinity", "infinity", "INF", "e10", "\U0001d49c", "a\U0001f600"]
# names that stay plain under every option set of C02 (no leading '?'/digit/colon, no trailing colon, not nil/t)
PORTABLE = [i for i in IDENTS if not (i[0] in "?:" or i.endswith(":") or i in ("nil", "t") or "?" in i)]

# every printable ASCII character (each may be special in one of the character syntaxes), controls, and non-ASCII classes
CHARS = sorted(set([0, 7, 8, 9, 10, 13, 27, 127, 0x80, 0xA0, 233, 955, 0x1F600, 0xFFFD, 0xD7FF, 0xE000, 0x10FFFF] + list(range(32, 127))))
STR_ALPHABET = [0, 7, 9, 10, 27, 32, 34, 40, 92, 97, 120, 127, 233, 955, 0x1F600]

# incl. octets that need an escape in a unibyte string directly followed by ASCII octal digits
BYTEVECS = [[], [0], [255], [0, 127, 128], [1, 2, 3, 200], [1, 53], [255, 49, 55, 48], [92, 48], [34, 55, 56]]

# C08: every token class with its near misses
TOKENS = [
    # digit-initial
    "1+", "1-", "1/2", "1.5.6", "0x10", "12ab", "1e3", "1e3-abc", "1x", "55033ea4-52b5", "1.5", "42", "007", "1e21", "5e-324",
    "1E3", "1.5e+3", "1a:", "1.", "9223372036854775808", "1e400", "-1e400", "-2e308", "-1.8e308", "1.7976931348623157e308", "-1.7976931348623157e308",
    # sign-initial and dots
    "+5", "-.5", "+.a", "-", "+", "-5x", "+1/2", "-1.5e2", "-0", "+a", "-a", "->", "...", "..", ".a", ".5", "+inf.0", "-i",
    # keywords
    ":a", "a:", ":a:", "::", "#:a", "#:", ":", "#:1", "λ:", "+a:", ":λ", "#:λ", "a:b", "...:", ".a:", "<=:",
    # nil / t
    "nil", "nil:", "nilx", "NIL", "t", "tt", "T", "#nil", "#t", "#f", "#true", ":nil", "#:t", "#tx", "#f9", "#nilx", "#t#f", "#false", "#t'a",
    # names ending in a dot (a lone dot is the pair marker), over-long digit runs, wrong closing brackets
    "\u03bb.", "\u00e9..", "-..", "+..", "#%.", "a.", "18446744073709551616", "99999999999999999999999", "#(a]", "#(a b]", "'", ",@",
    # bracketed and parenthesised forms as tokens: with the contexts they stand after a pair dot, inside vectors, ...
    "[a]", "[]", "(a)", "#(a)", "[a . b]", "'[a]",
    # characters
    "?a", "?\\(", "?", "?ab", "?\\x41", "?λ", "a?b", "#\\a", "#\\space", "#\\x41", "#\\(", "#\\λ", "#\\nul", "#\\spac",
    # racket
    "#%a", "#%", "#%app",
    # plain identifiers
    "foo", "λ", "<=", "a.b", "$x", "é1", "x@y", "@a", "a#b",
    # quote shorthands
    "'a", "`a", ",a", ",@a", "'(a)", "''a", ",@(a)",
    # strings
    '"a"', '"\\x41;"', '"\\101"', '"\\u0041"', '"λ"', '"\\n"', '"\\e"',
    # radix literals and other '#' tokens
    "#xff", "#b101", "#d10", "#o17", "#x-1A", "#e1", "#b2", "#xfg", "#d1.5", "#(a)", "#u8(1 2)", "#vu8(255)", "#u8(256)", "#foo",
    # brackets
    "[a]", "[a b]", "[]", "[a . b]", "(a]", "[a)", "[[a]]",
]
# C19 / C13: well-formed single-datum texts covering every token kind; tag d = default options, e = Emacs Lisp
# options, b = both
DATUMS = [
    ("b", "#nil"), ("b", "#t"), ("b", "#f"), ("b", "42"), ("b", "-17"), ("b", "+5"), ("b", "1.5"), ("b", "-0.5"), ("b", "1e3"),
    ("b", "1.5e+3"), ("b", "2E-2"), ("b", "1e21"), ("b", "#xFF"), ("b", "#b101"), ("b", "#o17"), ("b", "#d10"), ("b", "#x-1a"),
    ("b", "18446744073709551616"), ("b", "0.000001"),
    ("b", "#\\a"), ("b", "#\\space"), ("b", "#\\x41"), ("b", "#\\λ"), ("b", "#\\nul"), ("b", "#\\delete"), ("b", "#\\x3bb"),
    ("b", "#\\("), ("b", "#\\newline"), ("b", "#\\😀"),
    ("d", '"abc"'), ("d", '"a\\nb"'), ("d", '"\\x41;"'), ("d", '"§§§""'), ("d", '"λ"'), ("d", '"a\\tb\\a"'),
    ("d", '"\\a\\b\\t\\n\\v\\f\\r\\|"'), ("d", '"\\x3bb;x"'), ("d", '"😀"'), ("b", '""'),
    ("b", "#u8(1 2)"), ("b", "#vu8(255)"), ("b", "#u8()"), ("b", "#u8(#xff 0)"),
    ("b", "'a"), ("b", "`a"), ("b", ",a"), ("b", ",@a"), ("b", "'(a b)"), ("b", "''a"),
    ("b", "foo"), ("b", "λx"), ("b", "<="), ("b", "..."), ("b", "+"), ("b", "-"), ("b", "+.a"), ("b", "-λ"), ("b", "a.b"),
    ("d", "#:key"), ("d", "#:λ"), ("e", ":key"), ("d", "nil"), ("d", "t"),
    ("b", "(a b)"), ("b", "(a . b)"), ("b", "()"), ("d", "[a b]"), ("d", "[a . b]"), ("b", "#(1 2)"), ("b", "#()"),
    ("b", "(a (b) #(c))"), ("b", '((a . b) "s" #\\x)'), ("b", "(a ;c\n b)"), ("b", "( a\t.\r\nb )"),
    ("e", "?a"), ("e", "?\\("), ("e", "?\\n"), ("e", "?\\x41"), ("e", "?\\101"), ("e", "?λ"), ("e", "?\\u0041"),
    ("e", "?\\U00000041"), ("e", "?§§"), ("e", "?\\s"), ("e", '?"'),
    ("e", '"\\x41"'), ("e", '"\\101"'), ("e", '"\\u0041"'), ("e", '"\\U0001F600"'), ("e", '"\\N{U+41}"'), ("e", '"\\e\\s\\d"'),
    ("e", '"a\\ b"'), ("e", '"λ\\u03bb"'), ("e", '"\\001\\377"'), ("e", '"\\x41\\ 1"'), ("e", "[1 2]"), ("e", "[a [b]]"),
    ("e", "(nil t)"), ("e", "1+"), ("e", "55033ea4-52b5"),
    # the last code point below a boundary followed by one more digit (prefixes end on a surrogate / the maximum)
    ("d", "#\\xDFFF0"), ("e", "?\\xDFFF0"), ("d", "#\\xD7FFF"), ("d", "#\\x10FFFF"), ("d", '"\\xDFFF0;"'), ("e", '"\\uD7FF"'),
    ("e", '"\\xD8000"'), ("e", '"\\N{U+D8000}"'), ("e", '"a\\xDFFFF\\ b"'), ("e", '"\\x10FFFF"'),
]
# decimal literals whose digits alone exceed the largest double: every prefix that ends before the (negative) exponent is
# complete is out of range - and truncated
DATUMS += [("d", "1" + "0" * 329 + "e-30"), ("d", "9" * 330 + ".5e-40")]
# every printable ASCII character as a character literal of each syntax (plain and, for Emacs Lisp, escaped)
BS = "\u00a7"       # the marker main() turns into one backslash
DATUMS += [("d", "#" + BS + (BS if c == 92 else chr(c))) for c in range(33, 127)]
DATUMS += [("e", "?" + chr(c)) for c in range(33, 127) if chr(c) not in "()[];\\"]
DATUMS += [("e", "?\\" + chr(c)) for c in range(33, 127) if chr(c) in "()[];\"'`#.,|^!$%&*+-/:<=>?@_~{}"]

# contexts: @ is replaced by the token
CONTEXTS = ["@", "(@ x)", "(x . @)", "#(x @)", "(x @)", "[x @]", "#(@)", "(- @)", "(\u03bb @)"]


def big_tokens():
    """Thorough tier: the token corpus plus 500 tokens spliced from a token alphabet with a fixed seed."""
    import random
    rng = random.Random(20261003)
    BSL = chr(92)
    pieces = ["1", "0", "9", "e", "E", "x", ".", "+", "-", "/", ":", "#", "#:", "a", "b", "nil", "t", "?", BSL, "%", "@", "'", "\u03bb", "\u00e9", "..", "#x", "#b",
              "#" + BSL, "f", "F", "_", "!", "<", "=", "#t", "#f", "inf", "nan", "|"]
    base = [t.replace(BSL + BSL, BSL) for t in TOKENS]
    seen = set(base)
    extra = []
    while len(extra) < 500:
        t = "".join(rng.choice(pieces) for _ in range(rng.choice([2, 2, 3, 3, 4, 5])))
        if t not in seen and not t.startswith(("'", "|")):
            seen.add(t)
            extra.append(t)
    return base + extra


def main():
    parts = []
    parts.append("""------------------------------- MODULE Corpus -------------------------------
(***************************************************************************)
(* GENERATED by gen/corpus.py - data tables for the model-checking modules *)
(* (identifier corpus, character classes, strings).  Names and strings are *)
(* sequences of code points.                                               *)
(***************************************************************************)
EXTENDS Naturals, Sequences
""")
    parts.append(tset("IdentCorpus", IDENTS, cps, "plain identifiers of the default dialect"))
    parts.append(tset("PortableIdents", PORTABLE, cps, "identifiers that are plain under every parser option set (C02)"))
    parts.append("CharTable == {" + ", ".join(str(c) for c in CHARS) + "}\n")
    parts.append("StrAlphabet == {" + ", ".join(str(c) for c in STR_ALPHABET) + "}\n")
    parts.append("ByteVecCorpus == {" + ", ".join("<<" + ", ".join(map(str, b)) + ">>" for b in BYTEVECS) + "}\n")
    parts.append(tseq("TokenCorpus", [t.replace("\\\\", "\\") for t in TOKENS], bs, "C08 token corpus (bytes)"))
    parts.append(tseq("TokenCorpusBig", big_tokens(), bs, "C08 thorough tier: the corpus and 500 spliced tokens"))
    dat = [(d, t.replace("\\\\", "\\").replace("\\n", "\n").replace("\\t", "\t").replace("\\r", "\r") if False else (d, t)) for d, t in DATUMS]
    def unesc(t):
        # python-level escapes were doubled in the table above: \\\\ -> one backslash
        return t.replace("\\\\", "\\").replace("§", "\\")
    parts.append(tseq("DatumTexts", [unesc(t) for _, t in DATUMS], bs, "C19/C13 well-formed single-datum texts (bytes)"))
    parts.append("DatumDialect == <<" + ", ".join('"%s"' % d for d, _ in DATUMS) + ">>\n")
    parts.append(tseq("ContextPrefix", [c.split("@")[0] for c in CONTEXTS], bs, "text before the token in each context"))
    parts.append(tseq("ContextSuffix", [c.split("@")[1] for c in CONTEXTS], bs, "text after the token in each context"))
    parts.append("=============================================================================\n")
    with open(os.path.join(ROOT, "spec", "Corpus.tla"), "w", encoding="utf-8") as f:
        f.write("\n".join(parts))


if __name__ == "__main__":
    main()
