//! vhn: the numeric / round-trip drivers of vh against lexpr built without fast-float-parsing.
//! The sources are shared with harness/vh.

#[path = "../../../harness/vh/src/big.rs"]
mod big;
#[path = "../../../harness/vh/src/c01.rs"]
mod c01;
#[path = "../../../harness/vh/src/c05.rs"]
mod c05;
#[path = "../../../harness/vh/src/cmp.rs"]
mod cmp;
#[path = "../../../harness/vh/src/codec.rs"]
mod codec;
#[path = "../../../harness/vh/src/gen.rs"]
mod gen;

use serde_json::Value as J;
use std::io::Write;

/// lexpr is built without `fast-float-parsing` in this crate
pub const FAST_FLOAT: bool = false;

fn main() {
    std::panic::set_hook(Box::new(|_| {}));
    let args: Vec<String> = std::env::args().collect();
    if args.len() < 4 {
        eprintln!("usage: vhn <command> <config.json> <out.json> [<trace.ndjson>]");
        std::process::exit(2);
    }
    let cfg: J = serde_json::from_str(&std::fs::read_to_string(&args[2]).expect("read config")).expect("config json");
    let mut out = match args[1].as_str() {
        "c01" => c01::run(&cfg),
        "c01-replay" => c01::replay_case(&cfg),
        "c05" => c05::run(&cfg),
        "c05-replay" => c05::replay_case(&cfg),
        x => {
            eprintln!("unknown command {}", x);
            std::process::exit(2);
        }
    };
    if let Some(tp) = args.get(4) {
        let mut f = std::io::BufWriter::new(std::fs::File::create(tp).expect("trace file"));
        if let Some(tr) = out.get_mut("trace").map(|t| t.take()) {
            if let Some(a) = tr.as_array() {
                for ev in a {
                    serde_json::to_writer(&mut f, ev).unwrap();
                    f.write_all(b"\n").unwrap();
                }
                out["trace_events"] = J::from(a.len());
            }
        }
        f.flush().unwrap();
    }
    std::fs::write(&args[3], serde_json::to_vec(&out).unwrap()).expect("write out");
}
