//! Copies the generated sexp! programs (path in VHM_GENERATED) into OUT_DIR; without the variable
//! the crate builds with an empty program table.
use std::{env, fs, path::Path};

fn main() {
    println!("cargo:rerun-if-env-changed=VHM_GENERATED");
    let out = Path::new(&env::var("OUT_DIR").unwrap()).join("generated.rs");
    match env::var("VHM_GENERATED") {
        Ok(p) if !p.is_empty() => {
            println!("cargo:rerun-if-changed={}", p);
            fs::copy(&p, &out).expect("copy generated programs");
        }
        _ => fs::write(&out, "static CASES: &[(u32, fn() -> Value, &[u8])] = &[];\n").unwrap(),
    }
}
