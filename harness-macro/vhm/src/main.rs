//! C09: the generated crate.  Every program is one `sexp!` invocation in its own function (one per
//! line of the generated file, so that a compile error names the program); `CASES` pairs it with the
//! equivalent S-expression text.  For each program the macro's value and the default parser's
//! reading of the text are written out, with the verdict of the property's own relation (==).
#![allow(unused_variables, clippy::all)]

use lexpr::{sexp, Value};
use serde_json::json;
use std::io::Write;

#[allow(dead_code)]
#[path = "../../../harness/vh/src/codec.rs"]
mod codec;

include!(concat!(env!("OUT_DIR"), "/generated.rs"));

fn main() {
    let out = std::env::args().nth(1).expect("usage: vhm <out.ndjson>");
    let mut f = std::io::BufWriter::new(std::fs::File::create(out).unwrap());
    std::panic::set_hook(Box::new(|_| {}));
    for (id, prog, text) in CASES {
        let mv = std::panic::catch_unwind(prog);
        let pr = std::panic::catch_unwind(|| lexpr::from_slice(text));
        let eq = match (&mv, &pr) {
            (Ok(m), Ok(Ok(p))) => m == p,
            _ => false,
        };
        let mvj = match &mv {
            Ok(m) => json!({"t":"ok","v":codec::val_to_json(m)}),
            Err(_) => json!({"t":"panic"}),
        };
        let prj = match &pr {
            Ok(Ok(p)) => json!({"t":"ok","v":codec::val_to_json(p)}),
            Ok(Err(e)) => json!({"t":"err","msg":e.to_string()}),
            Err(_) => json!({"t":"panic"}),
        };
        writeln!(f, "{}", json!({"id":id,"eq":eq,"mv":mvj,"pr":prj})).unwrap();
    }
}
