//! C07: every sink receives exactly the printed text; write errors surface.
//!
//! Drives the printer entry points over an instrumented io::Write whose per-call responses
//! follow a schedule (from TLC, or enumerated here: fault at every offset, k bytes per call,
//! random). Every write call is logged; the log is (a) judged natively and (b) written as a
//! trace for TLC (spec/trace/C07Trace.tla).

use crate::codec::*;
use crate::gen;
use lexpr::print::{DefaultFormatter, Printer};
use lexpr::Value;
use rand::Rng;
use serde_json::{json, Value as J};
use std::collections::VecDeque;
use std::io::{self, Write};

#[derive(Clone, Debug, PartialEq)]
pub enum Resp {
    Acc(usize),
    All,
    Zero,
    Fail,
    Intr,
}

impl Resp {
    fn json(&self) -> J {
        match self {
            Resp::Acc(k) => json!({"t":"acc","k":k}),
            Resp::All => json!({"t":"all","k":0}),
            Resp::Zero => json!({"t":"zero","k":0}),
            Resp::Fail => json!({"t":"fail","k":0}),
            Resp::Intr => json!({"t":"intr","k":0}),
        }
    }
    fn from_json(j: &J) -> Resp {
        match j["t"].as_str().unwrap() {
            "acc" => Resp::Acc(j["k"].as_u64().unwrap() as usize),
            "all" => Resp::All,
            "zero" => Resp::Zero,
            "fail" => Resp::Fail,
            "intr" => Resp::Intr,
            x => panic!("resp {}", x),
        }
    }
}

#[derive(Clone, Debug)]
pub enum Mode {
    /// explicit responses, then accept everything
    Sched(Vec<Resp>),
    /// accept bytes up to absolute offset `off`, then fail (or answer Ok(0)) forever
    CutAt { off: usize, zero: bool },
    /// every call accepts at most k bytes
    Cap(usize),
    /// accept bytes up to absolute offset `off`, fail once there, then accept everything
    FailOnceAt { off: usize, failed: bool },
    /// random caps (seeded), occasional Interrupted
    Random(u64),
}

pub struct Sink {
    mode: Mode,
    queue: VecDeque<Resp>,
    rng: Option<rand::rngs::StdRng>,
    pub got: Vec<u8>,
    pub log: Vec<(Vec<u8>, Resp, usize)>,
    intr_run: u32,
}

impl Sink {
    pub fn new(mode: Mode) -> Sink {
        use rand::SeedableRng;
        let queue = match &mode {
            Mode::Sched(v) => v.iter().cloned().collect(),
            _ => VecDeque::new(),
        };
        let rng = match &mode {
            Mode::Random(s) => Some(rand::rngs::StdRng::seed_from_u64(*s)),
            _ => None,
        };
        Sink { mode, queue, rng, got: Vec::new(), log: Vec::new(), intr_run: 0 }
    }

    fn decide(&mut self, len: usize) -> Resp {
        match &self.mode {
            Mode::Sched(_) => self.queue.pop_front().unwrap_or(Resp::All),
            Mode::CutAt { off, zero } => {
                let room = off.saturating_sub(self.got.len());
                if room == 0 {
                    if *zero {
                        Resp::Zero
                    } else {
                        Resp::Fail
                    }
                } else {
                    Resp::Acc(room)
                }
            }
            Mode::Cap(k) => Resp::Acc(*k),
            Mode::FailOnceAt { off, failed } => {
                if *failed {
                    Resp::All
                } else {
                    let room = off.saturating_sub(self.got.len());
                    if room == 0 {
                        self.mode = Mode::FailOnceAt { off: 0, failed: true };
                        Resp::Fail
                    } else {
                        Resp::Acc(room)
                    }
                }
            }
            Mode::Random(_) => {
                let rng = self.rng.as_mut().unwrap();
                if self.intr_run < 2 && rng.gen_ratio(1, 10) {
                    self.intr_run += 1;
                    Resp::Intr
                } else {
                    self.intr_run = 0;
                    if rng.gen_ratio(1, 4) {
                        Resp::All
                    } else {
                        Resp::Acc(rng.gen_range(1..=len.max(1) + 1))
                    }
                }
            }
        }
    }
}

impl Write for Sink {
    fn write(&mut self, buf: &[u8]) -> io::Result<usize> {
        let r = self.decide(buf.len());
        let (n, res) = match &r {
            Resp::Acc(k) => {
                let n = (*k).min(buf.len());
                (n, Ok(n))
            }
            Resp::All => (buf.len(), Ok(buf.len())),
            Resp::Zero => (0, Ok(0)),
            Resp::Fail => (0, Err(io::Error::new(io::ErrorKind::Other, "injected sink failure"))),
            Resp::Intr => (0, Err(io::Error::new(io::ErrorKind::Interrupted, "injected interrupt"))),
        };
        self.got.extend_from_slice(&buf[..n]);
        self.log.push((buf.to_vec(), r, n));
        res
    }
    fn flush(&mut self) -> io::Result<()> {
        Ok(())
    }
}

pub const ENTRY_POINTS: &[&str] = &["to_writer", "to_writer_custom", "printer_new", "printer_with_options", "printer_with_formatter"];

fn expected_text(ep: &str, v: &Value, po: &J) -> Result<String, String> {
    let r = std::panic::catch_unwind(|| match ep {
        "to_writer" | "printer_new" | "printer_with_formatter" => lexpr::to_string(v),
        _ => lexpr::to_string_custom(v, print_opts(po)),
    });
    match r {
        Ok(Ok(s)) => Ok(s),
        Ok(Err(e)) => Err(format!("to_string failed: {}", e)),
        Err(_) => Err("to_string panicked".into()),
    }
}

fn run_print(ep: &str, v: &Value, po: &J, sink: &mut Sink) -> Result<io::Result<()>, String> {
    let r = std::panic::catch_unwind(std::panic::AssertUnwindSafe(|| match ep {
        "to_writer" => lexpr::to_writer(&mut *sink, v),
        "to_writer_custom" => lexpr::to_writer_custom(&mut *sink, v, print_opts(po)),
        "printer_new" => Printer::new(&mut *sink).print(v),
        "printer_with_options" => Printer::with_options(&mut *sink, print_opts(po)).print(v),
        "printer_with_formatter" => Printer::with_formatter(&mut *sink, DefaultFormatter).print(v),
        x => panic!("entry point {}", x),
    }));
    r.map_err(|p| format!("{}", panic_json(p)["msg"]))
}

/// Native judgement of one run; returns a list of rule names that failed.
fn judge(text: &[u8], sink: &Sink, result_ok: bool) -> Vec<&'static str> {
    let mut bad = Vec::new();
    let mut dl = 0usize;
    let mut faulted = false;
    let mut injected = false;
    for (buf, r, n) in &sink.log {
        if dl + buf.len() > text.len() || &text[dl..dl + buf.len()] != buf.as_slice() {
            if !bad.contains(&"buffer-not-at-cut") {
                bad.push("buffer-not-at-cut");
            }
        }
        dl += n;
        match r {
            Resp::Fail => {
                faulted = true;
                injected = true;
            }
            Resp::Zero if !buf.is_empty() => {
                faulted = true;
                injected = true;
            }
            Resp::Intr => injected = true,
            _ => {}
        }
    }
    if sink.got.len() > text.len() || sink.got.as_slice() != &text[..sink.got.len()] {
        bad.push("delivered-not-prefix");
    }
    if result_ok && sink.got.as_slice() != text {
        bad.push("ok-but-incomplete");
    }
    if faulted && result_ok {
        bad.push("fault-swallowed");
    }
    if !result_ok && !injected {
        bad.push("error-invented");
    }
    bad
}

pub struct Runner {
    pub out: Vec<J>,
    pub trace: Vec<J>,
    pub trace_budget: usize,
    pub runs: u64,
    pub writes: u64,
    pub distinct: std::collections::HashSet<u64>,
}

fn hash_of(x: &impl std::hash::Hash) -> u64 {
    use std::hash::Hasher;
    let mut h = std::collections::hash_map::DefaultHasher::new();
    x.hash(&mut h);
    h.finish()
}

impl Runner {
    pub fn one(&mut self, ep: &str, v: &Value, vj: &J, po: &J, mode: Mode, mode_j: J) {
        self.runs += 1;
        let text = match expected_text(ep, v, po) {
            Ok(t) => t,
            Err(e) => {
                self.out.push(json!({"bad":["to_string-failed"],"ep":ep,"v":vj,"po":po,"mode":mode_j,"detail":e}));
                return;
            }
        };
        let mut sink = Sink::new(mode);
        let res = run_print(ep, v, po, &mut sink);
        let (result_ok, result_s) = match &res {
            Ok(Ok(())) => (true, "ok".to_string()),
            Ok(Err(_)) => (false, "err".to_string()),
            Err(p) => (false, format!("panic:{}", p)),
        };
        self.writes += sink.log.len() as u64;
        let mut bad = judge(text.as_bytes(), &sink, result_ok);
        if res.is_err() {
            bad.push("panic");
        }
        // non-trivial = at least one short accept / fault actually happened; distinct by (text, response log)
        let nontrivial = sink.log.iter().any(|(b, r, n)| *n < b.len() || matches!(r, Resp::Fail | Resp::Zero | Resp::Intr));
        if nontrivial {
            let key: Vec<(usize, usize)> = sink.log.iter().map(|(b, _, n)| (b.len(), *n)).collect();
            self.distinct.insert(hash_of(&(text.as_bytes(), key, ep)));
        }
        let writes_j: Vec<J> = sink
            .log
            .iter()
            .map(|(b, r, _)| json!({"buf":bytes_j(b),"resp":r.json()}))
            .collect();
        if !bad.is_empty() {
            self.out.push(json!({"bad":bad,"ep":ep,"v":vj,"po":po,"mode":mode_j,"text":bytes_j(text.as_bytes()),
                                 "writes":writes_j,"result":result_s,"got":bytes_j(&sink.got)}));
        }
        if self.trace.len() + sink.log.len() + 2 <= self.trace_budget {
            self.trace.push(json!({"ev":"begin","text":bytes_j(text.as_bytes()),"ep":ep,"run":self.runs,"v":vj,"po":po,"mode":mode_j}));
            for (b, r, _) in &sink.log {
                self.trace.push(json!({"ev":"write","buf":bytes_j(b),"resp":r.json()}));
            }
            self.trace.push(json!({"ev":"end","result": if result_ok {"ok"} else {"err"}}));
        }
    }
}

/// Replay of a single recorded case (from a VIOLATION replay file).
/// A Printer that is used again after one of its print calls failed must start the next value afresh: whatever it
/// delivers after the failure is exactly the text of the later values (nothing kept from the failed one).
fn printer_reuse(v1: &Value, v2: &Value, po: &J, custom: bool, off: usize) -> Option<String> {
    let t1 = if custom { lexpr::to_string_custom(v1, print_opts(po)).ok()? } else { lexpr::to_string(v1).ok()? };
    let t2 = if custom { lexpr::to_string_custom(v2, print_opts(po)).ok()? } else { lexpr::to_string(v2).ok()? };
    let r = std::panic::catch_unwind(|| {
        let sink = Sink::new(Mode::FailOnceAt { off, failed: false });
        if custom {
            let mut p = Printer::with_options(sink, print_opts(po));
            let r1 = p.print(v1).is_ok();
            let r2 = p.print(v2).is_ok();
            (r1, r2, p.into_inner().got)
        } else {
            let mut p = Printer::new(sink);
            let r1 = p.print(v1).is_ok();
            let r2 = p.print(v2).is_ok();
            (r1, r2, p.into_inner().got)
        }
    });
    match r {
        Err(_) => Some("printing panicked".to_string()),
        Ok((r1, r2, got)) => {
            if off <= t1.len().saturating_sub(1) && r1 {
                return Some(format!("the first print reports success although the sink failed at offset {}", off));
            }
            if !r1 && r2 {
                // the failed print delivered a prefix of t1 of length off; then the whole of t2
                let want: Vec<u8> = t1.as_bytes()[..off.min(t1.len())].iter().chain(t2.as_bytes().iter()).cloned().collect();
                if got != want {
                    return Some(format!("after a failed print the same Printer delivered {:?}; a prefix of the first text followed by exactly the second text is {:?}",
                                        String::from_utf8_lossy(&got), String::from_utf8_lossy(&want)));
                }
            }
            None
        }
    }
}

pub fn replay_case(case: &J) -> J {
    let v = json_to_val(&case["v"]);
    let mode = mode_from_json(&case["mode"]);
    let mut r = Runner { out: vec![], trace: vec![], trace_budget: 100000, runs: 0, writes: 0, distinct: Default::default() };
    r.one(case["ep"].as_str().unwrap(), &v, &case["v"], &case["po"], mode, case["mode"].clone());
    json!({"out": r.out, "trace": r.trace})
}

pub fn mode_from_json(j: &J) -> Mode {
    match j["m"].as_str().unwrap() {
        "sched" => Mode::Sched(j["resp"].as_array().unwrap().iter().map(Resp::from_json).collect()),
        "cut" => Mode::CutAt { off: j["off"].as_u64().unwrap() as usize, zero: j["zero"].as_bool().unwrap() },
        "cap" => Mode::Cap(j["k"].as_u64().unwrap() as usize),
        "random" => Mode::Random(j["seed"].as_u64().unwrap()),
        x => panic!("mode {}", x),
    }
}

/// Main driver. `cfg`: {"schedules":[[resp..]..], "seed":n, "random_values":n, "random_runs":n,
/// "trace_budget":n, "opts_sample":n}
pub fn run(cfg: &J) -> J {
    let seed = cfg["seed"].as_u64().unwrap_or(1);
    let mut r = Runner {
        out: vec![],
        trace: vec![],
        trace_budget: cfg["trace_budget"].as_u64().unwrap_or(20000) as usize,
        runs: 0,
        writes: 0,
        distinct: Default::default(),
    };
    let probes = gen::probe_values();
    let all_po = all_print_opts();
    let mut g = gen::Gen::new(seed);
    let dpo = default_print_opts_json();
    // option sets used with the probes: default, elisp, and a seeded sample of the 576
    let mut po_set = vec![dpo.clone(), elisp_print_opts_json()];
    for _ in 0..cfg["opts_sample"].as_u64().unwrap_or(6) {
        po_set.push(g.pick(&all_po).clone());
    }
    let schedules: Vec<Vec<Resp>> = cfg["schedules"]
        .as_array()
        .map(|a| a.iter().map(|s| s.as_array().unwrap().iter().map(Resp::from_json).collect()).collect())
        .unwrap_or_default();

    // (1) agreement of the default printer with the customised printer on default options
    let mut formatter_disagreements = 0u64;
    for (i, v) in probes.iter().enumerate() {
        let a = lexpr::to_string(v).ok();
        let b = lexpr::to_string_custom(v, lexpr::print::Options::default()).ok();
        if a != b || a.is_none() {
            formatter_disagreements += 1;
            r.out.push(json!({"bad":["default-vs-custom-differ"],"ep":"to_string","v":val_to_json(v),"po":dpo,"mode":{"m":"none"},"probe":i}));
        }
    }

    // (2) TLC schedules x probes x entry points (default options; custom entry points also on the option sample)
    for (i, v) in probes.iter().enumerate() {
        let vj = val_to_json(v);
        for (si, s) in schedules.iter().enumerate() {
            // spread entry points and option sets over the schedules deterministically
            let ep = ENTRY_POINTS[(i + si) % ENTRY_POINTS.len()];
            let po = &po_set[(i * 7 + si) % po_set.len()];
            let mj = json!({"m":"sched","resp": s.iter().map(|x| x.json()).collect::<Vec<_>>()});
            r.one(ep, v, &vj, po, Mode::Sched(s.clone()), mj);
        }
    }

    // (2b) a Printer reused after a failure at every offset of the first value
    {
        let firsts = [Value::string("abc\n\u{3bb}\"x"), Value::list(vec![Value::symbol("a"), Value::string("s\t"), Value::from(12345u32), Value::keyword("k")]),
                      Value::from(-1234567i64), Value::bytes(vec![1u8, 2, 3])];
        let seconds = [Value::string("abc"), Value::list(vec![Value::string("q"), Value::Char('x')]), Value::symbol("sym")];
        for v1 in firsts.iter() {
            let len = lexpr::to_string(v1).map(|t| t.len()).unwrap_or(0).max(lexpr::to_string_custom(v1, lexpr::print::Options::elisp()).map(|t| t.len()).unwrap_or(0));
            for v2 in seconds.iter() {
                for off in 0..=len {
                    for (custom, po) in [(false, &dpo), (true, &po_set[1])] {
                        r.runs += 1;
                        if let Some(why) = printer_reuse(v1, v2, po, custom, off) {
                            r.out.push(json!({"bad":["printer-reuse"],"why":why,"ep": if custom {"printer_with_options"} else {"printer_new"},"v":val_to_json(v1),"po":po,
                                              "mode":{"m":"failonce","off":off},"v2":val_to_json(v2)}));
                        }
                    }
                }
            }
        }
    }

    // (3) hard error / zero-acceptance at every output offset, caps k = 1..: all probes, all entry points, option sets
    for v in probes.iter() {
        let vj = val_to_json(v);
        for (pi, po) in po_set.iter().enumerate() {
            for ep in ENTRY_POINTS {
                let custom = *ep == "to_writer_custom" || *ep == "printer_with_options";
                if !custom && pi > 0 {
                    continue;
                }
                let text = match expected_text(ep, v, po) {
                    Ok(t) => t,
                    Err(_) => continue,
                };
                let len = text.len();
                for off in 0..=len {
                    r.one(ep, v, &vj, po, Mode::CutAt { off, zero: false }, json!({"m":"cut","off":off,"zero":false}));
                    if off % 3 == 0 || off == len {
                        r.one(ep, v, &vj, po, Mode::CutAt { off, zero: true }, json!({"m":"cut","off":off,"zero":true}));
                    }
                }
                for k in 1..=len.min(12).max(1) {
                    r.one(ep, v, &vj, po, Mode::Cap(k), json!({"m":"cap","k":k}));
                }
            }
        }
    }

    // (4) seeded: random values x random option sets x random schedules
    let nvals = cfg["random_values"].as_u64().unwrap_or(200);
    let runs_per = cfg["random_runs"].as_u64().unwrap_or(6);
    for _ in 0..nvals {
        let v = g.value();
        let vj = val_to_json(&v);
        let po = g.pick(&all_po).clone();
        let a = lexpr::to_string(&v).ok();
        let b = lexpr::to_string_custom(&v, lexpr::print::Options::default()).ok();
        if a != b || a.is_none() {
            formatter_disagreements += 1;
            r.out.push(json!({"bad":["default-vs-custom-differ"],"ep":"to_string","v":vj,"po":dpo,"mode":{"m":"none"}}));
        }
        for _ in 0..runs_per {
            let ep = *g.pick(ENTRY_POINTS);
            let s: u64 = g.rng.gen();
            match g.rng.gen_range(0..4) {
                0 => {
                    let len = expected_text(ep, &v, &po).map(|t| t.len()).unwrap_or(0);
                    let off = g.rng.gen_range(0..=len);
                    let zero = g.chance(0.3);
                    r.one(ep, &v, &vj, &po, Mode::CutAt { off, zero }, json!({"m":"cut","off":off,"zero":zero}));
                }
                1 => {
                    let k = g.rng.gen_range(1..5);
                    r.one(ep, &v, &vj, &po, Mode::Cap(k), json!({"m":"cap","k":k}));
                }
                _ => r.one(ep, &v, &vj, &po, Mode::Random(s), json!({"m":"random","seed":s})),
            }
        }
    }

    json!({"bad": r.out, "trace": r.trace, "runs": r.runs, "writes": r.writes,
           "distinct_nontrivial": r.distinct.len(), "formatter_disagreements": formatter_disagreements,
           "probes": probes.len(), "option_sets": po_set.len(), "schedules": schedules.len()})
}
