//! C10 (datum API agrees with the value API) and C11 (spans delimit exactly the text of each datum).

use crate::codec::*;
use lexpr::datum::Ref;
use lexpr::parse::Parser;
use lexpr::{Datum, Value};
use rand::{Rng, SeedableRng};
use serde_json::{json, Value as J};
use std::collections::HashSet;

pub const SOURCES: &[&str] = &["slice", "str", "reader"];

/// All items of the stream by the datum API and by the value API: the caller goes on after an error (a parser
/// makes progress on every call), until the end of the input or an EOF error.
pub fn parse_streams(src: &str, text: &[u8], ro: &J) -> (Vec<Result<Datum, J>>, Vec<J>, bool) {
    let o = parse_opts(ro);
    let cap = text.len() + 3;
    let r = std::panic::catch_unwind(|| {
        let mut ds: Vec<Result<Datum, J>> = Vec::new();
        let mut vs: Vec<J> = Vec::new();
        macro_rules! drive {
            ($mk:expr) => {{
                let mut p = $mk;
                for _ in 0..cap {
                    match p.next_datum() {
                        Ok(Some(d)) => ds.push(Ok(d)),
                        Ok(None) => break,
                        Err(e) => {
                            let stop = e.is_eof() || e.is_io();
                            ds.push(Err(err_json(&e)));
                            if stop {
                                break;
                            }
                        }
                    }
                }
                let mut p = $mk;
                for _ in 0..cap {
                    match p.next_value() {
                        Ok(Some(v)) => vs.push(json!({"r":"ok","v":val_to_json(&v)})),
                        Ok(None) => break,
                        Err(e) => {
                            let stop = e.is_eof() || e.is_io();
                            vs.push(err_json(&e));
                            if stop {
                                break;
                            }
                        }
                    }
                }
            }};
        }
        match src {
            "slice" => drive!(Parser::from_slice_custom(text, o)),
            "reader" => drive!(Parser::from_reader_custom(text, o)),
            _ => drive!(Parser::from_str_custom(std::str::from_utf8(text).unwrap(), o)),
        }
        (ds, vs)
    });
    match r {
        Ok((d, v)) => (d, v, false),
        Err(_) => (vec![], vec![], true),
    }
}

/// Delivers `data`, except that the first read at each offset in `faults` fails with WouldBlock.
struct Flaky<'a> {
    data: &'a [u8],
    pos: usize,
    faults: Vec<usize>,
    fired: usize,
}

impl<'a> std::io::Read for Flaky<'a> {
    fn read(&mut self, buf: &mut [u8]) -> std::io::Result<usize> {
        if self.fired < self.faults.len() && self.faults[self.fired] == self.pos {
            self.fired += 1;
            return Err(std::io::Error::new(std::io::ErrorKind::WouldBlock, "try again"));
        }
        if self.pos >= self.data.len() || buf.is_empty() {
            return Ok(0);
        }
        let next_fault = if self.fired < self.faults.len() { self.faults[self.fired] } else { self.data.len() };
        let n = buf.len().min(next_fault.max(self.pos + 1) - self.pos).min(self.data.len() - self.pos);
        buf[..n].copy_from_slice(&self.data[self.pos..self.pos + n]);
        self.pos += n;
        Ok(n)
    }
}

fn span_j(r: &Ref) -> J {
    let s = r.span();
    json!([s.start().line(), s.start().column(), s.end().line(), s.end().column()])
}

/// The tree of sub-data reachable through list_iter / vector_iter, with spans.
/// kind: "list" (kids = elements, tail = dotted tail if any), "vec", "atom"
pub fn span_tree(r: Ref) -> J {
    let v = r.value();
    if let Some(it) = r.list_iter() {
        if !v.is_null() {
            let mut kids = Vec::new();
            let mut tail = J::Null;
            let mut it = it;
            let mut after_dot = false;
            let mut guard = 0usize;
            loop {
                guard += 1;
                if guard > 2_000_000 {
                    break;
                }
                match it.next() {
                    Some(k) => {
                        if after_dot {
                            tail = span_tree(k);
                        } else {
                            kids.push(span_tree(k));
                        }
                    }
                    None => {
                        if it.is_empty() {
                            break;
                        }
                        after_dot = true;
                    }
                }
            }
            return json!({"kind":"list","span":span_j(&r),"v":val_to_json(v),"kids":kids,"tail":if tail.is_null() { json!({"kind":"none"}) } else { tail }});
        }
    }
    if let Some(it) = r.vector_iter() {
        let kids: Vec<J> = it.map(span_tree).collect();
        return json!({"kind":"vec","span":span_j(&r),"v":val_to_json(v),"kids":kids,"tail":{"kind":"none"}});
    }
    json!({"kind":"atom","span":span_j(&r),"v":val_to_json(v),"kids":[],"tail":{"kind":"none"}})
}

/// Flat structural walk through the datum accessors: (path, what) entries.
fn walk_datum(r: Ref, path: &mut Vec<u32>, out: &mut Vec<J>) {
    let v = r.value();
    if let Some(mut it) = r.list_iter() {
        out.push(json!({"p":path.clone(),"k":"list-begin","peek": it.peek().map(|p| val_to_json(p.value())).unwrap_or(json!({"k":"-"})), "empty": it.is_empty()}));
        let mut i = 0u32;
        let mut nones = 0;
        loop {
            match it.next() {
                Some(k) => {
                    path.push(i);
                    walk_datum(k, path, out);
                    path.pop();
                    i += 1;
                }
                None => {
                    out.push(json!({"p":path.clone(),"k":"none","empty":it.is_empty()}));
                    nones += 1;
                    if it.is_empty() || nones > 3 {
                        break;
                    }
                }
            }
        }
        if let Some((a, d)) = r.as_pair() {
            out.push(json!({"p":path.clone(),"k":"pair","car":val_to_json(a.value()),"cdr":val_to_json(d.value())}));
        }
        return;
    }
    if let Some(it) = r.vector_iter() {
        out.push(json!({"p":path.clone(),"k":"vec-begin","n":v.as_slice().map(|s| s.len()).unwrap_or(0)}));
        for (i, k) in it.enumerate() {
            path.push(i as u32);
            walk_datum(k, path, out);
            path.pop();
        }
        out.push(json!({"p":path.clone(),"k":"vec-end"}));
        return;
    }
    out.push(json!({"p":path.clone(),"k":"atom","v":val_to_json(v)}));
}

/// The same walk through the plain value's own accessors.
fn walk_value(v: &Value, path: &mut Vec<u32>, out: &mut Vec<J>) {
    if let Some(mut it) = v.list_iter() {
        out.push(json!({"p":path.clone(),"k":"list-begin","peek": it.peek().map(val_to_json).unwrap_or(json!({"k":"-"})), "empty": it.is_empty()}));
        let mut i = 0u32;
        let mut nones = 0;
        loop {
            match it.next() {
                Some(k) => {
                    path.push(i);
                    walk_value(k, path, out);
                    path.pop();
                    i += 1;
                }
                None => {
                    out.push(json!({"p":path.clone(),"k":"none","empty":it.is_empty()}));
                    nones += 1;
                    if it.is_empty() || nones > 3 {
                        break;
                    }
                }
            }
        }
        if let Some((a, d)) = v.as_pair() {
            out.push(json!({"p":path.clone(),"k":"pair","car":val_to_json(a),"cdr":val_to_json(d)}));
        }
        return;
    }
    if let Some(s) = v.as_slice() {
        out.push(json!({"p":path.clone(),"k":"vec-begin","n":s.len()}));
        for (i, k) in s.iter().enumerate() {
            path.push(i as u32);
            walk_value(k, path, out);
            path.pop();
        }
        out.push(json!({"p":path.clone(),"k":"vec-end"}));
        return;
    }
    out.push(json!({"p":path.clone(),"k":"atom","v":val_to_json(v)}));
}

fn offset_of(text: &[u8], line: u64, col: u64) -> Option<usize> {
    let mut l = 1u64;
    let mut start = 0usize;
    if line < 1 {
        return None;
    }
    while l < line {
        match text[start..].iter().position(|&b| b == b'\n') {
            Some(p) => {
                start += p + 1;
                l += 1;
            }
            None => return None,
        }
    }
    // the column must lie on that line (at most just behind its last byte): a position is a place in the text, not
    // merely a byte count from the start of the line
    let line_len = text[start..].iter().position(|&b| b == b'\n').unwrap_or(text.len() - start);
    if col as usize > line_len {
        return None;
    }
    Some(start + col as usize)
}

const SHORTHANDS: &[&[u8]] = &[b"'", b"`", b",@", b","];

/// Native mirror of the span relations of C11 (TLC re-judges the traced trees).
fn check_tree(text: &[u8], ro: &J, t: &J, parent: Option<(usize, usize)>, bad: &mut Vec<String>, head_of_shorthand: bool) -> Option<(usize, usize)> {
    let sp = t["span"].as_array().unwrap();
    let (a, b) = (offset_of(text, sp[0].as_u64().unwrap(), sp[1].as_u64().unwrap()), offset_of(text, sp[2].as_u64().unwrap(), sp[3].as_u64().unwrap()));
    let (s, e) = match (a, b) {
        (Some(s), Some(e)) => (s, e),
        _ => {
            bad.push(format!("span {:?} lies outside the input", sp));
            return None;
        }
    };
    if e <= s {
        bad.push(format!("span {:?} is empty", sp));
        return None;
    }
    if let Some((ps, pe)) = parent {
        if s < ps || e > pe {
            bad.push(format!("span {:?} is not contained in its parent's span", sp));
        }
    }
    let slice = &text[s..e];
    // the shorthand characters that stand for the symbol this node holds (if it is one of the four quote names)
    let names_shorthand = |sh: &[u8]| -> bool {
        let name: &[u8] = match sh {
            b"'" => b"quote",
            b"`" => b"quasiquote",
            b"," => b"unquote",
            b",@" => b"unquote-splicing",
            _ => return false,
        };
        t["v"]["k"] == "sym" && t["v"]["s"].as_array().map(|a| a.iter().map(|c| c.as_u64().unwrap_or(0) as u8).collect::<Vec<u8>>() == name).unwrap_or(false)
    };
    if head_of_shorthand {
        if !names_shorthand(slice) {
            bad.push(format!("head span of a quote shorthand covers {:?}", String::from_utf8_lossy(slice)));
        }
    } else if names_shorthand(slice) {
        // a shorthand in a dotted tail, (a . 'x) = (a quote x): its head is an element of the enclosing list
    } else {
        let r = std::panic::catch_unwind(|| lexpr::from_slice_custom(slice, parse_opts(ro)));
        match r {
            Ok(Ok(v)) => {
                if val_to_json(&v) != t["v"] {
                    bad.push(format!("text covered by span {:?} ({:?}) parses to a different value", sp, String::from_utf8_lossy(slice)));
                }
            }
            _ => bad.push(format!("text covered by span {:?} ({:?}) does not parse on its own", sp, String::from_utf8_lossy(slice))),
        }
    }
    let shorthand = t["kind"] == "list" && SHORTHANDS.iter().any(|h| slice.starts_with(h));
    let mut prev_end = s;
    for (i, k) in t["kids"].as_array().unwrap().iter().enumerate() {
        if let Some((ks, ke)) = check_tree(text, ro, k, Some((s, e)), bad, shorthand && i == 0) {
            if ks < prev_end {
                bad.push(format!("span of element {} overlaps its preceding sibling", i));
            }
            prev_end = ke;
        }
    }
    if t["tail"]["kind"] != "none" {
        if let Some((ks, _)) = check_tree(text, ro, &t["tail"], Some((s, e)), bad, false) {
            if ks < prev_end {
                bad.push("span of the dotted tail overlaps the last element".to_string());
            }
        }
    }
    Some((s, e))
}

pub struct Runner {
    pub bad: Vec<J>,
    pub trace: Vec<J>,
    pub trace_bytes: usize,
    pub evals: u64,
    pub subdata: u64,
    pub distinct: HashSet<Vec<u8>>,
}

fn count_nodes(t: &J) -> u64 {
    1 + t["kids"].as_array().map(|a| a.iter().map(count_nodes).sum::<u64>()).unwrap_or(0)
        + if t["tail"]["kind"] != "none" && !t["tail"].is_null() { count_nodes(&t["tail"]) } else { 0 }
}

impl Runner {
    pub fn text(&mut self, text: &[u8], ro: &J, want_trace: bool) {
        self.evals += 1;
        let utf8 = std::str::from_utf8(text).is_ok();
        let mut trees_by_src: Vec<(String, J)> = Vec::new();
        for src in SOURCES {
            if *src == "str" && !utf8 {
                continue;
            }
            let (ds, vs, panicked) = parse_streams(src, text, ro);
            let mk = |rule: &str, why: String| json!({"rule":rule,"why":why,"text":bytes_j(text),"ro":ro,"src":src});
            if panicked {
                self.bad.push(mk("panic", "parser panicked".into()));
                continue;
            }
            // C10 (1): item for item agreement with the value API
            let dproj: Vec<J> = ds.iter().map(|d| match d {
                Ok(d) => json!({"r":"ok","v":val_to_json(d.value())}),
                Err(e) => e.clone(),
            }).collect();
            if dproj != vs {
                self.bad.push(mk("c10-stream", format!("datum API yields {} items, value API {}; first difference at item {}",
                    dproj.len(), vs.len(), dproj.iter().zip(vs.iter()).position(|(a, b)| a != b).unwrap_or(dproj.len().min(vs.len())))));
            }
            let mut trees = Vec::new();
            let mut tops: Vec<(usize, usize)> = Vec::new();
            let mut prev_end: Option<usize> = None;
            // (the structural and span checks are for the data read before the first error)
            for d in ds.iter().take_while(|d| d.is_ok()).flatten() {
                // C10 (2): conversion and structural walk
                let conv: Value = Value::from(d.clone());
                if conv != *d.value() {
                    self.bad.push(mk("c10-convert", "Value::from(datum) differs from datum.value()".into()));
                }
                let (mut dw, mut vw) = (Vec::new(), Vec::new());
                walk_datum(d.as_ref(), &mut Vec::new(), &mut dw);
                walk_value(d.value(), &mut Vec::new(), &mut vw);
                if dw != vw {
                    let i = dw.iter().zip(vw.iter()).position(|(a, b)| a != b).unwrap_or(dw.len().min(vw.len()));
                    self.bad.push(mk("c10-walk", format!("datum accessors expose a different structure at step {}: {} vs {}", i,
                        dw.get(i).cloned().unwrap_or(J::Null), vw.get(i).cloned().unwrap_or(J::Null))));
                }
                if want_trace && *src == "slice" && text.len() + 200 <= self.trace_bytes {
                    self.trace_bytes -= text.len() + 200;
                    self.trace.push(json!({"ev":"walk","text":bytes_j(text),"ro":ro,"v":val_to_json(d.value()),"dwalk":dw,"vwalk":vw}));
                }
                // C11: spans
                let tree = span_tree(d.as_ref());
                self.subdata += count_nodes(&tree);
                let mut complaints = Vec::new();
                if let Some((s, e)) = check_tree(text, ro, &tree, None, &mut complaints, false) {
                    if let Some(pe) = prev_end {
                        if s < pe {
                            complaints.push("top-level datum overlaps the preceding one".to_string());
                        }
                    }
                    prev_end = Some(e);
                    tops.push((s, e));
                }
                for c in complaints {
                    self.bad.push(mk("c11-span", c));
                }
                trees.push(tree);
            }
            // C11: a reader that fails transiently between two data (a caller retries the call): the spans are those of
            // the undisturbed stream
            if *src == "reader" && tops.len() >= 2 && ds.iter().all(|d| d.is_ok()) && tops.len() == ds.len() {
                let faults: Vec<usize> = tops[1..].iter().map(|t| t.0).filter(|&k| k >= 1 && matches!(text[k - 1], b' ' | b'\n')).collect();
                if !faults.is_empty() {
                    let o = parse_opts(ro);
                    let got = std::panic::catch_unwind(|| {
                        let mut p = Parser::from_reader_custom(Flaky { data: text, pos: 0, faults: faults.clone(), fired: 0 }, o);
                        let mut out = Vec::new();
                        let mut retries = 0usize;
                        for _ in 0..text.len() + faults.len() + 3 {
                            match p.next_datum() {
                                Ok(Some(d)) => out.push(span_tree(d.as_ref())),
                                Ok(None) => break,
                                Err(e) if e.is_io() => retries += 1,
                                Err(_) => break,
                            }
                        }
                        (out, retries)
                    });
                    match got {
                        Ok((out, retries)) => {
                            if J::Array(out) != J::Array(trees.clone()) {
                                self.bad.push(mk("c11-retry", format!("after {} transient read errors between data (at the offsets {:?}) the spans differ from those of the undisturbed stream", retries, faults)));
                            }
                        }
                        Err(_) => self.bad.push(mk("panic", "parser panicked on a reader that fails transiently".into())),
                    }
                }
            }
            trees_by_src.push((src.to_string(), J::Array(trees)));
        }
        // C11: same spans from every source
        if let Some((s0, t0)) = trees_by_src.first() {
            for (s, t) in &trees_by_src[1..] {
                if t != t0 {
                    self.bad.push(json!({"rule":"c11-sources","why":format!("spans from {} differ from those from {}", s, s0),
                                         "text":bytes_j(text),"ro":ro,"src":s}));
                }
            }
            if t0.as_array().map(|a| !a.is_empty()).unwrap_or(false) {
                self.distinct.insert(text.to_vec());
            }
        }
        if want_trace && text.len() * 3 + 300 <= self.trace_bytes {
            self.trace_bytes -= text.len() * 3 + 300;
            for (s, t) in &trees_by_src {
                if s == "str" {
                    continue;
                }
                self.trace.push(json!({"ev":"spans","text":bytes_j(text),"ro":ro,"src":s,"trees":t}));
            }
        }
    }
}

const JUNK: &[&[u8]] = &[b"(", b")", b"[", b"]", b"#(", b"'", b"`", b",", b",@", b".", b" ", b"\n", b"\r\n", b"\t", b";c\n", b"a", b"foo", b"12", b"-2.5",
    b"\"s\"", b"\"a\\nb\"", b"#\\x", b"#t", b"#nil", b"#u8(1 2)", b"\xCE\xBB", b"\xCE\xBBy", b":k", b"#:k", b"?a", b"nil", b"#", b"{", b"\"", b". ", b" . ",
    // a NUL byte is an ordinary byte of the input, not its end
    b"\x00", b" .\x00 ", b"1\x00", b"a\x00b"];

/// cfg: {"cases_files": [ndjson of {text, ro}], "seed", "random", "trace_bytes", "stride"}
pub fn run(cfg: &J) -> J {
    let mut r = Runner { bad: vec![], trace: vec![], trace_bytes: cfg["trace_bytes"].as_u64().unwrap_or(300000) as usize, evals: 0,
                         subdata: 0, distinct: HashSet::new() };
    let stride = cfg["stride"].as_u64().unwrap_or(10) as usize;
    let mut n = 0usize;
    for f in cfg["cases_files"].as_array().unwrap() {
        for line in std::fs::read_to_string(f.as_str().unwrap()).expect("cases").lines() {
            if line.trim().is_empty() {
                continue;
            }
            let c: J = serde_json::from_str(line).unwrap();
            n += 1;
            r.text(&j_bytes(&c["text"]), &c["ro"], n % stride == 0);
        }
    }
    // seeded: token-alphabet texts (well-formed and malformed), printed random values with layout noise
    let mut rng = rand::rngs::StdRng::seed_from_u64(cfg["seed"].as_u64().unwrap_or(1));
    let all = all_parse_opts();
    let (dpo, epo) = (default_parse_opts_json(), elisp_parse_opts_json());
    for i in 0..cfg["random"].as_u64().unwrap_or(2000) {
        let k = rng.gen_range(1..14);
        let mut t = Vec::new();
        for _ in 0..k {
            t.extend_from_slice(JUNK[rng.gen_range(0..JUNK.len())]);
            if rng.gen_ratio(1, 2) {
                t.push(b' ');
            }
        }
        let ro = match i % 4 {
            0 => dpo.clone(),
            1 => epo.clone(),
            _ => all[rng.gen_range(0..all.len())].clone(),
        };
        r.text(&t, &ro, i % 7 == 0);
    }
    let mut g = crate::gen::Gen::new(cfg["seed"].as_u64().unwrap_or(1) + 5);
    g.dialect = crate::gen::Dialect::Portable;
    for i in 0..cfg["random_values"].as_u64().unwrap_or(300) {
        let v = g.value();
        let (t, ro) = if i % 2 == 0 {
            (lexpr::to_string(&v).unwrap(), dpo.clone())
        } else {
            (lexpr::to_string_custom(&v, lexpr::print::Options::elisp()).unwrap(), epo.clone())
        };
        // layout noise: turn some spaces into newlines / comments
        let mut noisy = Vec::new();
        let mut in_str = false;
        let bytes = t.as_bytes();
        let mut j = 0;
        while j < bytes.len() {
            let b = bytes[j];
            if b == b'"' && (j == 0 || bytes[j - 1] != b'\\') {
                in_str = !in_str;
            }
            if b == b' ' && !in_str && (j == 0 || (bytes[j - 1] != b'\\' && bytes[j - 1] != b'?')) && g.chance(0.3) {
                noisy.extend_from_slice(*g.pick(&[&b"\n"[..], b"\r\n", b" ;x\n", b"\t ", b"\n\n  "]));
            } else {
                noisy.push(b);
            }
            j += 1;
        }
        r.text(&noisy, &ro, i % 3 == 0);
    }
    json!({"bad": r.bad, "trace": r.trace, "evaluations": r.evals, "subdata": r.subdata, "distinct": r.distinct.len(), "tlc_cases": n})
}

pub fn replay_case(case: &J) -> J {
    let mut r = Runner { bad: vec![], trace: vec![], trace_bytes: 1 << 22, evals: 0, subdata: 0, distinct: HashSet::new() };
    r.text(&j_bytes(&case["text"]), &case["ro"], true);
    json!({"bad": r.bad, "trace": r.trace})
}
