//! C20: Value and Number accessors, conversions and comparisons are coherent.

use crate::codec::*;
use lexpr::{Number, Value};
use rand::{Rng, SeedableRng};
use serde_json::{json, Value as J};

fn digits_i128(j: &J) -> i128 {
    let s: String = j["d"].as_array().unwrap().iter().map(|d| char::from(b'0' + d.as_u64().unwrap() as u8)).collect();
    let m: i128 = s.parse().unwrap();
    if j["neg"].as_bool().unwrap_or(false) { -m } else { m }
}

fn float_of(tag: &str) -> f64 {
    match tag {
        "1.5" => 1.5,
        "-0" => -0.0,
        "2^53" => 9007199254740992.0,
        "1e300" => 1e300,
        "1" => 1.0,
        x => panic!("float tag {}", x),
    }
}

/// Builds the value a constructor record describes, through the From conversions.
fn build(k: &J) -> Value {
    match k["c"].as_str().unwrap() {
        "int" => {
            let x = digits_i128(k);
            match k["w"].as_str().unwrap() {
                "i8" => Value::from(x as i8),
                "i16" => Value::from(x as i16),
                "i32" => Value::from(x as i32),
                "i64" => Value::from(x as i64),
                "u8" => Value::from(x as u8),
                "u16" => Value::from(x as u16),
                "u32" => Value::from(x as u32),
                _ => Value::from(x as u64),
            }
        }
        "nil" => Value::Nil,
        "null" => Value::Null,
        "bool" => Value::from(k["b"].as_bool().unwrap()),
        "char" => Value::from(char::from_u32(k["ch"].as_u64().unwrap() as u32).unwrap()),
        "str" => Value::from(j_string(&k["s"]).as_str()),
        "sym" => Value::symbol(j_string(&k["s"])),
        "kw" => Value::keyword(j_string(&k["s"])),
        "bytes" => Value::from(&j_bytes(&k["bv"])[..]),
        "pair" => Value::from((1u8, "x")),
        "vec" => Value::from(vec![Value::from(1u8), Value::Nil]),
        "float" => Value::from(float_of(k["f"].as_str().unwrap())),
        "f32" => Value::from(0.1f32),
        x => panic!("ctor {}", x),
    }
}

fn digits_j(x: u128) -> Vec<J> {
    x.to_string().bytes().map(|b| J::from(b - b'0')).collect()
}

/// Records which visitor method Number::visit calls, and with what.
struct Rec;
impl lexpr::number::Visitor for Rec {
    type Value = (J, Option<u64>);
    type Error = String;
    fn error<T: Into<String>>(msg: T) -> String {
        msg.into()
    }
    fn visit_u64(self, n: u64) -> Result<Self::Value, String> {
        Ok((json!({"m":"u64","neg":false,"d":digits_j(n as u128)}), None))
    }
    fn visit_i64(self, n: i64) -> Result<Self::Value, String> {
        Ok((json!({"m":"i64","neg": n < 0,"d":digits_j(n.unsigned_abs() as u128)}), None))
    }
    fn visit_f64(self, n: f64) -> Result<Self::Value, String> {
        Ok((json!({"m":"f64"}), Some(n.to_bits())))
    }
}

fn visit_of(v: &Value) -> (J, Option<u64>) {
    match v.as_number() {
        Some(n) => n.visit(Rec).unwrap_or_else(|e| (json!({"m":"error","why":e}), None)),
        None => (json!({"m":"none"}), None),
    }
}

fn opt_int(v: Option<i128>) -> J {
    match v {
        Some(x) => json!({"t":"some","neg": x < 0,"d": x.unsigned_abs().to_string().bytes().map(|b| J::from(b - b'0')).collect::<Vec<_>>()}),
        None => json!({"t":"none"}),
    }
}

fn kind_flags(v: &Value) -> Vec<(&'static str, bool, bool)> {
    // (kind, is_x, as_x.is_some())
    vec![
        ("nil", v.is_nil(), v.as_nil().is_some()),
        ("null", v.is_null(), v.as_null().is_some()),
        ("bool", v.is_boolean(), v.as_bool().is_some()),
        ("number", v.is_number(), v.as_number().is_some()),
        ("char", v.is_char(), v.as_char().is_some()),
        ("str", v.is_string(), v.as_str().is_some()),
        ("sym", v.is_symbol(), v.as_symbol().is_some()),
        ("kw", v.is_keyword(), v.as_keyword().is_some()),
        ("bytes", v.is_bytes(), v.as_bytes().is_some()),
        ("cons", v.is_cons(), v.as_cons().is_some()),
        ("vec", v.is_vector(), v.as_slice().is_some()),
    ]
}

macro_rules! cmp_all {
    ($v:expr, $x:expr, $($t:ty),*) => {{
        let mut out: Vec<(String, bool, bool, bool)> = Vec::new();
        $(
            if let Ok(p) = <$t>::try_from($x) {
                let v: &Value = $v;
                let mut vm = v.clone();
                out.push((stringify!($t).to_string(), *v == p, p == *v, (&*v) == p && (&mut vm) == p));
            }
        )*
        out
    }};
}

/// cfg: {"cases_file", "seed", "random"}
pub fn run(cfg: &J) -> J {
    let mut bad = Vec::new();
    let mut trace = Vec::new();
    let mut evals = 0u64;
    let mut ncases = 0u64;
    let mut check = |k: &J, c: Option<&J>, bad: &mut Vec<J>, trace: &mut Vec<J>, evals: &mut u64| {
        let v = build(k);
        let mk = |why: String| json!({"rule":"accessor","why":why,"k":k});
        // exactly one kind; is_x <=> as_x
        let flags = kind_flags(&v);
        let kinds: Vec<&str> = flags.iter().filter(|f| f.1).map(|f| f.0).collect();
        if kinds.len() != 1 {
            bad.push(mk(format!("{} kind predicates hold: {:?}", kinds.len(), kinds)));
        }
        for (kd, is, some) in &flags {
            if is != some {
                bad.push(mk(format!("is_{} = {} but as_{} is {}", kd, is, kd, if *some { "Some" } else { "None" })));
            }
        }
        let name_expected = v.is_string() || v.is_symbol() || v.is_keyword();
        if v.as_name().is_some() != name_expected {
            bad.push(mk("as_name is Some for the wrong kinds".into()));
        }
        if v.is_i64() != v.as_i64().is_some() || v.is_u64() != v.as_u64().is_some() || (v.is_f64() && v.as_f64().is_none()) {
            bad.push(mk("is_i64/is_u64/is_f64 disagree with as_i64/as_u64/as_f64".into()));
        }
        if v.is_number() != v.as_f64().is_some() {
            bad.push(mk("as_f64 must be Some exactly for numbers".into()));
        }
        // payload preserved
        let payload_ok = match k["c"].as_str().unwrap() {
            "int" => {
                let x = digits_i128(k);
                let a = v.as_i64().map(|y| y as i128);
                let b = v.as_u64().map(|y| y as i128);
                (a.is_none() || a == Some(x)) && (b.is_none() || b == Some(x)) && (a.is_some() || b.is_some())
                    && v.as_f64() == Some(if x < 0 { x as i64 as f64 } else { x as u64 as f64 })
            }
            "bool" => v.as_bool() == k["b"].as_bool(),
            "char" => v.as_char().map(|c| c as u64) == k["ch"].as_u64(),
            "str" => v.as_str() == Some(j_string(&k["s"]).as_str()) && v.as_name() == v.as_str(),
            "sym" => v.as_symbol() == Some(j_string(&k["s"]).as_str()) && v.as_name() == v.as_symbol(),
            "kw" => v.as_keyword() == Some(j_string(&k["s"]).as_str()) && v.as_name() == v.as_keyword(),
            "bytes" => v.as_bytes() == Some(&j_bytes(&k["bv"])[..]),
            "float" => v.as_f64().map(|f| f.to_bits()) == Some(float_of(k["f"].as_str().unwrap()).to_bits()) && v.as_i64().is_none() && v.as_u64().is_none(),
            "f32" => v.as_f64() == Some(f64::from(0.1f32)),
            "pair" => v.as_pair().map(|(a, d)| a.as_u64() == Some(1) && d.as_str() == Some("x")).unwrap_or(false),
            "vec" => v.as_slice().map(|s| s.len() == 2).unwrap_or(false),
            _ => true,
        };
        if !payload_ok {
            bad.push(mk("the conversion does not preserve the payload".into()));
        }
        *evals += 1;
        let asi = opt_int(v.as_i64().map(|x| x as i128));
        let asu = opt_int(v.as_u64().map(|x| x as i128));
        let (visit, fbits) = visit_of(&v);
        if fbits != v.as_number().filter(|n| n.is_f64()).and_then(|n| n.as_f64()).map(|f| f.to_bits()) {
            bad.push(mk("Number::visit hands visit_f64 another float than as_f64 returns".into()));
        }
        if let (Some(n), "int") = (v.as_number(), k["c"].as_str().unwrap()) {
            if n.to_string() != digits_i128(k).to_string() || v.to_string() != n.to_string() {
                bad.push(mk(format!("Display of the number is {} (value printed as {}), the payload is {}", n, v, digits_i128(k))));
            }
        }
        trace.push(json!({"ev":"num","k":k,"kind":kinds.first().unwrap_or(&"?"),"isi64":v.is_i64(),"isu64":v.is_u64(),"isf64":v.is_f64(),
                          "asi64":asi,"asu64":asu,"visit":visit}));
        if let Some(c) = c {
            for (key, got) in [("kind", json!(kinds.first().unwrap_or(&"?"))), ("isi64", json!(v.is_i64())), ("isu64", json!(v.is_u64())),
                               ("isf64", json!(v.is_f64())), ("asi64", asi.clone()), ("asu64", asu.clone()), ("visit", visit.clone())] {
                if c[key] != got {
                    bad.push(mk(format!("{}: got {} expected {}", key, got, c[key])));
                }
            }
            // comparisons with integer primitives of every width, both operand orders
            for pe in c["eqint"].as_array().unwrap() {
                let p = &pe["p"];
                let x = digits_i128(p);
                let w = p["w"].as_str().unwrap();
                let res = match w {
                    "i8" => cmp_all!(&v, x, i8),
                    "i16" => cmp_all!(&v, x, i16),
                    "i32" => cmp_all!(&v, x, i32),
                    "i64" => cmp_all!(&v, x, i64),
                    "u8" => cmp_all!(&v, x, u8),
                    "u16" => cmp_all!(&v, x, u16),
                    "u32" => cmp_all!(&v, x, u32),
                    _ => cmp_all!(&v, x, u64),
                };
                for (t, lr, rl, refs) in res {
                    *evals += 1;
                    let want = pe["eq"].as_bool().unwrap();
                    if lr != want || rl != want || refs != want {
                        bad.push(json!({"rule":"compare","why":format!("value == {}{} is {}, {} == value is {}, via references {}; comparing with the accessor gives {}", x, t, lr, x, rl, refs, want),"k":k,"p":p}));
                    }
                    trace.push(json!({"ev":"cmp","k":k,"p":p,"lr":lr,"rl":rl,"asi64":asi,"asu64":asu}));
                }
            }
            let (bt, bf) = (v == true && true == v, v == false && false == v);
            if bt != c["eqbool"]["t"].as_bool().unwrap() || bf != c["eqbool"]["f"].as_bool().unwrap() || (v == true) != (true == v) || (v == false) != (false == v) {
                bad.push(json!({"rule":"compare","why":"comparison with a bool differs from comparing with as_bool","k":k,"p":{"c":"bool"}}));
            }
            let (sa, se) = (v == "a", v == "");
            let sym = ("a" == v) == sa && (v == String::from("a")) == sa && (String::from("a") == v) == sa && (*"a" == v) == sa && ("" == v) == se;
            if sa != c["eqstr"]["a"].as_bool().unwrap() || se != c["eqstr"]["e"].as_bool().unwrap() || !sym {
                bad.push(json!({"rule":"compare","why":"comparison with a string differs from comparing with as_str","k":k,"p":{"c":"str"}}));
            }
        }
        // floats: relation between == and as_f64 (judged natively and by TLC)
        for f in [0.0f64, -0.0, 1.0, 1.5, 127.0, 255.0, 9007199254740992.0, 1e300, 18446744073709551615.0, -9223372036854775808.0, f64::NAN, f64::INFINITY, f64::from(0.1f32)] {
            *evals += 1;
            let (lr, rl) = (v == f, f == v);
            let want = v.as_f64().map_or(false, |g| g == f);
            if lr != want || rl != want {
                bad.push(json!({"rule":"compare","why":format!("== {:?}: {} / {}, as_f64 comparison gives {}", f, lr, rl, want),"k":k,"p":{"c":"float"}}));
            }
            if f as f32 as f64 == f || f.is_nan() {
                let g = f as f32;
                if (v == g) != v.as_f64().map_or(false, |h| h == f64::from(g)) || (g == v) != (v == g) {
                    bad.push(json!({"rule":"compare","why":format!("== {:?}f32 differs from comparing with as_f64", g),"k":k,"p":{"c":"f32"}}));
                }
            }
        }
    };
    if let Some(p) = cfg["cases_file"].as_str() {
        for line in std::fs::read_to_string(p).expect("cases").lines() {
            if line.trim().is_empty() {
                continue;
            }
            let c: J = serde_json::from_str(line).unwrap();
            ncases += 1;
            let k = c["k"].clone();
            check(&k, Some(&c), &mut bad, &mut trace, &mut evals);
        }
    }
    // seeded: random integers of random widths (trace-validated by TLC against the number model)
    let mut rng = rand::rngs::StdRng::seed_from_u64(cfg["seed"].as_u64().unwrap_or(1));
    for _ in 0..cfg["random"].as_u64().unwrap_or(500) {
        let w = ["i8", "i16", "i32", "i64", "u8", "u16", "u32", "u64"][rng.gen_range(0..8)];
        let x: i128 = match w {
            "i8" => rng.gen::<i8>() as i128,
            "i16" => rng.gen::<i16>() as i128,
            "i32" => rng.gen::<i32>() as i128,
            "i64" => rng.gen::<i64>() as i128,
            "u8" => rng.gen::<u8>() as i128,
            "u16" => rng.gen::<u16>() as i128,
            "u32" => rng.gen::<u32>() as i128,
            _ => rng.gen::<u64>() as i128,
        };
        let k = json!({"c":"int","w":w,"neg": x < 0,"d": x.unsigned_abs().to_string().bytes().map(|b| J::from(b - b'0')).collect::<Vec<_>>()});
        check(&k, None, &mut bad, &mut trace, &mut evals);
    }
    // float payloads: conversions from f32 / f64 preserve the value exactly (an f32 widens, it is not re-derived from its
    // decimal form), and == against the same primitive holds in both operand orders; also integers against the float
    // that as_f64 gives for them
    let mut floats32: Vec<f32> = vec![0.1, 0.3, 3.14159, 1e10, f32::MAX, f32::MIN_POSITIVE, f32::EPSILON, 1e-45, 16777216.0, -0.0, 2.5, 1e-10, -0.7];
    let mut floats64: Vec<f64> = vec![0.1, 0.3, 1e300, 5e-324, f64::MAX, f64::MIN_POSITIVE, 9007199254740993.0, -0.0, 2.5, 1e22, 1e23];
    for _ in 0..cfg["random"].as_u64().unwrap_or(500).min(20000) {
        let a = f32::from_bits(rng.gen());
        if a.is_finite() {
            floats32.push(a);
        }
        let b = f64::from_bits(rng.gen());
        if b.is_finite() {
            floats64.push(b);
        }
    }
    for p in floats32 {
        evals += 1;
        let v = Value::from(p);
        let ok = v.is_f64() && v.as_f64().map(|g| g.to_bits()) == Some(f64::from(p).to_bits()) && v == p && p == v && v == f64::from(p)
            && Number::from(p).as_f64().map(|g| g.to_bits()) == Some(f64::from(p).to_bits());
        if !ok {
            bad.push(json!({"rule":"accessor","why":format!("Value::from({:?}f32) does not preserve the payload: as_f64 = {:?}", p, v.as_f64()),"k":{"c":"f32","f":format!("{:?}", p)}}));
        }
    }
    for p in floats64 {
        evals += 1;
        let v = Value::from(p);
        // against the nearest f32: equal only if the payload is that f32 exactly (no rounding of the payload to single precision)
        let g = p as f32;
        let near = (v == g) == (p == f64::from(g)) && (g == v) == (v == g);
        let ok = near && v.is_f64() && v.as_f64().map(|g| g.to_bits()) == Some(p.to_bits()) && v == p && p == v && !v.is_i64() && !v.is_u64();
        if !ok {
            bad.push(json!({"rule":"accessor","why":format!("Value::from({:?}) does not preserve the payload: as_f64 = {:?}", p, v.as_f64()),"k":{"c":"f64","f":format!("{:?}", p)}}));
        }
    }
    for n in [0i64, 1, -1, 3, -64, 255, 1 << 53, (1 << 53) + 1, i64::MAX, i64::MIN] {
        evals += 1;
        let v = Value::from(n);
        let f = v.as_f64().unwrap_or(f64::NAN);
        if !((v == f) && (f == v) && (v == f as f32) == (f64::from(f as f32) == f)) {
            bad.push(json!({"rule":"compare","why":format!("integer {} against the float as_f64 gives ({:?})", n, f),"k":{"c":"int","w":"i64","n":n.to_string()}}));
        }
    }
    // non-finite payloads: the From conversions keep them (only Number::from_f64 refuses them); == follows as_f64
    for (name, p) in [("inf", f64::INFINITY), ("-inf", f64::NEG_INFINITY), ("nan", f64::NAN)] {
        for single in [false, true] {
            evals += 1;
            let (v, n) = if single { (Value::from(p as f32), Number::from(p as f32)) } else { (Value::from(p), Number::from(p)) };
            let same = |g: Option<f64>| g.map_or(false, |g| g.to_bits() == p.to_bits() || (g.is_nan() && p.is_nan()));
            let want_eq = !p.is_nan();
            let ok = v.is_number() && v.is_f64() && !v.is_i64() && !v.is_u64() && !v.is_nil() && same(v.as_f64()) && same(n.as_f64())
                && (v == p) == want_eq && (p == v) == want_eq && (v == p as f32) == want_eq && (v == Value::from(n.clone())) == want_eq
                && kind_flags(&v).iter().filter(|f| f.1).count() == 1;
            if !ok {
                bad.push(json!({"rule":"accessor","why":format!("Value::from({}{}) does not hold that float: is_number {}, as_f64 {:?}", name, if single { "f32" } else { "f64" }, v.is_number(), v.as_f64()),
                                "k":{"c": if single { "f32" } else { "f64" },"f":name}}));
            }
        }
    }
    // Number::from_f64 rejects non-finite values
    if Number::from_f64(f64::NAN).is_some() || Number::from_f64(f64::INFINITY).is_some() || Number::from_f64(1.0).is_none() {
        bad.push(json!({"rule":"accessor","why":"Number::from_f64 must accept exactly the finite doubles","k":{"c":"float"}}));
    }
    json!({"bad": bad, "trace": trace, "evaluations": evals, "tlc_cases": ncases})
}

pub fn replay_case(case: &J) -> J {
    let cfg = json!({"random": 0});
    let _ = cfg;
    let mut bad = Vec::new();
    let v = build(&case["k"]);
    let kinds = kind_flags(&v).iter().filter(|f| f.1).count();
    if kinds != 1 {
        bad.push(json!({"rule":"accessor","why":"not exactly one kind","k":case["k"]}));
    }
    json!({"bad": bad, "trace": []})
}
