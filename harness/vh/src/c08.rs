//! C08: each parser option changes exactly the tokens it is documented to govern.
//!
//! TLC (spec/mc/C08.tla) supplies, for every input (corpus token in a syntactic context), the
//! option dimensions the input exercises and the expected outcome for every value combination
//! of those dimensions. The harness parses the input under all 1536 option sets.

use crate::codec::*;
use serde_json::{json, Value as J};
use std::collections::{BTreeMap, HashMap, HashSet};

fn dim_value(ro: &J, d: &str) -> J {
    match d {
        "kw1" => ro["kw"][0].clone(),
        "kw2" => ro["kw"][1].clone(),
        "kw3" => ro["kw"][2].clone(),
        "nil" => ro["nil"].clone(),
        "t" => ro["t"].clone(),
        "br" => ro["br"].clone(),
        "str" => ro["str"].clone(),
        "chr" => ro["chr"].clone(),
        "racket" => ro["racket"].clone(),
        "digits" => ro["digits"].clone(),
        x => panic!("dim {}", x),
    }
}

fn proj_key(ro: &J, dims: &[String]) -> String {
    let mut m = BTreeMap::new();
    for d in dims {
        m.insert(d.clone(), dim_value(ro, d));
    }
    serde_json::to_string(&m).unwrap()
}

fn proj_key_of_record(p: &J) -> String {
    // TLC prints an empty function as an empty array
    let mut m = BTreeMap::new();
    if let Some(o) = p.as_object() {
        for (k, v) in o {
            m.insert(k.clone(), v.clone());
        }
    }
    serde_json::to_string(&m).unwrap()
}

fn contains_number(v: &J) -> bool {
    match v["k"].as_str() {
        Some("num") => true,
        Some("cons") => contains_number(&v["car"]) || contains_number(&v["cdr"]),
        Some("vec") => v["e"].as_array().map(|a| a.iter().any(contains_number)).unwrap_or(false),
        _ => false,
    }
}

fn has_uncomparable_float(v: &J) -> bool {
    match v["k"].as_str() {
        Some("num") => {
            let n = &v["n"];
            if n["t"] == "int" {
                return false;
            }
            if n["t"] != "flt" {
                return true;
            }
            let len = n["d"].as_array().map(|a| a.len()).unwrap_or(99) as i64;
            let e = n["e"].as_i64().unwrap_or(0);
            let zero = n["d"] == json!([0]);
            !(zero || (len <= 15 && len + e > -290 && len + e < 290))
        }
        Some("cons") => has_uncomparable_float(&v["car"]) || has_uncomparable_float(&v["cdr"]),
        Some("vec") => v["e"].as_array().map(|a| a.iter().any(has_uncomparable_float)).unwrap_or(false),
        _ => false,
    }
}

/// None = agrees (or the documentation does not determine the answer)
pub fn judge(exp: &J, res: &J) -> Option<&'static str> {
    let r = res["r"].as_str().unwrap_or("?");
    if r == "panic" {
        return Some("parser panicked");
    }
    match exp["t"].as_str().unwrap() {
        "ok" => {
            if r != "ok" {
                Some("documented reading is a value, the implementation fails")
            } else if res["v"] == exp["v"] || has_uncomparable_float(&exp["v"]) {
                None
            } else {
                Some("the implementation reads a different value")
            }
        }
        "rej" | "inc" | "trailing" => {
            if r == "err" {
                None
            } else {
                Some("malformed per documentation, accepted by the implementation")
            }
        }
        "nonum" => {
            if r == "ok" && contains_number(&res["v"]) {
                Some("a token that is not a numeric literal was read as a number")
            } else {
                None
            }
        }
        _ => None,
    }
}

/// The same option set built with the builder calls in the opposite order (booleans first, keyword syntaxes last,
/// one at a time through the accumulating method).
fn parse_opts_reversed(j: &J) -> lexpr::parse::Options {
    use lexpr::parse::{Brackets, KeywordSyntax, NilSymbol, Options, TSymbol};
    use lexpr::print::{CharSyntax, StringSyntax};
    let mut o = Options::new();
    o = o.with_leading_digit_symbols(j["digits"].as_bool().unwrap());
    o = o.with_racket_hash_percent_symbols(j["racket"].as_bool().unwrap());
    o = o.with_char_syntax(if j["chr"] == "elisp" { CharSyntax::Elisp } else { CharSyntax::R6RS });
    o = o.with_string_syntax(if j["str"] == "elisp" { StringSyntax::Elisp } else { StringSyntax::R6RS });
    o = o.with_brackets(if j["br"] == "vec" { Brackets::Vector } else { Brackets::List });
    o = o.with_t_symbol(if j["t"] == "true" { TSymbol::True } else { TSymbol::Default });
    o = o.with_nil_symbol(match j["nil"].as_str().unwrap() { "null" => NilSymbol::EmptyList, "special" => NilSymbol::Special, _ => NilSymbol::Default });
    // replace first (with nothing), then accumulate
    o = o.with_keyword_syntaxes(Vec::<KeywordSyntax>::new());
    let kw = j["kw"].as_array().unwrap();
    if kw[2].as_bool().unwrap() { o = o.with_keyword_syntax(KeywordSyntax::ColonPostfix); }
    if kw[1].as_bool().unwrap() { o = o.with_keyword_syntax(KeywordSyntax::ColonPrefix); }
    if kw[0].as_bool().unwrap() { o = o.with_keyword_syntax(KeywordSyntax::Octothorpe); }
    o
}

pub fn parse_res_reversed(text: &[u8], ro: &J) -> J {
    let o = parse_opts_reversed(ro);
    let t = text.to_vec();
    guarded(move || match std::str::from_utf8(&t) {
        Ok(s) => res_json(&lexpr::from_str_custom(s, o)),
        Err(_) => res_json(&lexpr::from_slice_custom(&t, o)),
    })
}

pub fn parse_res(text: &[u8], ro: &J) -> J {
    let o = parse_opts(ro);
    let t = text.to_vec();
    guarded(move || match std::str::from_utf8(&t) {
        Ok(s) => res_json(&lexpr::from_str_custom(s, o)),
        Err(_) => res_json(&lexpr::from_slice_custom(&t, o)),
    })
}

/// cfg: {"cases_file": ndjson of {text, dims, proj, exp}, "trace_per_input": n}
pub fn run(cfg: &J) -> J {
    let data = std::fs::read_to_string(cfg["cases_file"].as_str().unwrap()).expect("cases");
    // text -> (dims, key -> exp)
    let mut inputs: Vec<(Vec<u8>, Vec<String>, HashMap<String, J>)> = Vec::new();
    let mut index: HashMap<Vec<u8>, usize> = HashMap::new();
    for line in data.lines() {
        if line.trim().is_empty() {
            continue;
        }
        let c: J = serde_json::from_str(line).unwrap();
        let text = j_bytes(&c["text"]);
        let mut dims: Vec<String> = c["dims"].as_array().unwrap().iter().map(|d| d.as_str().unwrap().to_string()).collect();
        dims.sort();
        let ix = *index.entry(text.clone()).or_insert_with(|| {
            inputs.push((text.clone(), dims.clone(), HashMap::new()));
            inputs.len() - 1
        });
        inputs[ix].2.insert(proj_key_of_record(&c["proj"]), c["exp"].clone());
    }
    let all = all_parse_opts();
    let per_input = cfg["trace_per_input"].as_u64().unwrap_or(10) as usize;
    let mut bad = Vec::new();
    let mut trace = Vec::new();
    let mut evals = 0u64;
    let mut classes = 0u64;
    let mut distinct: HashSet<(usize, String)> = HashSet::new();
    let mut missing = 0u64;
    for (ii, (text, dims, table)) in inputs.iter().enumerate() {
        let mut by_class: HashMap<String, (J, J)> = HashMap::new(); // key -> (first ro, first result)
        for (oi, ro) in all.iter().enumerate() {
            evals += 1;
            let res = parse_res(text, ro);
            // the same option set assembled in the opposite builder order must behave the same (sampled)
            if (oi + ii) % 16 == 0 {
                evals += 1;
                let rev = parse_res_reversed(text, ro);
                if rev != res {
                    bad.push(json!({"rule":"interference","why":"the result depends on the order in which the option set was built","text":bytes_j(text),"ro":ro,
                                    "ro0":ro,"res":rev,"res0":res,"dims":dims}));
                }
            }
            let key = proj_key(ro, dims);
            match table.get(&key) {
                Some(exp) => {
                    if let Some(why) = judge(exp, &res) {
                        bad.push(json!({"rule":"classifier","why":why,"text":bytes_j(text),"ro":ro,"exp":exp,"res":res}));
                    }
                    distinct.insert((ii, key.clone()));
                }
                None => missing += 1,
            }
            // implementation-only relation: same exercised options => identical result
            match by_class.get(&key) {
                None => {
                    by_class.insert(key, (ro.clone(), res.clone()));
                }
                Some((ro0, res0)) => {
                    if *res0 != res {
                        bad.push(json!({"rule":"interference","why":"two option sets that differ only in options the input does not exercise give different results",
                                        "text":bytes_j(text),"ro":ro,"ro0":ro0,"res":res,"res0":res0,"dims":dims}));
                    }
                }
            }
            if (oi * 7 + ii * 13) % 1536 < per_input * 7 && (oi * 7 + ii * 13) % 7 == 0 || oi == 0 {
                trace.push(json!({"ev":"parsed","text":bytes_j(text),"ro":ro,"res":res}));
            }
        }
        classes += by_class.len() as u64;
    }
    json!({"bad": bad, "trace": trace, "evaluations": evals, "inputs": inputs.len(), "classes": classes,
           "distinct": distinct.len(), "missing_expectations": missing})
}

pub fn replay_case(case: &J) -> J {
    let text = j_bytes(&case["text"]);
    let res = parse_res(&text, &case["ro"]);
    let mut bad = Vec::new();
    if let Some(exp) = case.get("exp") {
        if !exp.is_null() {
            if let Some(why) = judge(exp, &res) {
                bad.push(json!({"rule":"classifier","why":why,"text":case["text"],"ro":case["ro"],"exp":exp,"res":res}));
            }
        }
    }
    if let Some(ro0) = case.get("ro0") {
        if !ro0.is_null() {
            let res0 = parse_res(&text, ro0);
            if res0 != res {
                bad.push(json!({"rule":"interference","why":"results differ","text":case["text"],"ro":case["ro"],"ro0":ro0,"res":res,"res0":res0}));
            }
        }
    }
    json!({"bad": bad, "trace": [json!({"ev":"parsed","text":case["text"],"ro":case["ro"],"res":res})]})
}
