//! C05: numeric literals denote their exact mathematical value.
//!
//! TLC (spec/mc/C05.tla) supplies literals of the grammar with their denotation; the harness adds
//! seeded random literals built from components (so that their exact value is known without
//! parsing them). Each literal is parsed with lexpr; integers are compared exactly, floats are
//! classified: "exact" = equal to the correctly rounded double (std's str::parse::<f64>, which is
//! independent of the code under test), "w50" = within relative error 2^-50 (big-integer
//! arithmetic, big.rs), "bad" otherwise. TLC judges the events (spec/trace/C05Trace.tla).

use crate::big::*;
use crate::codec::*;
use lexpr::{Number, Value};
use rand::{Rng, SeedableRng};
use serde_json::{json, Value as J};
use std::collections::HashSet;

/// exact value of a literal: sign, decimal digits D (as Big) and power of ten k: value = D * 10^k
pub struct Exact {
    pub neg: bool,
    pub d: Big,
    pub k: i64,
    /// text std's float parser understands, for the correctly rounded reference (decimal literals only)
    pub std_text: Option<String>,
}

fn parse_lit(text: &[u8]) -> J {
    let t = text.to_vec();
    guarded(move || match std::str::from_utf8(&t) {
        Ok(s) => match lexpr::from_str(s) {
            Ok(Value::Number(n)) => json!({"r":"ok","n":num_to_json(&n)}),
            Ok(v) => json!({"r":"other","v":val_to_json(&v)}),
            Err(e) => err_json(&e),
        },
        Err(_) => json!({"r":"notutf8"}),
    })
}

fn as_number(text: &[u8]) -> Option<Number> {
    match std::str::from_utf8(text).ok().and_then(|s| lexpr::from_str(s).ok()) {
        Some(Value::Number(n)) => Some(n),
        _ => None,
    }
}

/// Accuracy class achieved for a literal whose exact value is known.
fn achieved(text: &[u8], ex: &Exact) -> &'static str {
    let n = match std::panic::catch_unwind(|| as_number(text)) {
        Ok(Some(n)) => n,
        _ => return "na",
    };
    if !n.is_f64() {
        return "na";
    }
    let f = n.as_f64().unwrap();
    if !f.is_finite() {
        return "bad";
    }
    if ex.d.is_zero() {
        return if f == 0.0 && f.is_sign_negative() == ex.neg { "exact" } else { "bad" };
    }
    if f.is_sign_negative() != ex.neg && f != 0.0 {
        return "bad";
    }
    if let Some(st) = &ex.std_text {
        if let Ok(g) = st.parse::<f64>() {
            if g.to_bits() == f.to_bits() {
                return "exact";
            }
        }
    } else {
        // integer literal in some radix: the correctly rounded double of the exact integer
        // is not available from std; exactness is only claimed when the error is zero
        let (m, e) = decompose(f);
        let mut a = Big::from_u64(m);
        if e >= 0 {
            a.shl(e as u32);
            let mut b = ex.d.clone();
            if ex.k > 0 {
                b.mul_pow10(ex.k as u32);
            }
            if a == b {
                return "exact";
            }
        }
    }
    match accuracy(f.abs(), &ex.d, ex.k) {
        Accuracy::Within => "w50",
        Accuracy::Bad => "bad",
    }
}

fn digits_to_big(d: &J) -> Big {
    let ds: Vec<u8> = d.as_array().unwrap().iter().map(|x| x.as_u64().unwrap() as u8).collect();
    Big::from_digits(&ds, 10)
}

fn std_text_of(text: &[u8]) -> Option<String> {
    // decimal literals only (no radix prefix); std accepts the same grammar
    if text.first() == Some(&b'#') {
        return None;
    }
    std::str::from_utf8(text).ok().map(|s| s.to_string())
}

pub struct Runner {
    pub bad: Vec<J>,
    pub trace: Vec<J>,
    pub evals: u64,
    pub distinct: HashSet<Vec<u8>>,
}

impl Runner {
    /// `den`: the denotation record (t, neg, d, e) - from TLC or built by the generator
    pub fn literal(&mut self, text: &[u8], den: &J, cls: &str, src: &str) {
        self.literal_with(text, den, cls, src, None)
    }

    /// `exact`: the exact value (neg, decimal digits, power of ten) when the denotation record does not carry it
    pub fn literal_with(&mut self, text: &[u8], den: &J, cls: &str, src: &str, exact: Option<(bool, Vec<u8>, i64)>) {
        self.evals += 1;
        self.distinct.insert(text.to_vec());
        let res = parse_lit(text);
        let t = den["t"].as_str().unwrap();
        let ach = match (t, &exact) {
            ("big", _) | ("flt", _) => {
                let ex = Exact { neg: den["neg"].as_bool().unwrap(), d: digits_to_big(&den["d"]), k: den.get("e").and_then(|e| e.as_i64()).unwrap_or(0),
                                 std_text: std_text_of(text) };
                achieved(text, &ex)
            }
            (_, Some((neg, ds, k))) => achieved(text, &Exact { neg: *neg, d: Big::from_digits(ds, 10), k: *k, std_text: std_text_of(text) }),
            _ => "na",
        };
        // native judgement (TLC re-judges from the literal text with its own Denote)
        let why: Option<String> = match t {
            "int" => {
                let want = json!({"t":"int","neg":den["neg"],"d":den["d"]});
                if res["r"] == "ok" && res["n"] == want { None } else { Some(format!("integer literal must be read exactly, got {}", res)) }
            }
            "big" => {
                if res["r"] == "ok" && res["n"]["t"] == "flt" && ach != "bad" { None } else { Some(format!("out-of-range integer must become a float approximating it, got {} ({})", res, ach)) }
            }
            "flt" => {
                if res["r"] != "ok" || res["n"]["t"] != "flt" {
                    Some(format!("decimal literal must be read as a float, got {}", res))
                } else if ach == "bad" {
                    Some(format!("float differs from the true value by more than 2^-50: got {}", res))
                } else if cls == "exact" && ach != "exact" {
                    Some(format!("literal must be correctly rounded, got {}", res))
                } else {
                    None
                }
            }
            "range" => {
                if res["r"] == "err" { None } else { Some(format!("magnitude beyond the largest double must be rejected, got {}", res)) }
            }
            _ => None,
        };
        if let Some(w) = why {
            self.bad.push(json!({"rule":"literal","why":w,"text":bytes_j(text),"den":den,"cls":cls,"src":src}));
        }
        self.trace.push(json!({"ev":"lit","text":bytes_j(text),"res":res,"ach":ach,"fast":crate::FAST_FLOAT}));
    }

    /// printer side: every number the printer emits is a literal of the grammar and reads back the same
    pub fn printed(&mut self, n: &Number) {
        self.evals += 1;
        let v = Value::Number(n.clone());
        let text = match lexpr::to_string(&v) {
            Ok(t) => t,
            Err(e) => {
                self.bad.push(json!({"rule":"print","why":e.to_string(),"n":num_to_json(n)}));
                return;
            }
        };
        let back = as_number(text.as_bytes());
        let ok = match &back {
            Some(b) => crate::cmp::value_matches(&v, &Value::Number(b.clone()), crate::cmp::float_rule()).is_ok(),
            None => false,
        };
        if !ok {
            self.bad.push(json!({"rule":"print","why":format!("printed number {:?} reads back as {:?}", text, back),"n":num_to_json(n),"text":bytes_j(text.as_bytes())}));
        }
        self.distinct.insert(text.clone().into_bytes());
        self.trace.push(json!({"ev":"printed-num","text":bytes_j(text.as_bytes()),"n":num_to_json(n)}));
    }
}

fn den_int(neg: bool, digits: &[u8], radix: u32) -> J {
    // exact integer value -> denotation record with decimal digits
    let big = Big::from_digits(digits, radix);
    // convert to decimal digits through repeated division is not available; use u128 when it fits, else string maths
    let dec = big_to_decimal(&big);
    let dj: Vec<J> = dec.bytes().map(|b| J::from(b - b'0')).collect();
    let zero = dec == "0";
    let in_range = if neg { dec_leq(&dec, "9223372036854775808") } else { dec_leq(&dec, "18446744073709551615") };
    if !in_range && dec.len() >= 310 {
        return json!({"t":"range"});
    }
    if !in_range && dec.len() == 309 {
        // against the largest double 1.7976931348623157e308 (same bands as spec/NumLit.tla Magnitude)
        let pad = &dec[..17];
        if pad >= "17976931348623175" {
            return json!({"t":"range"});
        }
        if pad > "17976931348623157" {
            return json!({"t":"edge"});
        }
    }
    json!({"t": if in_range {"int"} else {"big"}, "neg": neg && !zero, "d": dj})
}

fn dec_leq(a: &str, b: &str) -> bool {
    a.len() < b.len() || (a.len() == b.len() && a <= b)
}

fn big_to_decimal(b: &Big) -> String {
    // schoolbook: repeated division of the limb vector by 10^9
    let mut limbs: Vec<u32> = b.limbs();
    if limbs.is_empty() {
        return "0".into();
    }
    let mut parts: Vec<u32> = Vec::new();
    while !limbs.is_empty() {
        let mut rem = 0u64;
        for l in limbs.iter_mut().rev() {
            let cur = (rem << 32) | *l as u64;
            *l = (cur / 1_000_000_000) as u32;
            rem = cur % 1_000_000_000;
        }
        parts.push(rem as u32);
        while limbs.last() == Some(&0) {
            limbs.pop();
        }
    }
    let mut s = format!("{}", parts.pop().unwrap());
    while let Some(p) = parts.pop() {
        s.push_str(&format!("{:09}", p));
    }
    s
}

/// cfg: {"cases_file": ndjson of {lit, den, cfast, cslow}, "seed", "random": n}
pub fn run(cfg: &J) -> J {
    let mut r = Runner { bad: vec![], trace: vec![], evals: 0, distinct: HashSet::new() };
    let clskey = if crate::FAST_FLOAT { "cfast" } else { "cslow" };
    let mut ncases = 0u64;
    if let Some(p) = cfg["cases_file"].as_str() {
        for line in std::fs::read_to_string(p).expect("cases").lines() {
            if line.trim().is_empty() {
                continue;
            }
            let c: J = serde_json::from_str(line).unwrap();
            ncases += 1;
            r.literal(&j_bytes(&c["lit"]), &c["den"], c[clskey].as_str().unwrap(), "tlc");
        }
    }
    let mut rng = rand::rngs::StdRng::seed_from_u64(cfg["seed"].as_u64().unwrap_or(1));
    let n = cfg["random"].as_u64().unwrap_or(3000);
    for i in 0..n {
        if i % 3 == 0 {
            // radix integer literals: random digit strings up to 400 digits
            let (radix, prefix): (u32, &[u8]) = *[(2u32, &b"#b"[..]), (8, b"#o"), (10, b"#d"), (16, b"#x"), (10, b"")].get(rng.gen_range(0..5)).unwrap();
            let len = if rng.gen_ratio(1, 12) { rng.gen_range(1..400) } else { rng.gen_range(1..70) };
            let mut digits: Vec<u8> = (0..len).map(|_| rng.gen_range(0..radix) as u8).collect();
            if rng.gen_ratio(1, 3) {
                for d in digits.iter_mut().take(rng.gen_range(0..4)) {
                    *d = 0;
                }
            }
            let sign = [&b""[..], b"+", b"-"][rng.gen_range(0..3)];
            let mut text = prefix.to_vec();
            text.extend_from_slice(sign);
            for &d in &digits {
                text.push(if d < 10 { b'0' + d } else if rng.gen_ratio(1, 2) { b'a' + d - 10 } else { b'A' + d - 10 });
            }
            let den = den_int(sign == b"-", &digits, radix);
            r.literal(&text, &den, den["t"].as_str().unwrap(), "random-int");
        } else if i % 3 == 1 {
            // decimal literals from components
            let il = rng.gen_range(1..25);
            let fl = if rng.gen_ratio(1, 3) { 0 } else { rng.gen_range(1..25) };
            let mut ip: Vec<u8> = (0..il).map(|_| rng.gen_range(0..10)).collect();
            let mut fp: Vec<u8> = (0..fl).map(|_| rng.gen_range(0..10)).collect();
            if fl > 0 && rng.gen_ratio(1, 3) {
                // runs of zeros: a zero integer part, zeros leading and trailing the fraction (held back by the reader
                // until a non-zero digit follows)
                if rng.gen_ratio(2, 3) {
                    ip = vec![0; rng.gen_range(1..3)];
                }
                let mut z = vec![0u8; rng.gen_range(0..48)];
                z.extend(fp.iter());
                if rng.gen_ratio(1, 3) {
                    z.extend(std::iter::repeat(0).take(rng.gen_range(1..30)));
                    z.push(rng.gen_range(0..10));
                }
                fp = z;
            }
            let fl = fp.len();
            let has_exp = fl == 0 || rng.gen_ratio(1, 2);
            let exp: i64 = if has_exp { *[0i64, 1, -1, 22, -22, 23, 300, -300, 308, -308, -320, -330, 5, -5, 15].get(rng.gen_range(0..15)).unwrap() + rng.gen_range(-3..4) } else { 0 };
            let neg = rng.gen_ratio(1, 3);
            let mut text = Vec::new();
            if neg {
                text.push(b'-');
            } else if rng.gen_ratio(1, 6) {
                text.push(b'+');
            }
            text.extend(ip.iter().map(|d| b'0' + d));
            if fl > 0 {
                text.push(b'.');
                text.extend(fp.iter().map(|d| b'0' + d));
            }
            if has_exp {
                text.push(if rng.gen_ratio(1, 2) { b'e' } else { b'E' });
                text.extend_from_slice(format!("{}", exp).as_bytes());
            }
            // denotation: digits = ip ++ fp normalised, k = exp - fl (+ stripped zeros)
            let mut all: Vec<u8> = ip.iter().chain(fp.iter()).cloned().collect();
            let mut k = exp - fl as i64;
            while all.len() > 1 && all[0] == 0 {
                all.remove(0);
            }
            while all.len() > 1 && *all.last().unwrap() == 0 {
                all.pop();
                k += 1;
            }
            let zero = all == [0];
            let den = if zero {
                json!({"t":"flt","neg":neg,"d":[0],"e":0})
            } else {
                let mag = all.len() as i64 + k;
                // mirror of NumLit!Magnitude
                let pad: String = all.iter().map(|d| (b'0' + d) as char).chain(std::iter::repeat('0')).take(17).collect();
                let cls = if mag >= 310 { "range" } else if mag <= 308 { "ok" }
                          else if pad.as_str() <= "17976931348623157" { "ok" } else if pad.as_str() >= "17976931348623175" { "range" } else { "edge" };
                if cls == "ok" {
                    json!({"t":"flt","neg":neg,"d":all.iter().map(|d| J::from(*d)).collect::<Vec<_>>(),"e":k})
                } else {
                    json!({"t":cls})
                }
            };
            // required class (mirror of NumLit!ClassOfDecimal: the digits as written; TLC recomputes it from the text)
            let mut raw: Vec<u8> = ip.iter().chain(fp.iter()).cloned().collect();
            while raw.len() > 1 && raw[0] == 0 {
                raw.remove(0);
            }
            let re = exp - fl as i64;
            let cls = if den["t"] != "flt" {
                den["t"].as_str().unwrap().to_string()
            } else if zero {
                "exact".to_string()
            } else {
                let fits = raw.len() < 16 || (raw.len() == 16 && dec_leq(&raw.iter().map(|d| (b'0' + d) as char).collect::<String>(), "9007199254740992"));
                if fits && (-22..=22).contains(&re) {
                    "exact".to_string()
                } else if !crate::FAST_FLOAT && raw.len() <= 19 {
                    "exact".to_string()
                } else {
                    "within2^-50".to_string()
                }
            };
            r.literal_with(&text, &den, &cls, "random-dec", if zero { None } else { Some((neg, all.clone(), k)) });
        } else {
            // all doubles via their shortest printed form
            let f = loop {
                let f = f64::from_bits(rng.gen::<u64>());
                if f.is_finite() {
                    break f;
                }
            };
            r.printed(&Number::from(f));
            r.printed(&Number::from(rng.gen::<u64>()));
            r.printed(&Number::from(rng.gen::<i64>()));
        }
    }
    for f in crate::gen::boundary_f64() {
        r.printed(&Number::from(f));
        r.printed(&Number::from(-f));
    }
    for u in crate::gen::boundary_u64() {
        r.printed(&Number::from(u));
    }
    for i in crate::gen::boundary_i64() {
        r.printed(&Number::from(i));
    }
    json!({"bad": r.bad, "trace": r.trace, "evaluations": r.evals, "tlc_cases": ncases, "random": n, "distinct": r.distinct.len(),
           "fast_float": crate::FAST_FLOAT})
}

pub fn replay_case(case: &J) -> J {
    let mut r = Runner { bad: vec![], trace: vec![], evals: 0, distinct: HashSet::new() };
    if case.get("den").is_some() {
        r.literal(&j_bytes(&case["text"]), &case["den"], case["cls"].as_str().unwrap_or("within2^-50"), "replay");
    } else {
        r.printed(&json_to_num(&case["n"]));
    }
    json!({"bad": r.bad, "trace": r.trace})
}
