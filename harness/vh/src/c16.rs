//! C16: stack use does not grow with the number of list elements.
//!
//! Each cell (operation x shape x builder) of the matrix generated from spec/StackModel.tla is
//! executed in a child process, inside a thread with a fixed 2 MiB stack, on a list of n
//! elements; the observation is whether the child survives.

use lexpr::{Cons, Datum, Value};
use serde_json::{json, Value as J};
use std::io::Write;

fn list_text(n: usize, dotted: bool) -> String {
    let mut s = String::with_capacity(n * 2 + 16);
    s.push('(');
    for i in 0..n {
        if i > 0 {
            s.push(' ');
        }
        s.push(char::from(b'0' + (i % 10) as u8));
    }
    if dotted {
        s.push_str(" . x");
    }
    s.push(')');
    s
}

fn build(builder: &str, n: usize, dotted: bool) -> Value {
    match builder {
        "parser" => lexpr::from_str(&list_text(n, dotted)).expect("parse"),
        "serde" => {
            let v: Vec<u8> = (0..n).map(|i| (i % 10) as u8).collect();
            let mut val = serde_lexpr::to_value(&v).expect("to_value");
            if dotted {
                // attach a non-null tail to the last cell: rebuild through the consuming iterator
                if let Value::Cons(c) = val {
                    let items: Vec<Value> = c.into_iter().map(|(x, _)| x).collect();
                    val = Value::append(items, Value::symbol("x"));
                }
            }
            val
        }
        _ => {
            let tail = if dotted { Value::symbol("x") } else { Value::Null };
            Value::append((0..n).map(|i| Value::from((i % 10) as u64)), tail)
        }
    }
}

fn datum_of(n: usize, dotted: bool) -> Datum {
    // from a stream: the slice-based sources compute positions on demand (quadratic in the input length)
    lexpr::datum::from_reader(list_text(n, dotted).as_bytes()).expect("parse datum")
}

/// Runs one cell; returns a short description of what was computed (to keep the optimiser honest).
fn run_cell(op: &str, builder: &str, n: usize, dotted: bool) -> String {
    let needs_value = !matches!(op, "parse_value" | "parse_datum" | "datum_clone" | "datum_eq" | "datum_drop" | "datum_walk" | "parse_dotted_chain" | "eq_differing" | "drop_in_unwind" | "serde_to_value" | "serde_from_map"
                                   | "serde_to_value_map" | "serde_from_str" | "serde_to_string");
    let v = if needs_value { build(builder, n, dotted) } else { Value::Null };
    match op {
        "parse_value" => format!("{}", lexpr::from_str(&list_text(n, dotted)).map(|v| v.is_cons()).unwrap_or(false)),
        "parse_datum" => format!("{}", lexpr::datum::from_reader(list_text(n, dotted).as_bytes()).map(|d| d.value().is_cons()).unwrap_or(false)),
        "print" => format!("{}", lexpr::to_string(&v).map(|s| s.len()).unwrap_or(0)),
        "display" => format!("{}", format!("{}", v).len()),
        "cons_to_vec" => format!("{}", v.as_cons().map(|c| c.to_vec().0.len()).unwrap_or(0)),
        "cons_to_ref_vec" => format!("{}", v.as_cons().map(|c| c.to_ref_vec().0.len()).unwrap_or(0)),
        "cons_into_vec" => match v {
            Value::Cons(c) => format!("{}", c.into_vec().0.len()),
            _ => "0".into(),
        },
        "value_to_vec" => format!("{:?}", v.to_vec().map(|x| x.len())),
        "list_iter" => format!("{}", v.list_iter().map(|it| it.count()).unwrap_or(0)),
        "cell_iter" => format!("{}", v.as_cons().map(|c| c.iter().count()).unwrap_or(0)),
        "into_iter" => match v {
            Value::Cons(c) => format!("{}", c.into_iter().count()),
            _ => "0".into(),
        },
        "index_last" => format!("{}", v.get(n.saturating_sub(1)).is_some() && v[n + 5].is_nil()),
        "index_str" => format!("{}", v.get("nokey").is_none() && v[&Value::symbol("k")].is_nil()),
        "is_list" => format!("{}", v.is_list()),
        "is_dotted_list" => format!("{}", v.is_dotted_list()),
        "clone" => {
            let w = v.clone();
            format!("{}", w.is_cons())
        }
        "eq" => {
            let w = build(builder, n, dotted);
            format!("{}", v == w)
        }
        "drop" => {
            drop(v);
            "dropped".into()
        }
        "clone_from" => {
            // Clone::clone_from, which a type may specialise: on the value, on the cells themselves, and through
            // containers that forward it; destinations of the same length, shorter, and of the other shape
            let src = build(builder, n, dotted);
            let mut same = v;
            let mut shorter = build(builder, n / 2 + 1, dotted);
            let mut other = build(builder, n, !dotted);
            same.clone_from(&src);
            shorter.clone_from(&src);
            if let (Value::Cons(a), Value::Cons(b)) = (&mut other, &src) {
                a.clone_from(b);
            }
            let mut va: Vec<Value> = vec![build(builder, n, dotted), Value::Nil];
            let vb: Vec<Value> = vec![build(builder, n, !dotted)];
            va.clone_from(&vb);
            let mut oa = build(builder, n, dotted).as_cons().cloned();
            let ob = src.as_cons().cloned();
            oa.clone_from(&ob);
            format!("{} {} {} {} {}", same == src, shorter == src, other == src, va == vb, oa == ob)
        }
        "serde_type_mismatch" => {
            // a long list where another kind is expected: the error must be produced (and printed) without recursing
            // along the list
            #[derive(serde_derive::Deserialize, Debug)]
            struct Holder {
                #[allow(dead_code)]
                a: String,
            }
            let e1 = serde_lexpr::from_value::<u8>(&v).map_err(|e| e.to_string().len());
            let e2 = serde_lexpr::from_value::<String>(&v).map_err(|e| e.to_string().len()).map(|s| s.len());
            let e3 = serde_lexpr::from_value::<Option<bool>>(&v).map_err(|e| format!("{:?}", e).len());
            let e4 = serde_lexpr::from_value::<char>(&v).map_err(|e| e.to_string().len());
            let alist = Value::list(vec![Value::cons(Value::symbol("a"), v)]);
            let e5 = serde_lexpr::from_value::<Holder>(&alist).map_err(|e| e.to_string().len()).map(|h| h.a.len());
            let e6 = serde_lexpr::from_str::<f64>(&list_text(n, dotted)).map_err(|e| e.to_string().len());
            format!("{} {} {} {} {} {}", e1.is_err(), e2.is_err(), e3.is_err(), e4.is_err(), e5.is_err(), e6.is_err())
        }
        "datum_clone" => {
            let d = datum_of(n, dotted);
            let e = d.clone();
            format!("{}", e.value().is_cons())
        }
        "datum_eq" => {
            let d = datum_of(n, dotted);
            let e = datum_of(n, dotted);
            format!("{}", d == e)
        }
        "datum_drop" => {
            let d = datum_of(n, dotted);
            drop(d);
            "dropped".into()
        }
        "datum_walk" => {
            let d = datum_of(n, dotted);
            let mut k = 0usize;
            if let Some(mut it) = d.list_iter() {
                loop {
                    match it.next() {
                        Some(r) => {
                            k += r.span().start().line();
                        }
                        None => {
                            if it.is_empty() {
                                break;
                            }
                        }
                    }
                }
            }
            // the span of the rest of the list, as reached through as_pair() (a tail Ref, not an element)
            if let Some((first, rest)) = d.as_ref().as_pair() {
                k += first.span().start().line() + rest.span().start().line() + rest.span().end().line();
                if let Some((_, rest2)) = rest.as_pair() {
                    k += rest2.span().end().column();
                }
            }
            let v: Value = d.into();
            format!("{} {}", k, v.is_cons())
        }
        "eq_differing" => {
            // two lists of the same length that differ in every position (and one that differs only at the end)
            let tail = if dotted { Value::symbol("x") } else { Value::Null };
            let a = Value::append((0..n).map(|i| Value::from((i % 10) as u64)), tail.clone());
            let b = Value::append((0..n).map(|i| Value::from(((i + 1) % 10) as u64)), tail.clone());
            let c = Value::append((0..n).map(|i| Value::from((if i + 1 == n { 11 } else { i % 10 }) as u64)), tail);
            let d = lexpr::datum::from_reader(list_text(n, dotted).as_bytes()).expect("datum");
            let e = lexpr::datum::from_reader(list_text(n, dotted).replace('1', "2").as_bytes()).expect("datum");
            format!("{} {} {} {}", a == b, a != c, b == c, d == e)
        }
        "drop_in_unwind" => {
            // a long list owned by a frame that panics: the unwinder drops it; the panic must stay recoverable
            let l = build(builder, n, dotted);
            let d = datum_of(n.min(200_000), dotted);
            let r = std::panic::catch_unwind(std::panic::AssertUnwindSafe(move || {
                let keep = (l, d);
                if keep.0.is_cons() || keep.0.is_null() {
                    panic!("deliberate");
                }
                0usize
            }));
            format!("{}", r.is_err())
        }
        "parse_dotted_chain" => {
            // (0 . (1 . (2 . ... ()))) nests by the parser's own accounting: it must be refused by the nesting limit
            // (or read), not recursed into without bound
            let mut s = String::with_capacity(n * 6 + 8);
            for i in 0..n {
                s.push('(');
                s.push(char::from(b'0' + (i % 10) as u8));
                s.push_str(" . ");
            }
            s.push_str(if dotted { "x" } else { "()" });
            for _ in 0..n {
                s.push(')');
            }
            let a = lexpr::from_str(&s).map(|v| v.is_cons()).map_err(|e| e.to_string().len());
            let b = lexpr::datum::from_reader(s.as_bytes()).map(|d| d.value().is_cons()).map_err(|e| e.to_string().len());
            format!("{:?} {:?}", a, b)
        }
        "serde_to_value" => {
            let xs: Vec<u32> = (0..n as u32).collect();
            format!("{}", serde_lexpr::to_value(&xs).map(|v| v.is_cons() || v.is_null()).unwrap_or(false))
        }
        "serde_from_value" => {
            let r: Result<Vec<u64>, _> = serde_lexpr::from_value(&v);
            format!("{:?}", r.map(|x| x.len()).map_err(|e| e.to_string().len()))
        }
        "serde_from_ignored_field" => {
            // a struct that does not know the field holding the long list: Serde skips it (IgnoredAny)
            #[derive(serde_derive::Deserialize, Debug)]
            struct Known {
                a: u32,
            }
            let alist = Value::list(vec![Value::cons(Value::symbol("a"), 1u32), Value::cons(Value::symbol("extra"), v)]);
            let r: Result<Known, _> = serde_lexpr::from_value(&alist);
            format!("{:?}", r.map(|k| k.a).map_err(|e| e.to_string().len()))
        }
        "serde_ignored_any" => {
            let r: Result<serde::de::IgnoredAny, _> = serde_lexpr::from_value(&v);
            format!("{}", r.is_ok())
        }
        "serde_from_map" => {
            // an association list of n entries read as a map
            let alist = Value::append((0..n).map(|i| Value::cons(Value::symbol(format!("k{}", i)), (i % 10) as u64)),
                                      if dotted { Value::symbol("x") } else { Value::Null });
            let r: Result<std::collections::BTreeMap<String, u64>, _> = serde_lexpr::from_value(&alist);
            format!("{:?}", r.map(|m| m.len()).map_err(|e| e.to_string().len()))
        }
        "serde_to_value_map" => {
            let m: std::collections::BTreeMap<u32, u32> = (0..n as u32).map(|i| (i, i % 10)).collect();
            format!("{}", serde_lexpr::to_value(&m).map(|v| v.is_cons() || v.is_null()).unwrap_or(false))
        }
        "serde_from_str" => {
            let r: Result<Vec<u64>, _> = serde_lexpr::from_str(&list_text(n, dotted));
            format!("{:?}", r.map(|x| x.len()).map_err(|e| e.to_string().len()))
        }
        "serde_to_string" => {
            let xs: Vec<u32> = (0..n as u32).collect();
            format!("{}", serde_lexpr::to_string(&xs).map(|s| s.len()).unwrap_or(0))
        }
        x => panic!("operation {}", x),
    }
}

/// `vh c16-child cells.ndjson start out.ndjson`
pub fn child(cells_file: &str, start: usize, out_file: &str) {
    let data = std::fs::read_to_string(cells_file).expect("cells");
    let mut out = std::fs::OpenOptions::new().create(true).append(true).open(out_file).expect("out");
    for (i, line) in data.lines().enumerate() {
        if i < start || line.trim().is_empty() {
            continue;
        }
        let c: J = serde_json::from_str(line).unwrap();
        writeln!(out, "{}", json!({"begin": i})).unwrap();
        out.flush().unwrap();
        let (op, builder) = (c["op"].as_str().unwrap().to_string(), c["builder"].as_str().unwrap().to_string());
        let (n, dotted) = (c["n"].as_u64().unwrap() as usize, c["shape"] == "dotted");
        // the value is built and dropped inside the small-stack thread as well: building and
        // dropping are operations of the property
        let h = std::thread::Builder::new().stack_size(2 << 20).spawn(move || {
            std::panic::catch_unwind(|| run_cell(&op, &builder, n, dotted)).map_err(|_| "panic".to_string())
        }).unwrap();
        let r = h.join().unwrap_or_else(|_| Err("thread died".into()));
        writeln!(out, "{}", json!({"done": i, "ok": r.is_ok(), "note": r.unwrap_or_else(|e| e)})).unwrap();
        out.flush().unwrap();
    }
}

/// cfg: {"cells_file": ndjson of {op, shape, builder, n}, "profile": "release"|"debug"}
pub fn run(cfg: &J) -> J {
    let cells_file = cfg["cells_file"].as_str().unwrap();
    let data = std::fs::read_to_string(cells_file).expect("cells");
    let cells: Vec<J> = data.lines().filter(|l| !l.trim().is_empty()).map(|l| serde_json::from_str(l).unwrap()).collect();
    let out_file = format!("{}.out", cells_file);
    let _ = std::fs::remove_file(&out_file);
    let exe = std::env::current_exe().unwrap();
    let mut start = 0usize;
    let mut results: Vec<Option<J>> = vec![None; cells.len()];
    let mut guard = 0;
    while start < cells.len() && guard <= cells.len() {
        guard += 1;
        let st = std::process::Command::new(&exe).args(["c16-child", cells_file, &start.to_string(), &out_file]).status().expect("spawn child");
        let text = std::fs::read_to_string(&out_file).unwrap_or_default();
        let mut last_begin = None;
        for line in text.lines() {
            let j: J = match serde_json::from_str(line) {
                Ok(j) => j,
                Err(_) => continue,
            };
            if let Some(b) = j.get("begin") {
                last_begin = Some(b.as_u64().unwrap() as usize);
            }
            if let Some(d) = j.get("done") {
                let i = d.as_u64().unwrap() as usize;
                if results[i].is_none() {
                    results[i] = Some(json!({"outcome": if j["ok"] == true {"ok"} else {"panic"}, "note": j["note"]}));
                }
                last_begin = None;
            }
        }
        if st.success() {
            break;
        }
        match last_begin {
            Some(i) => {
                results[i] = Some(json!({"outcome":"died","note":format!("child process died: {}", st)}));
                start = i + 1;
            }
            None => break,
        }
    }
    let mut bad = Vec::new();
    let mut trace = Vec::new();
    let mut ran = 0u64;
    for (c, r) in cells.iter().zip(results.iter()) {
        let r = r.clone().unwrap_or(json!({"outcome":"not-run","note":""}));
        ran += 1;
        if r["outcome"] != "ok" {
            bad.push(json!({"rule":"stack","why":format!("{} on a {} list of {} elements built by {}: {} ({})", c["op"].as_str().unwrap(), c["shape"].as_str().unwrap(),
                             c["n"], c["builder"].as_str().unwrap(), r["outcome"].as_str().unwrap(), r["note"]),"cell":c}));
        }
        trace.push(json!({"ev":"cell","op":c["op"],"shape":c["shape"],"builder":c["builder"],"n":c["n"],"profile":cfg["profile"],"outcome":r["outcome"]}));
    }
    json!({"bad": bad, "trace": trace, "cells": ran})
}

pub fn replay_case(case: &J) -> J {
    let dir = std::env::var("VH_SCRATCH").map(std::path::PathBuf::from).unwrap_or_else(|_| std::env::temp_dir());
    let f = dir.join(format!("vh-c16-replay-{}.ndjson", std::process::id()));
    std::fs::write(&f, format!("{}\n", case)).unwrap();
    let out = run(&json!({"cells_file": f.to_str().unwrap(), "profile": case.get("profile").cloned().unwrap_or(J::from("release"))}));
    let _ = std::fs::remove_file(&f);
    let _ = std::fs::remove_file(format!("{}.out", f.to_str().unwrap()));
    let _ = (Cons::new(1u8, 2u8),);
    out
}
