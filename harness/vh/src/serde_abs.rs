//! Abstract (JSON) representation of Rust values of the Serde type family (DESIGN.md Appendix D):
//! conversions in both directions and seeded generation, for primitives and generic containers.
//! The named types of the family implement `Abs` in the generated types_gen.rs.
#![allow(dead_code)]

use crate::codec::{f64_parts, parts_f64};
use rand::rngs::StdRng;
use rand::Rng;
use serde_json::{json, Value as J};
use std::collections::{BTreeMap, BTreeSet};

pub trait Abs: Sized {
    fn to_abs(&self) -> J;
    fn from_abs(j: &J) -> Self;
    fn arb(rng: &mut StdRng, depth: u32) -> Self;
}

fn digits(s: &str) -> J {
    J::Array(s.bytes().map(|b| J::from(b - b'0')).collect())
}

fn digit_str(j: &J) -> String {
    j.as_array().unwrap().iter().map(|d| char::from(b'0' + d.as_u64().unwrap() as u8)).collect()
}

macro_rules! abs_signed {
    ($($t:ty),*) => {$(
        impl Abs for $t {
            fn to_abs(&self) -> J { json!({"a":"int","neg": *self < 0,"d": digits(&self.unsigned_abs().to_string())}) }
            fn from_abs(j: &J) -> Self {
                let m: u128 = digit_str(&j["d"]).parse().unwrap();
                if j["neg"].as_bool().unwrap() { (-(m as i128)) as $t } else { m as $t }
            }
            fn arb(rng: &mut StdRng, _d: u32) -> Self {
                match rng.gen_range(0..6) { 0 => <$t>::MIN, 1 => <$t>::MAX, 2 => 0, 3 => -1, 4 => 1, _ => rng.gen() }
            }
        }
    )*};
}
macro_rules! abs_unsigned {
    ($($t:ty),*) => {$(
        impl Abs for $t {
            fn to_abs(&self) -> J { json!({"a":"int","neg":false,"d": digits(&self.to_string())}) }
            fn from_abs(j: &J) -> Self { digit_str(&j["d"]).parse().unwrap() }
            fn arb(rng: &mut StdRng, _d: u32) -> Self {
                match rng.gen_range(0..5) { 0 => <$t>::MAX, 1 => 0, 2 => 1, 3 => <$t>::MAX - 1, _ => rng.gen() }
            }
        }
    )*};
}
abs_signed!(i8, i16, i32, i64);
abs_unsigned!(u8, u16, u32, u64);

impl Abs for bool {
    fn to_abs(&self) -> J { json!({"a":"bool","b":self}) }
    fn from_abs(j: &J) -> Self { j["b"].as_bool().unwrap() }
    fn arb(rng: &mut StdRng, _d: u32) -> Self { rng.gen() }
}

fn flt_abs(f: f64) -> J {
    if !f.is_finite() {
        return json!({"a":"nonfinite"});
    }
    let (neg, d, e) = f64_parts(f);
    json!({"a":"flt","neg":neg,"d":digits(&d),"e":e})
}

impl Abs for f64 {
    fn to_abs(&self) -> J { flt_abs(*self) }
    fn from_abs(j: &J) -> Self { parts_f64(j["neg"].as_bool().unwrap(), &digit_str(&j["d"]), j["e"].as_i64().unwrap()) }
    fn arb(rng: &mut StdRng, _d: u32) -> Self {
        match rng.gen_range(0..5) {
            0 => 0.0,
            1 => -1.5,
            2 => (rng.gen_range(-1_000_000i64..1_000_000) as f64) / 64.0,
            3 => rng.gen_range(-1e9..1e9),
            _ => loop {
                let f = f64::from_bits(rng.gen());
                if f.is_finite() { break f; }
            },
        }
    }
}

impl Abs for f32 {
    fn to_abs(&self) -> J { flt_abs(f64::from(*self)) }
    fn from_abs(j: &J) -> Self { f64::from_abs(j) as f32 }
    fn arb(rng: &mut StdRng, _d: u32) -> Self {
        match rng.gen_range(0..4) {
            0 => 0.0,
            1 => 2.5,
            2 => (rng.gen_range(-100000i32..100000) as f32) / 8.0,
            _ => loop {
                let f = f32::from_bits(rng.gen());
                if f.is_finite() { break f; }
            },
        }
    }
}

impl Abs for char {
    fn to_abs(&self) -> J { json!({"a":"char","c": *self as u32}) }
    fn from_abs(j: &J) -> Self { char::from_u32(j["c"].as_u64().unwrap() as u32).unwrap() }
    fn arb(rng: &mut StdRng, _d: u32) -> Self {
        loop {
            let c = match rng.gen_range(0..5) { 0 => rng.gen_range(0..128), 1 => rng.gen_range(128..0x800), 2 => rng.gen_range(0x800..0x10000), 3 => rng.gen_range(0x10000..0x110000),
                                               _ => crate::gen::TRUNCATION_SPECIAL[rng.gen_range(0..crate::gen::TRUNCATION_SPECIAL.len())] as u32 };
            if let Some(c) = char::from_u32(c) { return c; }
        }
    }
}

impl Abs for String {
    fn to_abs(&self) -> J { json!({"a":"str","s": self.chars().map(|c| J::from(c as u32)).collect::<Vec<_>>()}) }
    fn from_abs(j: &J) -> Self { j["s"].as_array().unwrap().iter().map(|c| char::from_u32(c.as_u64().unwrap() as u32).unwrap()).collect() }
    fn arb(rng: &mut StdRng, d: u32) -> Self {
        let n = if rng.gen_ratio(1, 10) { rng.gen_range(0..200) } else { rng.gen_range(0..6) };
        (0..n).map(|_| char::arb(rng, d)).collect()
    }
}

impl Abs for serde_bytes::ByteBuf {
    fn to_abs(&self) -> J { json!({"a":"bytes","bv": self.iter().map(|b| J::from(*b)).collect::<Vec<_>>()}) }
    fn from_abs(j: &J) -> Self { serde_bytes::ByteBuf::from(j["bv"].as_array().unwrap().iter().map(|b| b.as_u64().unwrap() as u8).collect::<Vec<u8>>()) }
    fn arb(rng: &mut StdRng, _d: u32) -> Self {
        let n = rng.gen_range(0..8);
        serde_bytes::ByteBuf::from((0..n).map(|_| rng.gen()).collect::<Vec<u8>>())
    }
}

impl Abs for () {
    fn to_abs(&self) -> J { json!({"a":"unit"}) }
    fn from_abs(_j: &J) -> Self {}
    fn arb(_rng: &mut StdRng, _d: u32) -> Self {}
}

impl<T: Abs> Abs for Option<T> {
    fn to_abs(&self) -> J {
        match self {
            None => json!({"a":"none"}),
            Some(x) => json!({"a":"some","x":x.to_abs()}),
        }
    }
    fn from_abs(j: &J) -> Self { if j["a"] == "none" { None } else { Some(T::from_abs(&j["x"])) } }
    fn arb(rng: &mut StdRng, d: u32) -> Self { if rng.gen_ratio(1, 3) { None } else { Some(T::arb(rng, d)) } }
}

fn arb_len(rng: &mut StdRng, d: u32) -> usize {
    if d == 0 { 0 } else if rng.gen_ratio(1, 12) { rng.gen_range(0..60) } else { rng.gen_range(0..4) }
}

impl<T: Abs> Abs for Vec<T> {
    fn to_abs(&self) -> J { json!({"a":"seq","xs": self.iter().map(|x| x.to_abs()).collect::<Vec<_>>()}) }
    fn from_abs(j: &J) -> Self { j["xs"].as_array().unwrap().iter().map(T::from_abs).collect() }
    fn arb(rng: &mut StdRng, d: u32) -> Self { (0..arb_len(rng, d)).map(|_| T::arb(rng, d.saturating_sub(1))).collect() }
}

impl<T: Abs + Ord> Abs for BTreeSet<T> {
    fn to_abs(&self) -> J { json!({"a":"set","xs": self.iter().map(|x| x.to_abs()).collect::<Vec<_>>()}) }
    fn from_abs(j: &J) -> Self { j["xs"].as_array().unwrap().iter().map(T::from_abs).collect() }
    fn arb(rng: &mut StdRng, d: u32) -> Self { (0..arb_len(rng, d)).map(|_| T::arb(rng, d.saturating_sub(1))).collect() }
}

impl<K: Abs + Ord, V: Abs> Abs for BTreeMap<K, V> {
    fn to_abs(&self) -> J { json!({"a":"map","es": self.iter().map(|(k, v)| json!([k.to_abs(), v.to_abs()])).collect::<Vec<_>>()}) }
    fn from_abs(j: &J) -> Self { j["es"].as_array().unwrap().iter().map(|e| (K::from_abs(&e[0]), V::from_abs(&e[1]))).collect() }
    fn arb(rng: &mut StdRng, d: u32) -> Self { (0..arb_len(rng, d)).map(|_| (K::arb(rng, d.saturating_sub(1)), V::arb(rng, d.saturating_sub(1)))).collect() }
}

impl<T: Abs> Abs for Box<T> {
    fn to_abs(&self) -> J { (**self).to_abs() }
    fn from_abs(j: &J) -> Self { Box::new(T::from_abs(j)) }
    fn arb(rng: &mut StdRng, d: u32) -> Self { Box::new(T::arb(rng, d)) }
}

impl<A: Abs> Abs for (A,) {
    fn to_abs(&self) -> J { json!({"a":"seq","xs":[self.0.to_abs()]}) }
    fn from_abs(j: &J) -> Self { (A::from_abs(&j["xs"][0]),) }
    fn arb(rng: &mut StdRng, d: u32) -> Self { (A::arb(rng, d),) }
}
impl<A: Abs, B: Abs> Abs for (A, B) {
    fn to_abs(&self) -> J { json!({"a":"seq","xs":[self.0.to_abs(), self.1.to_abs()]}) }
    fn from_abs(j: &J) -> Self { (A::from_abs(&j["xs"][0]), B::from_abs(&j["xs"][1])) }
    fn arb(rng: &mut StdRng, d: u32) -> Self { (A::arb(rng, d), B::arb(rng, d)) }
}
impl<A: Abs, B: Abs, C: Abs> Abs for (A, B, C) {
    fn to_abs(&self) -> J { json!({"a":"seq","xs":[self.0.to_abs(), self.1.to_abs(), self.2.to_abs()]}) }
    fn from_abs(j: &J) -> Self { (A::from_abs(&j["xs"][0]), B::from_abs(&j["xs"][1]), C::from_abs(&j["xs"][2])) }
    fn arb(rng: &mut StdRng, d: u32) -> Self { (A::arb(rng, d), B::arb(rng, d), C::arb(rng, d)) }
}
impl<T: Abs> Abs for [T; 3] {
    fn to_abs(&self) -> J { json!({"a":"seq","xs": self.iter().map(|x| x.to_abs()).collect::<Vec<_>>()}) }
    fn from_abs(j: &J) -> Self { [T::from_abs(&j["xs"][0]), T::from_abs(&j["xs"][1]), T::from_abs(&j["xs"][2])] }
    fn arb(rng: &mut StdRng, d: u32) -> Self { [T::arb(rng, d), T::arb(rng, d), T::arb(rng, d)] }
}

/// Canonical form: the entries of sets and maps sorted (their order carries no information).
pub fn canon(j: &J) -> J {
    match j {
        J::Object(m) => {
            let mut o = serde_json::Map::new();
            for (k, v) in m {
                o.insert(k.clone(), canon(v));
            }
            let tag = o.get("a").and_then(|a| a.as_str()).unwrap_or("").to_string();
            for key in ["xs", "es"] {
                if (tag == "set" && key == "xs") || (tag == "map" && key == "es") {
                    if let Some(J::Array(a)) = o.get_mut(key) {
                        a.sort_by_key(|x| x.to_string());
                    }
                }
            }
            J::Object(o)
        }
        J::Array(a) => J::Array(a.iter().map(canon).collect()),
        x => x.clone(),
    }
}

/// Equality of abstract values where floats may differ within the C05 accuracy (text path).
pub fn abs_close(a: &J, b: &J) -> bool {
    match (a, b) {
        (J::Object(x), J::Object(y)) => {
            if x.get("a") == Some(&J::from("flt")) && y.get("a") == Some(&J::from("flt")) {
                let (f, g) = (f64::from_abs(a), f64::from_abs(b));
                return f.to_bits() == g.to_bits() || crate::cmp::within_2_50(f, g);
            }
            x.len() == y.len() && x.iter().all(|(k, v)| y.get(k).map(|w| abs_close(v, w)).unwrap_or(false))
        }
        (J::Array(x), J::Array(y)) => x.len() == y.len() && x.iter().zip(y.iter()).all(|(p, q)| abs_close(p, q)),
        _ => a == b,
    }
}
