//! C03: parsing is total (any bytes, any options -> value or error) and recursion is bounded.

use crate::codec::*;
use lexpr::parse::{Options, Parser, Read};
use rand::{Rng, SeedableRng};
use serde_json::{json, Value as J};
use std::io::Write;

// ------------------------------------------------------------------ nesting shapes (child processes)

pub fn render_shape(case: &J) -> Vec<u8> {
    let mut out = Vec::new();
    let mut closers: Vec<(&[u8], usize)> = Vec::new();
    for seg in case["segs"].as_array().unwrap() {
        let n = seg["n"].as_u64().unwrap() as usize;
        let (open, close): (&[u8], &[u8]) = match seg["op"].as_str().unwrap() {
            "paren" => (b"(", b")"),
            "bracket" => (b"[", b"]"),
            "vector" => (b"#(", b")"),
            "quote" => (b"'", b""),
            "quasiquote" => (b"`", b""),
            "unquote" => (b",", b""),
            "splice" => (b",@", b""),
            "dotted" => (b"(a . ", b")"),
            x => panic!("opener {}", x),
        };
        for _ in 0..n {
            out.extend_from_slice(open);
        }
        closers.push((close, n));
    }
    if case["closed"].as_bool().unwrap() {
        out.extend_from_slice(b"x");
        for (c, n) in closers.iter().rev() {
            for _ in 0..*n {
                out.extend_from_slice(c);
            }
        }
    }
    out
}

fn observe<'de, R: Read<'de>>(mut p: Parser<R>, datum: bool) -> J {
    lexpr::parse::verif::reset();
    let r = if datum {
        match p.next_datum() {
            Ok(Some(_)) => json!({"r":"ok"}),
            Ok(None) => json!({"r":"none"}),
            Err(e) => err_json(&e),
        }
    } else {
        match p.next_value() {
            Ok(Some(_)) => json!({"r":"ok"}),
            Ok(None) => json!({"r":"none"}),
            Err(e) => err_json(&e),
        }
    };
    json!({"res": r, "high": lexpr::parse::verif::high_water(), "depth": p.verif_depth_left()})
}

/// Runs in the child: all 6 (source, api) combinations for one shape, inside a 2 MiB thread.
fn run_shape(case: &J) -> J {
    let text = render_shape(case);
    let mut obs = Vec::new();
    for src in ["slice", "str", "reader"] {
        for datum in [false, true] {
            let t = text.clone();
            let h = std::thread::Builder::new().stack_size(2 << 20).spawn(move || {
                let o = Options::default();
                let r = std::panic::catch_unwind(|| match src {
                    "slice" => observe(Parser::from_slice_custom(&t, o), datum),
                    "str" => observe(Parser::from_str_custom(std::str::from_utf8(&t).unwrap(), o), datum),
                    _ => observe(Parser::from_reader_custom(&t[..], o), datum),
                });
                match r {
                    Ok(j) => j,
                    Err(p) => json!({"res": panic_json(p), "high": 0, "depth": 128}),
                }
            }).unwrap();
            let j = h.join().unwrap_or_else(|_| json!({"res":{"r":"panic","msg":"thread died"},"high":0,"depth":128}));
            obs.push(json!({"src":src,"api": if datum {"next_datum"} else {"next_value"},"obs":j}));
        }
    }
    json!({"len": text.len(), "obs": obs})
}

/// `vh c03-child cases.ndjson start out.ndjson`
pub fn child(cases_file: &str, start: usize, out_file: &str) {
    let data = std::fs::read_to_string(cases_file).expect("cases");
    let mut out = std::fs::OpenOptions::new().create(true).append(true).open(out_file).expect("out");
    for (i, line) in data.lines().enumerate() {
        if i < start || line.trim().is_empty() {
            continue;
        }
        let case: J = serde_json::from_str(line).unwrap();
        writeln!(out, "{}", json!({"begin": i})).unwrap();
        out.flush().unwrap();
        let r = run_shape(&case);
        writeln!(out, "{}", json!({"done": i, "result": r})).unwrap();
        out.flush().unwrap();
    }
}

fn judge_shape(case: &J, result: &J) -> Vec<String> {
    let mut bad = Vec::new();
    let expect = case["expect"].as_str().unwrap();
    for o in result["obs"].as_array().unwrap() {
        let who = format!("{}/{}", o["src"].as_str().unwrap(), o["api"].as_str().unwrap());
        let obs = &o["obs"];
        let r = obs["res"]["r"].as_str().unwrap_or("?");
        if r == "panic" {
            bad.push(format!("{} panicked: {}", who, obs["res"]["msg"]));
            continue;
        }
        match expect {
            "ok" if r != "ok" => bad.push(format!("{}: nesting of {} levels must be accepted, got {}", who, case["total"], obs["res"])),
            "err" if r != "err" => bad.push(format!("{}: must be rejected with an error, got {}", who, r)),
            _ => {}
        }
        if obs["high"].as_u64().unwrap() > 128 {
            bad.push(format!("{}: recursion depth {} exceeds the documented limit", who, obs["high"]));
        }
        if obs["depth"].as_u64().unwrap() != 128 {
            bad.push(format!("{}: nesting budget {} after the call", who, obs["depth"]));
        }
    }
    bad
}

/// Parent side: runs the shapes in child processes, restarting after a crash.
fn shapes(cfg: &J) -> (Vec<J>, Vec<J>, u64, u64) {
    let cases_file = cfg["shapes_file"].as_str().unwrap();
    let data = std::fs::read_to_string(cases_file).expect("shapes");
    let cases: Vec<J> = data.lines().filter(|l| !l.trim().is_empty()).map(|l| serde_json::from_str(l).unwrap()).collect();
    let out_file = format!("{}.out", cases_file);
    let _ = std::fs::remove_file(&out_file);
    let exe = std::env::current_exe().unwrap();
    let mut start = 0usize;
    let mut bad = Vec::new();
    let mut trace = Vec::new();
    let mut crashes = 0u64;
    let mut done = vec![false; cases.len()];
    while start < cases.len() {
        let st = std::process::Command::new(&exe).args(["c03-child", cases_file, &start.to_string(), &out_file]).status().expect("spawn child");
        // read progress
        let text = std::fs::read_to_string(&out_file).unwrap_or_default();
        let mut last_begin = None;
        for line in text.lines() {
            let j: J = match serde_json::from_str(line) {
                Ok(j) => j,
                Err(_) => continue,
            };
            if let Some(b) = j.get("begin") {
                last_begin = Some(b.as_u64().unwrap() as usize);
            }
            if let Some(d) = j.get("done") {
                let i = d.as_u64().unwrap() as usize;
                if !done[i] {
                    done[i] = true;
                    for why in judge_shape(&cases[i], &j["result"]) {
                        bad.push(json!({"rule":"shape","why":why,"case":cases[i]}));
                    }
                    let highs: Vec<u64> = j["result"]["obs"].as_array().unwrap().iter().map(|o| o["obs"]["high"].as_u64().unwrap()).collect();
                    let kinds: Vec<J> = j["result"]["obs"].as_array().unwrap().iter().map(|o| o["obs"]["res"]["r"].clone()).collect();
                    trace.push(json!({"ev":"shape","total":cases[i]["total"],"closed":cases[i]["closed"],"expect":cases[i]["expect"],
                                      "high": highs.iter().max().unwrap(), "kinds": kinds, "segs": cases[i]["segs"]}));
                }
                last_begin = None;
            }
        }
        if st.success() {
            break;
        }
        // the child died: the case in progress is the culprit
        crashes += 1;
        match last_begin {
            Some(i) => {
                bad.push(json!({"rule":"shape","why":format!("child process died ({}) - stack overflow or abort", st),"case":cases[i]}));
                done[i] = true;
                start = i + 1;
            }
            None => {
                bad.push(json!({"rule":"shape","why":format!("child process died ({}) outside a case", st),"case":J::Null}));
                break;
            }
        }
    }
    let n = done.iter().filter(|d| **d).count() as u64;
    (bad, trace, n, crashes)
}

// ------------------------------------------------------------------ totality on short and mutated inputs

const API: &[&str] = &["one", "next_value", "next_datum", "iter"];

/// Everything is run under catch_unwind; returns Some(description) for a panic / non-termination.
fn total_one(text: &[u8], ro: &J, raw_events: &mut Vec<J>, log: bool) -> Vec<String> {
    let o = parse_opts(ro);
    let mut bad = Vec::new();
    for src in 0..3 {
        if src == 1 && std::str::from_utf8(text).is_err() {
            continue;
        }
        for api in API {
            let t = text;
            let r = std::panic::catch_unwind(|| {
                lexpr::parse::verif::reset();
                let mut calls: Vec<J> = Vec::new();
                macro_rules! drive {
                    ($p:expr) => {{
                        let mut p = $p;
                        match *api {
                            "one" => {
                                let b0 = p.verif_offset();
                                let k = match p.expect_value() { Ok(_) => "ok", Err(_) => "err" };
                                let _ = p.expect_end();
                                calls.push(json!({"kind":k,"boff0":b0,"boff1":p.verif_offset(),"depth":p.verif_depth_left(),"high":lexpr::parse::verif::high_water()}));
                            }
                            _ => {
                                let mut n = 0usize;
                                loop {
                                    lexpr::parse::verif::reset();
                                    let b0 = p.verif_offset();
                                    let k = match *api {
                                        "next_value" => match p.next_value() { Ok(Some(_)) => "ok", Ok(None) => "none", Err(_) => "err" },
                                        "next_datum" => match p.next_datum() { Ok(Some(_)) => "ok", Ok(None) => "none", Err(_) => "err" },
                                        _ => match p.value_iter().next() { Some(Ok(_)) => "ok", None => "none", Some(Err(_)) => "err" },
                                    };
                                    calls.push(json!({"kind":k,"boff0":b0,"boff1":p.verif_offset(),"depth":p.verif_depth_left(),"high":lexpr::parse::verif::high_water()}));
                                    n += 1;
                                    if k == "none" || n > t.len() + 3 {
                                        break;
                                    }
                                }
                            }
                        }
                    }};
                }
                match src {
                    0 => drive!(Parser::from_slice_custom(t, o)),
                    1 => drive!(Parser::from_str_custom(std::str::from_utf8(t).unwrap(), o)),
                    _ => drive!(Parser::from_reader_custom(t, o)),
                }
                calls
            });
            match r {
                Err(p) => bad.push(format!("panic in {} (source {}): {}", api, src, panic_json(p)["msg"])),
                Ok(calls) => {
                    let iter = *api != "one";
                    for c in &calls {
                        if c["depth"] != 128 {
                            bad.push(format!("nesting budget {} after {}", c["depth"], api));
                        }
                        if c["high"].as_u64().unwrap() > 128 {
                            bad.push(format!("recursion depth {} in {}", c["high"], api));
                        }
                        let (b0, b1) = (c["boff0"].as_u64().unwrap(), c["boff1"].as_u64().unwrap());
                        if iter && c["kind"] != "none" && b1 <= b0 && (b0 as usize) < t.len() {
                            bad.push(format!("{} item consumed no input in {}", c["kind"], api));
                        }
                    }
                    if iter && calls.last().map(|c| c["kind"] != "none").unwrap_or(false) {
                        bad.push(format!("{} did not reach the end of input within len + 3 items", api));
                    }
                    if log {
                        raw_events.push(json!({"ev":"raw","limit":128,"textlen":t.len(),"iter":iter,"api":api,"src":src,"calls":calls}));
                    }
                }
            }
        }
    }
    bad
}

const MUT_ALPHABET: &[&[u8]] = &[b"(", b")", b"[", b"]", b"#(", b"'", b"`", b",", b",@", b".", b" ", b"\n", b";c\n", b"a", b"foo", b"1", b"-2.5e3",
    b"#", b"#\\", b"#\\x41", b"\"", b"\\", b"\"a\\n\"", b"#t", b"#nil", b"#u8(", b"#u8(1 2)", b"\xCE\xBB", b"\xCE", b"\xFF", b"\xF0\x9F\x98", b"?", b"?\\",
    b":", b"#:", b"|", b"{", b"#x", b"+", b"1.", b"\x0C", b"\x00", b"\\x41;", b"\\u00", b"nil", b"\"\\", b"#%", b"#vu8(", b"0", b"e", b"#b"];

pub fn run(cfg: &J) -> J {
    let mut bad: Vec<J> = Vec::new();
    let mut trace: Vec<J> = Vec::new();
    // (1) shapes in child processes
    let (sb, st, nshapes, crashes) = if cfg["shapes_file"].is_string() { shapes(cfg) } else { (vec![], vec![], 0, 0) };
    bad.extend(sb);
    trace.extend(st);
    // (2) all byte strings up to `exhaustive_len`, plus 3-byte strings over the class alphabet
    let all = all_parse_opts();
    let opt_ix: [usize; 8] = [0, 1535, 600, 77, 1234, 391, 1001, 48];
    let mut opts: Vec<J> = vec![default_parse_opts_json(), elisp_parse_opts_json()];
    for i in opt_ix.iter().take(6) {
        opts.push(all[*i].clone());
    }
    let exl = cfg["exhaustive_len"].as_u64().unwrap_or(2) as usize;
    let mut short = 0u64;
    let mut raw = Vec::new();
    let classes: Vec<u8> = vec![0, 9, 10, 12, 13, 32, b'"', b'#', b'\'', b'(', b')', b',', b'-', b'.', b'0', b'1', b'9', b':', b';', b'?', b'@', b'A', b'[', b'\\', b']',
                                b'`', b'a', b'e', b'n', b't', b'u', b'x', b'|', 0x7f, 0x80, 0xbf, 0xc3, 0xe2, 0xf0, 0xff];
    let mut run_text = |t: &[u8], bad: &mut Vec<J>, raw: &mut Vec<J>, log: bool| {
        for ro in &opts {
            for why in total_one(t, ro, raw, log) {
                bad.push(json!({"rule":"totality","why":why,"text":bytes_j(t),"ro":ro}));
            }
        }
    };
    for len in 0..=exl.min(2) {
        let mut idx = vec![0u16; len];
        loop {
            let t: Vec<u8> = idx.iter().map(|&b| b as u8).collect();
            short += 1;
            run_text(&t, &mut bad, &mut raw, short % 997 == 0);
            let mut k = len;
            let mut fin = true;
            while k > 0 {
                k -= 1;
                idx[k] += 1;
                if idx[k] < 256 {
                    fin = false;
                    break;
                }
                idx[k] = 0;
            }
            if fin {
                break;
            }
        }
    }
    if exl >= 3 {
        // all 2^24 three-byte inputs under the default and the Emacs Lisp option set, split over threads by first byte
        // (the hooks' counters are thread-local)
        let two: Vec<J> = opts[..2].to_vec();
        let nthreads = 14usize;
        let handles: Vec<_> = (0..nthreads).map(|ti| {
            let two = two.clone();
            std::thread::spawn(move || {
                let mut bad: Vec<J> = Vec::new();
                let mut raw: Vec<J> = Vec::new();
                let mut n = 0u64;
                for a in (ti..256).step_by(nthreads) {
                    for b in 0..256usize {
                        for c in 0..256usize {
                            let t = [a as u8, b as u8, c as u8];
                            n += 1;
                            for ro in &two {
                                for why in total_one(&t, ro, &mut raw, n % 49999 == 0) {
                                    bad.push(json!({"rule":"totality","why":why,"text":bytes_j(&t),"ro":ro}));
                                }
                            }
                        }
                    }
                }
                (bad, raw, n)
            })
        }).collect();
        for h in handles {
            let (b, r, n) = h.join().expect("worker thread");
            bad.extend(b);
            raw.extend(r);
            short += n;
        }
    }
    {
        // three-byte inputs over the byte-class alphabet under all eight option sets
        for &a in &classes {
            for &b in &classes {
                for &c in &classes {
                    short += 1;
                    run_text(&[a, b, c], &mut bad, &mut raw, short % 499 == 0);
                }
            }
        }
    }
    {
        // decimal literals with every exponent the scaling tables and loops of the number reader can meet, for several
        // shapes of significand (integer, fraction, more digits than a u64 holds, leading fraction zeros)
        let mut sweep = 0u64;
        for sig in ["1", "-0.5", "1.234", "10", "12345678901234567890123", "0.000000000000000000001", "9007199254740993", "-0"] {
            for e in -700i32..=420 {
                for text in [format!("{}e{}", sig, e), format!("({}E{} x)", sig, e)] {
                    sweep += 1;
                    short += 1;
                    run_text(text.as_bytes(), &mut bad, &mut raw, sweep % 1999 == 0);
                }
            }
        }
    }
    // (3) mutation-based inputs up to several KB
    let mut rng = rand::rngs::StdRng::seed_from_u64(cfg["seed"].as_u64().unwrap_or(1));
    let nm = cfg["mutated"].as_u64().unwrap_or(2000);
    let mut mutated_bytes = 0u64;
    // besides the fixed alphabet: the specification's token corpus and byte strings that fail in ways of their own
    // (over-long digit runs, every kind of ill-formed four-byte sequence)
    let mut extra: Vec<Vec<u8>> = cfg["alphabet_extra"].as_array().map(|a| a.iter().map(j_bytes).collect()).unwrap_or_default();
    for x in [&b"18446744073709551616"[..], b"99999999999999999999999999", b"\xF4\x90\x80\x80", b"\xF5\x80\x80\x80", b"\xF7\xBF\xBF\xBF", b"\xED\xA0\x80",
              b"\xC0\xAF", b"\xE0\x80\x80", b"\xF0\x80\x80\x80", b"\xF4\x8F\xBF\xBF", b"#\\", b"?", b"?\\", b" ", b"(", b")"] {
        extra.push(x.to_vec());
    }
    for i in 0..nm {
        let n = if i % 10 == 0 { rng.gen_range(200..1500) } else { rng.gen_range(1..40) };
        let mut t = Vec::new();
        for _ in 0..n {
            if rng.gen_ratio(1, 12) {
                t.push(rng.gen::<u8>());
            } else if i % 3 == 2 {
                t.extend_from_slice(&extra[rng.gen_range(0..extra.len())]);
            } else {
                t.extend_from_slice(MUT_ALPHABET[rng.gen_range(0..MUT_ALPHABET.len())]);
            }
        }
        mutated_bytes += t.len() as u64;
        let ro = if i % 2 == 0 { opts[rng.gen_range(0..opts.len())].clone() } else { all[rng.gen_range(0..all.len())].clone() };
        for why in total_one(&t, &ro, &mut raw, i % 5 == 0) {
            bad.push(json!({"rule":"totality","why":why,"text":bytes_j(&t),"ro":ro}));
        }
    }
    trace.extend(raw);
    json!({"bad": bad, "trace": trace, "shapes": nshapes, "child_crashes": crashes, "short_inputs": short, "mutated": nm,
           "mutated_bytes": mutated_bytes, "option_sets": opts.len()})
}

pub fn replay_case(case: &J) -> J {
    let mut bad = Vec::new();
    if case.get("segs").is_some() {
        // run the shape in a fresh child so that a crash is an observation
        let dir = std::env::var("VH_SCRATCH").map(std::path::PathBuf::from).unwrap_or_else(|_| std::env::temp_dir());
        let f = dir.join(format!("vh-c03-replay-{}.ndjson", std::process::id()));
        std::fs::write(&f, format!("{}\n", case)).unwrap();
        let cfg = json!({"shapes_file": f.to_str().unwrap()});
        let (sb, _, _, _) = shapes(&cfg);
        bad.extend(sb);
        let _ = std::fs::remove_file(&f);
        let _ = std::fs::remove_file(format!("{}.out", f.to_str().unwrap()));
    } else {
        let mut raw = Vec::new();
        for why in total_one(&j_bytes(&case["text"]), &case["ro"], &mut raw, false) {
            bad.push(json!({"rule":"totality","why":why,"text":case["text"],"ro":case["ro"]}));
        }
    }
    json!({"bad": bad, "trace": []})
}
