//! C19: parse errors carry an in-bounds location; truncation is reported as EOF.

use crate::codec::*;
use crate::gen;
use lexpr::Value;
use rand::Rng;
use serde_json::{json, Value as J};
use std::collections::HashSet;

pub const SOURCES: &[&str] = &["slice", "str", "reader"];

/// Parse with the given source kind; returns the result record extended with the io::ErrorKind
/// the error converts to.
pub fn parse_full(src: &str, text: &[u8], ro: &J) -> J {
    let o = parse_opts(ro);
    let t = text.to_vec();
    let src = src.to_string();
    guarded(move || {
        let r: Result<Value, lexpr::parse::Error> = match src.as_str() {
            "slice" => lexpr::from_slice_custom(&t, o),
            "reader" => lexpr::from_reader_custom(&t[..], o),
            _ => match std::str::from_utf8(&t) {
                Ok(s) => lexpr::from_str_custom(s, o),
                Err(_) => return json!({"r":"notutf8"}),
            },
        };
        match r {
            Ok(v) => json!({"r":"ok","v":val_to_json(&v)}),
            Err(e) => {
                let mut j = err_json(&e);
                let io: std::io::Error = e.into();
                j["iokind"] = J::from(format!("{:?}", io.kind()));
                j
            }
        }
    })
}

fn line_info(text: &[u8]) -> Vec<usize> {
    // lengths of the lines (without LF); a final LF starts a further, empty line
    text.split(|&b| b == b'\n').map(|l| l.len()).collect()
}

/// Native mirror of the location clause (TLC re-judges the traced events with Text.tla).
fn location_ok(text: &[u8], line: i64, col: i64) -> bool {
    let lens = line_info(text);
    let nlines = lens.len() as i64;
    if line < 1 || line > nlines + 1 || col < 0 {
        return false;
    }
    let len = if line <= nlines { lens[(line - 1) as usize] as i64 } else { 0 };
    col <= len + 1
}

pub struct Runner {
    pub bad: Vec<J>,
    pub trace: Vec<J>,
    pub trace_bytes: usize,
    pub evals: u64,
    pub errors_seen: u64,
    pub prefixes: u64,
    pub distinct: HashSet<Vec<u8>>,
}

impl Runner {
    fn check_error(&mut self, text: &[u8], ro: &J, src: &str, res: &J, trunc: bool, want_trace: bool) {
        if res["r"] == "panic" {
            // totality is C03's business; still a location-less failure here
            self.bad.push(json!({"rule":"panic","text":bytes_j(text),"ro":ro,"src":src,"res":res}));
            return;
        }
        if res["r"] != "err" {
            return;
        }
        self.errors_seen += 1;
        let cat = res["cat"].as_str().unwrap();
        let (line, col) = (res["line"].as_i64().unwrap(), res["col"].as_i64().unwrap());
        if cat != "io" && !location_ok(text, line, col) {
            self.bad.push(json!({"rule":"location-out-of-bounds","text":bytes_j(text),"ro":ro,"src":src,"res":res}));
        }
        let want_kind = match cat {
            "syntax" => "InvalidData",
            "eof" => "UnexpectedEof",
            _ => "",
        };
        if !want_kind.is_empty() && res["iokind"] != want_kind {
            self.bad.push(json!({"rule":"io-error-kind","text":bytes_j(text),"ro":ro,"src":src,"res":res}));
        }
        if trunc && cat != "eof" {
            self.bad.push(json!({"rule":"truncation-not-eof","text":bytes_j(text),"ro":ro,"src":src,"res":res}));
        }
        if want_trace && text.len() + 80 <= self.trace_bytes {
            self.trace_bytes -= text.len() + 80;
            self.trace.push(json!({"ev":"err","text":bytes_j(text),"ro":ro,"src":src,"cat":cat,"line":line,"col":col,
                                   "iokind":res["iokind"],"trunc":trunc}));
        }
    }

    /// A text together with all its proper prefixes.
    pub fn text(&mut self, text: &[u8], ro: &J, stride: usize) {
        self.evals += 1;
        let full = parse_full("slice", text, ro);
        let full_ok = full["r"] == "ok";
        for src in SOURCES {
            let r = parse_full(src, text, ro);
            self.check_error(text, ro, src, &r, false, *src == "slice");
        }
        if !full_ok {
            return;
        }
        self.distinct.insert(text.to_vec());
        for k in 0..text.len() {
            self.prefixes += 1;
            let p = &text[..k];
            for (si, src) in SOURCES.iter().enumerate() {
                if si > 0 && k % 3 != 0 {
                    continue;
                }
                let r = parse_full(src, p, ro);
                if r["r"] == "notutf8" {
                    continue;
                }
                self.check_error(p, ro, src, &r, true, si == 0 && k % stride == 0);
            }
        }
    }
}

const ALPHABET: &[&[u8]] = &[b"(", b")", b"[", b"]", b"#(", b"'", b"`", b",", b",@", b".", b" ", b"\n", b"\t", b";c\n", b"a", b"foo", b"1", b"-2.5",
    b"1e", b"#", b"#\\", b"#\\x", b"\"", b"\\", b"\"a\"", b"#t", b"#n", b"#u8(", b"\xCE\xBB", b"\xCE", b"\xFF", b"?", b":", b"#:", b"|", b"{",
    b"#x", b"+", b"1.", b"\r", b"\x0C", b"#\\spac", b"\\x41;", b"\\u00", b"nil", b"?\\", b"\xF0\x9F"];

/// cfg: {"cases_file", "seed", "random_values": n, "random_junk": n, "trace_bytes": n}
pub fn run(cfg: &J) -> J {
    let mut r = Runner { bad: vec![], trace: vec![], trace_bytes: cfg["trace_bytes"].as_u64().unwrap_or(150000) as usize,
                         evals: 0, errors_seen: 0, prefixes: 0, distinct: HashSet::new() };
    let mut ncases = 0;
    if let Some(p) = cfg["cases_file"].as_str() {
        for line in std::fs::read_to_string(p).expect("cases").lines() {
            if line.trim().is_empty() {
                continue;
            }
            let c: J = serde_json::from_str(line).unwrap();
            r.text(&j_bytes(&c["text"]), &c["ro"], 1);
            ncases += 1;
        }
    }
    let dpo = default_parse_opts_json();
    let epo = elisp_parse_opts_json();
    let mut g = gen::Gen::new(cfg["seed"].as_u64().unwrap_or(1));
    // printed values: every proper prefix
    let nv = cfg["random_values"].as_u64().unwrap_or(300);
    for i in 0..nv {
        g.dialect = gen::Dialect::Portable;
        g.max_depth = 3;
        let v = g.value();
        if i % 2 == 0 {
            if let Ok(t) = lexpr::to_string(&v) {
                r.text(t.as_bytes(), &dpo, 5);
            }
        } else if let Ok(t) = lexpr::to_string_custom(&v, lexpr::print::Options::elisp()) {
            r.text(t.as_bytes(), &epo, 5);
        }
    }
    // junk: token-alphabet splicing, multi-line, for the location clause
    let nj = cfg["random_junk"].as_u64().unwrap_or(3000);
    let all = all_parse_opts();
    // the token corpus of the specification (every token class with its near misses, out-of-range numbers, bad
    // escapes ...) joins the alphabet, so that every way of failing occurs on later lines and after short lines
    let extra: Vec<Vec<u8>> = cfg["alphabet_extra"].as_array().map(|a| a.iter().map(j_bytes).collect()).unwrap_or_default();
    const LAYOUT: &[&[u8]] = &[b" ", b"\n", b"\n\n", b" \n", b"(", b")", b"\t", b";c\n", b"\r\n", b"[", b"#(", b"'"];
    for i in 0..nj {
        let n = g.rng.gen_range(1..12);
        let mut t = Vec::new();
        let from_corpus = !extra.is_empty() && i % 2 == 1;
        for _ in 0..n {
            if from_corpus {
                // corpus tokens separated by layout, so that each stays one token
                t.extend_from_slice(LAYOUT[g.rng.gen_range(0..LAYOUT.len())]);
                t.extend_from_slice(&extra[g.rng.gen_range(0..extra.len())]);
            } else {
                t.extend_from_slice(ALPHABET[g.rng.gen_range(0..ALPHABET.len())]);
            }
        }
        let ro = if i % 3 == 0 { g.pick(&all).clone() } else if i % 3 == 1 { dpo.clone() } else { epo.clone() };
        r.text(&t, &ro, 3);
    }
    json!({"bad": r.bad, "trace": r.trace, "evaluations": r.evals, "tlc_cases": ncases, "errors_checked": r.errors_seen,
           "prefixes": r.prefixes, "distinct_wellformed": r.distinct.len()})
}

pub fn replay_case(case: &J) -> J {
    let mut r = Runner { bad: vec![], trace: vec![], trace_bytes: 1 << 20, evals: 0, errors_seen: 0, prefixes: 0, distinct: HashSet::new() };
    let text = j_bytes(&case["text"]);
    let trunc = case["trunc"].as_bool().unwrap_or(false);
    for src in SOURCES {
        let res = parse_full(src, &text, &case["ro"]);
        if res["r"] == "notutf8" {
            continue;
        }
        r.check_error(&text, &case["ro"], src, &res, trunc, true);
    }
    json!({"bad": r.bad, "trace": r.trace})
}
