//! C04, C14, C18: the Serde integration.
//!
//! TLC (spec/mc/Serde.tla) supplies, per type of the family: small inhabitants with their
//! documented shape ("rt"), alternative encodings with the documented verdict ("alt"), and
//! arbitrary small S-expression values with the verdict of the type-directed reference ("any").

use crate::codec::*;
use crate::serde_abs::{abs_close, canon, Abs};
use crate::types_gen::*;
use crate::with_family_type;
use lexpr::Value;
use rand::SeedableRng;
use serde::de::DeserializeOwned;
use serde::Serialize;
use serde_json::{json, Value as J};
use std::collections::{BTreeMap, BTreeSet};
use std::fmt::Debug;

fn cat(e: &serde_lexpr::Error) -> &'static str {
    use serde_lexpr::error::Category;
    match e.classify() {
        Category::Io => "io",
        Category::Syntax => "syntax",
        Category::Data => "data",
        Category::Eof => "eof",
    }
}

/// Round trip of one inhabitant: value path and text path. Returns (observations, complaints).
fn rt<T>(x_abs: &J) -> J
where
    T: Serialize + DeserializeOwned + PartialEq + Debug + Abs,
{
    let r = std::panic::catch_unwind(|| {
        let x = T::from_abs(x_abs);
        let mut bad: Vec<String> = Vec::new();
        let v = match serde_lexpr::to_value(&x) {
            Ok(v) => v,
            Err(e) => return json!({"bad":[format!("to_value failed: {}", e)],"v":{"k":"nil"}}),
        };
        match serde_lexpr::from_value::<T>(&v) {
            Ok(y) => {
                if y != x {
                    bad.push(format!("value round trip: {:?} came back as {:?}", x, y));
                }
            }
            Err(e) => bad.push(format!("value round trip: from_value(to_value(x)) failed: {} [{}]", e, cat(&e))),
        }
        // text path with the default printer and parser options
        let mut text = String::new();
        match serde_lexpr::to_string(&x) {
            Ok(t) => {
                text = t.clone();
                match serde_lexpr::from_str::<T>(&t) {
                    Ok(y) => {
                        if y != x && !abs_close(&canon(&x.to_abs()), &canon(&y.to_abs())) {
                            bad.push(format!("text round trip through {:?}: {:?} came back as {:?}", t, x, y));
                        }
                    }
                    Err(e) => bad.push(format!("text round trip: from_str({:?}) failed: {} [{}]", t, e, cat(&e))),
                }
                // the other text entry points agree
                if serde_lexpr::to_vec(&x).ok().map(|b| b == t.as_bytes()) != Some(true) {
                    bad.push("to_vec differs from to_string".to_string());
                }
                let mut w = Vec::new();
                if serde_lexpr::to_writer(&mut w, &x).is_err() || w != t.as_bytes() {
                    bad.push("to_writer differs from to_string".to_string());
                }
                if serde_lexpr::from_slice::<T>(t.as_bytes()).ok().map(|y| y == x || abs_close(&canon(&x.to_abs()), &canon(&y.to_abs()))) != Some(true) {
                    bad.push("from_slice fails or differs on the printed text".to_string());
                }
                if serde_lexpr::from_reader::<T>(t.as_bytes()).ok().map(|y| y == x || abs_close(&canon(&x.to_abs()), &canon(&y.to_abs()))) != Some(true) {
                    bad.push("from_reader fails or differs on the printed text".to_string());
                }
            }
            Err(e) => bad.push(format!("to_string failed: {}", e)),
        }
        json!({"bad":bad,"v":val_to_json(&v),"text":text})
    });
    match r {
        Ok(j) => j,
        Err(p) => json!({"bad":[format!("panic: {}", panic_json(p)["msg"])],"v":{"k":"nil"},"text":""}),
    }
}

/// Deserialize an arbitrary value into T; on success check self-consistency (C18).
fn de<T>(vj: &J) -> J
where
    T: Serialize + DeserializeOwned + PartialEq + Debug + Abs,
{
    let v = json_to_val(vj);
    let r = std::panic::catch_unwind(|| match serde_lexpr::from_value::<T>(&v) {
        Ok(x) => {
            let mut bad: Vec<String> = Vec::new();
            match serde_lexpr::to_value(&x) {
                Ok(v2) => match serde_lexpr::from_value::<T>(&v2) {
                    Ok(y) => {
                        // NaN is not equal to itself: fall back to the Debug rendering
                        if y != x && format!("{:?}", y) != format!("{:?}", x) {
                            bad.push(format!("accepted value misread: {:?} serialises to {} which reads back as {:?}", x, v2, y));
                        }
                    }
                    Err(e) => bad.push(format!("accepted value {:?} serialises to {} which is rejected: {}", x, v2, e)),
                },
                Err(e) => bad.push(format!("to_value failed on an accepted value: {}", e)),
            }
            json!({"r":"ok","x":x.to_abs(),"bad":bad})
        }
        Err(e) => {
            let c = cat(&e);
            json!({"r":"err","cat":c,"msg":e.to_string(),"bad": if c == "data" { vec![] } else { vec![format!("error category is {} instead of data", c)] }})
        }
    });
    match r {
        Ok(j) => j,
        Err(p) => {
            let m = panic_json(p)["msg"].clone();
            json!({"r":"panic","msg":m,"bad":[format!("from_value panicked: {}", m)]})
        }
    }
}

fn arb<T>(seed: u64, depth: u32) -> J
where
    T: Serialize + DeserializeOwned + PartialEq + Debug + Abs,
{
    let mut rng = rand::rngs::StdRng::seed_from_u64(seed);
    T::arb(&mut rng, depth).to_abs()
}

pub fn rt_idx(ti: usize, x: &J) -> J {
    with_family_type!(ti, rt, x)
}
pub fn de_idx(ti: usize, v: &J) -> J {
    with_family_type!(ti, de, v)
}
pub fn arb_idx(ti: usize, seed: u64, depth: u32) -> J {
    with_family_type!(ti, arb, seed, depth)
}

/// Does the deserialization result agree with the documented verdict?
fn judge_de(exp: &J, got: &J) -> Option<String> {
    match exp["t"].as_str().unwrap() {
        "ok" => {
            if got["r"] != "ok" {
                Some(format!("documented as accepted, but: {}", got))
            } else if canon(&got["x"]) != canon(&exp["x"]) {
                Some(format!("read as {} instead of {}", got["x"], exp["x"]))
            } else {
                None
            }
        }
        "err" => {
            if got["r"] == "err" && got["cat"] == "data" {
                None
            } else {
                Some(format!("must be rejected with a data error, got {}", got))
            }
        }
        _ => None,
    }
}

/// Values chosen to stress every deserializer path (C18: "any value"): numbers at and beyond every width, non-finite
/// floats, long and non-ASCII text in every text-like kind, and each of these wrapped the ways the Serde shapes wrap.
fn hostile_values() -> Vec<Value> {
    let mut atoms: Vec<Value> = Vec::new();
    for f in [1e300, -1e300, 3.5e38, 1e39, -1e39, f64::MAX, f64::MIN_POSITIVE, 5e-324, f64::INFINITY, f64::NEG_INFINITY, f64::NAN,
              16777217.0, 0.1, -0.0, 4294967296.0, 1e19, -9.3e18] {
        atoms.push(Value::from(f));
    }
    for n in [u64::MAX, 1 << 63, (1 << 53) + 1, 4294967296, 65536, 256, 128] {
        atoms.push(Value::from(n));
    }
    for n in [i64::MIN, -4294967297, -32769, -129, -1] {
        atoms.push(Value::from(n));
    }
    let texts: Vec<String> = vec![
        String::new(),
        "a".repeat(40),
        format!("{}\u{fc}berl\u{e4}nge", "a".repeat(31)),
        format!("{}\u{20ac}x", "a".repeat(30)),
        "\u{4e2d}\u{6587}".repeat(20),
        "\u{1F600}".repeat(12),
        "nil".into(),
        "#t".into(),
        "\u{0}\u{7f}\"\\".into(),
    ];
    for t in &texts {
        atoms.push(Value::string(t.as_str()));
        atoms.push(Value::symbol(t.as_str()));
        atoms.push(Value::keyword(t.as_str()));
    }
    atoms.push(Value::Char('\u{10ffff}'));
    atoms.push(Value::Char('\u{0}'));
    atoms.push(Value::bytes((0..=255u8).collect::<Vec<u8>>()));
    atoms.push(Value::Nil);
    atoms.push(Value::Null);
    atoms.push(Value::Bool(false));
    let mut out = Vec::new();
    for a in &atoms {
        out.push(a.clone());
        out.push(Value::list(vec![a.clone()]));
        out.push(Value::list(vec![a.clone(), a.clone()]));
        out.push(Value::cons(a.clone(), a.clone()));
        out.push(Value::vector(vec![a.clone()]));
        out.push(Value::list(vec![Value::cons(Value::symbol("a"), a.clone())]));
        out.push(Value::list(vec![Value::cons(a.clone(), 1u32)]));
        out.push(Value::list(vec![Value::symbol("B"), a.clone()]));
        out.push(Value::cons(Value::symbol("A"), a.clone()));
        // association lists with an improper tail after one or two well-formed entries, and with a non-pair entry in
        // the middle
        out.push(Value::append(vec![Value::cons(Value::symbol("a"), a.clone())], a.clone()));
        out.push(Value::append(vec![Value::cons(Value::string("k"), a.clone()), Value::cons(Value::string("j"), a.clone())], a.clone()));
        out.push(Value::append(vec![Value::cons(Value::symbol("x"), true), Value::cons(Value::symbol("y"), 1u32)], a.clone()));
        out.push(Value::list(vec![Value::cons(Value::string("k"), a.clone()), a.clone(), Value::cons(Value::string("j"), a.clone())]));
    }
    out
}

/// cfg: {"cases_file": ndjson of rt / alt / any records, "seed", "random": n per type, "want": ["rt","alt","any"]}
pub fn run(cfg: &J) -> J {
    let mut bad = Vec::new();
    let mut trace = Vec::new();
    let (mut n_rt, mut n_alt, mut n_any, mut n_rand) = (0u64, 0u64, 0u64, 0u64);
    let stride = cfg["trace_stride"].as_u64().unwrap_or(1) as usize;
    let mut li = 0usize;
    if let Some(p) = cfg["cases_file"].as_str() {
        for line in std::fs::read_to_string(p).expect("cases").lines() {
            if line.trim().is_empty() {
                continue;
            }
            li += 1;
            let c: J = serde_json::from_str(line).unwrap();
            let ti = c["ti"].as_u64().unwrap() as usize;
            match c["kind"].as_str().unwrap() {
                "rt" => {
                    n_rt += 1;
                    let o = rt_idx(ti, &c["x"]);
                    for w in o["bad"].as_array().unwrap() {
                        bad.push(json!({"rule":"roundtrip","why":w,"ti":ti,"ty":FAMILY[ti],"x":c["x"]}));
                    }
                    if o["v"] != c["v"] {
                        bad.push(json!({"rule":"shape","why":format!("to_value gives {} but the documented shape is {}", json_to_val(&o["v"]), json_to_val(&c["v"])),
                                        "ti":ti,"ty":FAMILY[ti],"x":c["x"]}));
                    }
                    trace.push(json!({"ev":"ser","ti":ti,"x":c["x"],"v":o["v"]}));
                }
                k @ ("alt" | "any") => {
                    if k == "alt" { n_alt += 1 } else { n_any += 1 }
                    let got = de_idx(ti, &c["v"]);
                    for w in got["bad"].as_array().unwrap() {
                        bad.push(json!({"rule":"deserialize","why":w,"ti":ti,"ty":FAMILY[ti],"v":c["v"]}));
                    }
                    if let Some(w) = judge_de(&c["exp"], &got) {
                        bad.push(json!({"rule": if k == "alt" {"acceptance"} else {"deserialize"},"why":w,"ti":ti,"ty":FAMILY[ti],"v":c["v"]}));
                    }
                    if li % stride == 0 || got["r"] == "ok" {
                        let mut g = got.clone();
                        g.as_object_mut().unwrap().remove("bad");
                        g.as_object_mut().unwrap().remove("msg");
                        if g.get("x").is_none() {
                            g["x"] = json!({"a":"unit"});
                        }
                        if g.get("cat").is_none() {
                            g["cat"] = J::from("-");
                        }
                        trace.push(json!({"ev":"de","ti":ti,"v":c["v"],"res":g}));
                    }
                }
                _ => {}
            }
        }
    }
    // seeded random inhabitants of every type (unbounded strings / collections / integers)
    let per = cfg["random"].as_u64().unwrap_or(50);
    let seed = cfg["seed"].as_u64().unwrap_or(1);
    let tevery = cfg["random_trace_every"].as_u64().unwrap_or(5);
    for ti in 0..FAMILY.len() {
        for k in 0..per {
            n_rand += 1;
            let x = arb_idx(ti, seed.wrapping_mul(1_000_003).wrapping_add(ti as u64 * 7919 + k), 3);
            if x.to_string().contains("nonfinite") {
                continue;
            }
            let o = rt_idx(ti, &x);
            for w in o["bad"].as_array().unwrap() {
                bad.push(json!({"rule":"roundtrip","why":w,"ti":ti,"ty":FAMILY[ti],"x":x}));
            }
            if k % tevery == 0 && o["text"].as_str().map(|t| t.len() < 600).unwrap_or(false) {
                trace.push(json!({"ev":"ser","ti":ti,"x":canon(&x),"v":o["v"]}));
            }
        }
    }
    // long collections, in particular of values that print as () or as an empty token (state accumulated per element)
    let mut n_long = 0u64;
    {
        let mut long_case = |ti: usize, x: J, bad: &mut Vec<J>| {
            n_long += 1;
            let o = rt_idx(ti, &x);
            for w in o["bad"].as_array().unwrap() {
                bad.push(json!({"rule":"roundtrip","why":w,"ti":ti,"ty":FAMILY[ti],"x":x}));
            }
        };
        for f in [f64::MIN_POSITIVE, 5e-324, 2.2250738585072014e-308, 1.2345678901234567e-300, 1.7976931348623157e-292, f64::MAX, 1e-7, -2.5e-310, 1e22, 1e23] {
            long_case(10, f.to_abs(), &mut bad);
        }
        for f in [f32::MIN_POSITIVE, 1e-45f32, f32::MAX, 0.1f32, 16777217.0f32] {
            long_case(9, f.to_abs(), &mut bad);
        }
        // characters that are special to a text format without being ASCII, or whose low byte is
        for c in crate::gen::TRUNCATION_SPECIAL {
            long_case(11, c.to_abs(), &mut bad);
            long_case(12, format!("a{}b", c).to_abs(), &mut bad);
            long_case(35, std::iter::once((format!("k{}", c), 1u32)).collect::<BTreeMap<String, u32>>().to_abs(), &mut bad);
        }
        long_case(12, crate::gen::TRUNCATION_SPECIAL.iter().collect::<String>().to_abs(), &mut bad);
        long_case(13, serde_bytes::ByteBuf::from((0..=255u8).collect::<Vec<u8>>()).to_abs(), &mut bad);
        for n in [130usize, 300] {
            long_case(25, (0..n).map(|i| if i % 3 == 0 { String::new() } else { format!("s\u{0}{}", i) }).collect::<Vec<String>>().to_abs(), &mut bad);
            long_case(26, (0..n).map(|i| if i % 5 == 4 { Some(i as i16) } else { None }).collect::<Vec<Option<i16>>>().to_abs(), &mut bad);
            long_case(27, (0..n).map(|i| if i % 4 == 3 { vec![1u8, 2] } else { Vec::new() }).collect::<Vec<Vec<u8>>>().to_abs(), &mut bad);
            long_case(28, (0..n as u32).collect::<BTreeSet<u32>>().to_abs(), &mut bad);
            long_case(35, (0..n as u32).map(|i| (format!("k{}", i), i)).collect::<BTreeMap<String, u32>>().to_abs(), &mut bad);
            long_case(36, (0..n as i64).map(|i| (i - 100, i % 2 == 0)).collect::<BTreeMap<i64, bool>>().to_abs(), &mut bad);
            long_case(37, (0..n as u32).filter_map(|i| char::from_u32(0x4e00 + i)).map(|c| (c, None)).collect::<BTreeMap<char, Option<u8>>>().to_abs(), &mut bad);
        }
    }
    // hostile values into every type: never a panic, only data errors, accepted values survive their own round trip
    let mut n_hostile = 0u64;
    if cfg["hostile"].as_bool().unwrap_or(true) {
        let hv = hostile_values();
        for ti in 0..FAMILY.len() {
            for v in &hv {
                n_hostile += 1;
                let vj = val_to_json(v);
                let got = de_idx(ti, &vj);
                for w in got["bad"].as_array().unwrap() {
                    bad.push(json!({"rule":"deserialize","why":w,"ti":ti,"ty":FAMILY[ti],"v":vj}));
                }
            }
        }
    }
    let _ = (BTreeMap::<u8, u8>::new(), BTreeSet::<u8>::new());
    json!({"bad": bad, "trace": trace, "rt": n_rt, "alt": n_alt, "any": n_any, "random": n_rand, "hostile": n_hostile, "long": n_long, "types": FAMILY.len()})
}

pub fn replay_case(case: &J) -> J {
    let ti = case["ti"].as_u64().unwrap() as usize;
    let mut bad = Vec::new();
    let mut trace = Vec::new();
    if case.get("x").map(|x| !x.is_null()).unwrap_or(false) {
        let o = rt_idx(ti, &case["x"]);
        for w in o["bad"].as_array().unwrap() {
            bad.push(json!({"rule":"roundtrip","why":w,"ti":ti,"ty":FAMILY[ti],"x":case["x"]}));
        }
        trace.push(json!({"ev":"ser","ti":ti,"x":canon(&case["x"]),"v":o["v"]}));
    } else {
        let got = de_idx(ti, &case["v"]);
        for w in got["bad"].as_array().unwrap() {
            bad.push(json!({"rule":"deserialize","why":w,"ti":ti,"ty":FAMILY[ti],"v":case["v"]}));
        }
        let mut g = got.clone();
        g.as_object_mut().unwrap().remove("bad");
        g.as_object_mut().unwrap().remove("msg");
        if g.get("x").is_none() {
            g["x"] = json!({"a":"unit"});
        }
        if g.get("cat").is_none() {
            g["cat"] = J::from("-");
        }
        trace.push(json!({"ev":"de","ti":ti,"v":case["v"],"res":g}));
    }
    json!({"bad": bad, "trace": trace})
}
