//! X06 (beyond the listed properties): Serde through text under dialect pairings (spec/extra/X06.tla).
//! The text-level entry points must be the composition of the value-level ones with the printer / parser,
//! and must give the outcome the specification predicts for the pairing (including the documented losses).

use crate::codec::*;
use crate::serde_abs::{abs_close, canon, Abs};
use crate::types_gen::*;
use crate::with_family_type;
use serde::de::DeserializeOwned;
use serde::Serialize;
use serde_json::{json, Value as J};
use std::collections::{BTreeMap, BTreeSet};
use std::fmt::Debug;

fn one<T>(c: &J) -> J
where
    T: Serialize + DeserializeOwned + PartialEq + Debug + Abs,
{
    let r = std::panic::catch_unwind(|| {
        let mut bad: Vec<String> = Vec::new();
        let x = T::from_abs(&c["x"]);
        let (po, ro) = (print_opts(&c["po"]), parse_opts(&c["ro"]));
        let text = match serde_lexpr::to_string_custom(&x, po) {
            Ok(t) => t,
            Err(e) => return json!({"bad":[format!("to_string_custom failed: {}", e)],"res":{"t":"ser-err","x":{"a":"unit"}},"text":[]}),
        };
        // composition on the way out: the text is the printer's text of the value-level serialization
        match serde_lexpr::to_value(&x).ok().and_then(|v| lexpr::to_string_custom(&v, po).ok()) {
            Some(t2) if t2 == text => {}
            other => bad.push(format!("to_string_custom gives {:?} but printing to_value gives {:?}", text, other)),
        }
        let direct = serde_lexpr::from_str_custom::<T>(&text, ro);
        // composition on the way in: reading the text is reading the parsed value
        let via = lexpr::from_str_custom(&text, ro).ok().map(|v| serde_lexpr::from_value::<T>(&v));
        match (&direct, &via) {
            (Ok(a), Some(Ok(b))) => {
                if a != b && format!("{:?}", a) != format!("{:?}", b) {
                    bad.push(format!("from_str_custom gives {:?}, from_value of the parsed text gives {:?}", a, b));
                }
            }
            (Err(_), Some(Err(_))) | (Err(_), None) => {}
            _ => bad.push(format!("from_str_custom and from_value of the parsed text disagree on {:?}: {:?} vs {:?}", text, direct.as_ref().map(|_| "ok").map_err(|e| e.to_string()), via.as_ref().map(|r| r.is_ok()))),
        }
        let res = match &direct {
            Ok(y) => json!({"t":"ok","x":canon(&y.to_abs())}),
            Err(_) => json!({"t":"err","x":{"a":"unit"}}),
        };
        // the specification's prediction
        match c["out"]["t"].as_str().unwrap() {
            "ok" => match &direct {
                Ok(y) => {
                    if !abs_close(&canon(&y.to_abs()), &canon(&c["out"]["x"])) {
                        bad.push(format!("text {:?} reads back as {:?}; the specification predicts {}", text, y, c["out"]["x"]));
                    }
                }
                Err(e) => bad.push(format!("text {:?} is rejected ({}); the specification predicts {}", text, e, c["out"]["x"])),
            },
            "err" => {
                if let Ok(y) = &direct {
                    bad.push(format!("text {:?} reads back as {:?}; the specification predicts a data error", text, y));
                }
            }
            _ => {}
        }
        json!({"bad":bad,"res":res,"text":bytes_j(text.as_bytes())})
    });
    match r {
        Ok(j) => j,
        Err(p) => json!({"bad":[format!("panic: {}", panic_json(p)["msg"])],"res":{"t":"panic","x":{"a":"unit"}},"text":[]}),
    }
}

fn one_idx(ti: usize, c: &J) -> J {
    with_family_type!(ti, one, c)
}

pub fn run(cfg: &J) -> J {
    let mut bad = Vec::new();
    let mut trace = Vec::new();
    let mut n = 0u64;
    for line in std::fs::read_to_string(cfg["cases_file"].as_str().unwrap()).expect("cases").lines() {
        if line.trim().is_empty() {
            continue;
        }
        n += 1;
        let c: J = serde_json::from_str(line).unwrap();
        let ti = c["ti"].as_u64().unwrap() as usize;
        let o = one_idx(ti, &c);
        for w in o["bad"].as_array().unwrap() {
            bad.push(json!({"rule":"serde-text","why":w,"ti":ti,"ty":FAMILY[ti],"case":c}));
        }
        trace.push(json!({"ev":"text","ti":ti,"pi":c["pi"],"x":c["x"],"res":o["res"],"text":o["text"]}));
    }
    json!({"bad": bad, "trace": trace, "cases": n})
}
