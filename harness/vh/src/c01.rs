//! C01: print then parse returns the same value (default Scheme dialect), through every
//! combination of the four print and four parse entry points; the printed text goes to TLC
//! where the reference reader (spec/RefRead.tla) must read it as the same datum.

use crate::cmp::*;
use crate::codec::*;
use crate::gen;
use lexpr::Value;
use serde_json::{json, Value as J};
use std::collections::HashSet;

pub const PRINTERS: &[&str] = &["to_string", "to_vec", "to_writer", "display", "to_writer_trickle"];
pub const PARSERS: &[&str] = &["from_str", "from_slice", "from_reader", "str_parse", "from_reader_trickle"];

/// An io::Read that delivers 1, 2, 3, 1, 2, 3 ... bytes per call (short, non-empty reads are legitimate).
struct Trickle<'a> {
    data: &'a [u8],
    pos: usize,
    turn: usize,
}

impl<'a> std::io::Read for Trickle<'a> {
    fn read(&mut self, buf: &mut [u8]) -> std::io::Result<usize> {
        self.turn += 1;
        let n = (1 + self.turn % 3).min(buf.len()).min(self.data.len() - self.pos);
        buf[..n].copy_from_slice(&self.data[self.pos..self.pos + n]);
        self.pos += n;
        Ok(n)
    }
}

/// An io::Write that accepts at most two bytes per call.
struct Sip(Vec<u8>);

impl std::io::Write for Sip {
    fn write(&mut self, buf: &[u8]) -> std::io::Result<usize> {
        let n = buf.len().min(2);
        self.0.extend_from_slice(&buf[..n]);
        Ok(n)
    }
    fn flush(&mut self) -> std::io::Result<()> {
        Ok(())
    }
}

pub fn print_with(ep: &str, v: &Value) -> Result<Vec<u8>, String> {
    let r = std::panic::catch_unwind(|| -> Result<Vec<u8>, String> {
        match ep {
            "to_string" => lexpr::to_string(v).map(|s| s.into_bytes()).map_err(|e| e.to_string()),
            "to_vec" => lexpr::to_vec(v).map_err(|e| e.to_string()),
            "to_writer" => {
                let mut out = Vec::new();
                lexpr::to_writer(&mut out, v).map_err(|e| e.to_string())?;
                Ok(out)
            }
            "display" => Ok(format!("{}", v).into_bytes()),
            "to_writer_trickle" => {
                let mut out = Sip(Vec::new());
                lexpr::to_writer(&mut out, v).map_err(|e| e.to_string())?;
                Ok(out.0)
            }
            x => panic!("printer {}", x),
        }
    });
    match r {
        Ok(x) => x,
        Err(p) => Err(format!("panic: {}", panic_json(p)["msg"])),
    }
}

pub fn parse_with(ep: &str, text: &[u8]) -> J {
    let t = text.to_vec();
    let ep = ep.to_string();
    guarded(move || match ep.as_str() {
        "from_str" => match std::str::from_utf8(&t) {
            Ok(s) => res_json(&lexpr::from_str(s)),
            Err(_) => json!({"r":"notutf8"}),
        },
        "from_slice" => res_json(&lexpr::from_slice(&t)),
        "from_reader" => res_json(&lexpr::from_reader(&t[..])),
        "from_reader_trickle" => res_json(&lexpr::from_reader(Trickle { data: &t, pos: 0, turn: 0 })),
        "str_parse" => match std::str::from_utf8(&t) {
            Ok(s) => res_json(&s.parse::<Value>()),
            Err(_) => json!({"r":"notutf8"}),
        },
        x => panic!("parser {}", x),
    })
}

fn parse_value_with(ep: &str, text: &[u8]) -> Result<Value, String> {
    let r = std::panic::catch_unwind(|| match ep {
        "from_str" => std::str::from_utf8(text).map_err(|e| e.to_string()).and_then(|s| lexpr::from_str(s).map_err(|e| e.to_string())),
        "from_slice" => lexpr::from_slice(text).map_err(|e| e.to_string()),
        "from_reader" => lexpr::from_reader(text).map_err(|e| e.to_string()),
        "from_reader_trickle" => lexpr::from_reader(Trickle { data: text, pos: 0, turn: 0 }).map_err(|e| e.to_string()),
        "str_parse" => std::str::from_utf8(text).map_err(|e| e.to_string()).and_then(|s| s.parse::<Value>().map_err(|e| e.to_string())),
        x => panic!("parser {}", x),
    });
    match r {
        Ok(x) => x,
        Err(p) => Err(format!("panic: {}", panic_json(p)["msg"])),
    }
}

pub struct Runner {
    pub bad: Vec<J>,
    pub trace: Vec<J>,
    pub trace_bytes: usize,
    pub evals: u64,
    pub distinct: HashSet<Vec<u8>>,
    pub rule: FloatRule,
}

impl Runner {
    /// `src`: "tlc" or "random"; `reftext`: the reference printer's text for v, if any
    pub fn one(&mut self, v: &Value, src: &str, reftext: Option<&[u8]>) {
        let vj = val_to_json(v);
        let mut texts: Vec<(String, Vec<u8>)> = Vec::new();
        for p in PRINTERS {
            match print_with(p, v) {
                Ok(t) => {
                    if !texts.iter().any(|(_, x)| *x == t) {
                        texts.push((p.to_string(), t));
                    }
                }
                Err(e) => self.bad.push(json!({"rule":"print-failed","printer":p,"v":vj,"detail":e,"src":src})),
            }
        }
        for (p, t) in &texts {
            for q in PARSERS {
                self.evals += 1;
                match parse_value_with(q, t) {
                    Ok(got) => {
                        if let Err(d) = value_matches(v, &got, self.rule) {
                            self.bad.push(json!({"rule":"roundtrip-differs","printer":p,"parser":q,"v":vj,"text":bytes_j(t),
                                                 "got":val_to_json(&got),"detail":d,"src":src}));
                        }
                    }
                    Err(e) => self.bad.push(json!({"rule":"reparse-failed","printer":p,"parser":q,"v":vj,"text":bytes_j(t),"detail":e,"src":src})),
                }
            }
        }
        if let Some((_, t)) = texts.first() {
            // wide values nest deeper (as cons chains) than the JSON reader of TLC admits (255 levels): native check only
            if self.distinct.insert(t.clone()) && t.len() + 40 <= self.trace_bytes && src != "wide" {
                self.trace_bytes -= t.len() + 40;
                self.trace.push(json!({"ev":"printed","exp":vj,"ro":default_parse_opts_json(),"text":bytes_j(t),"src":src}));
            }
        }
        // the documented-form text of the reference printer must be read by the implementation as v
        if let Some(rt) = reftext {
            self.evals += 1;
            match parse_value_with("from_slice", rt) {
                Ok(got) => {
                    if let Err(d) = value_matches(v, &got, self.rule) {
                        self.bad.push(json!({"rule":"reference-text-misread","v":vj,"text":bytes_j(rt),"got":val_to_json(&got),"detail":d,"src":src}));
                    }
                }
                Err(e) => self.bad.push(json!({"rule":"reference-text-rejected","v":vj,"text":bytes_j(rt),"detail":e,"src":src})),
            }
        }
    }
}

/// cfg: {"cases_file": ndjson of {v, text}, "seed", "random": n, "trace_budget": n}
pub fn run(cfg: &J) -> J {
    let mut r = Runner {
        bad: vec![],
        trace: vec![],
        trace_bytes: cfg["trace_bytes"].as_u64().unwrap_or(200000) as usize,
        evals: 0,
        distinct: HashSet::new(),
        rule: float_rule(),
    };
    let mut ncases = 0u64;
    if let Some(p) = cfg["cases_file"].as_str() {
        let data = std::fs::read_to_string(p).expect("cases file");
        for line in data.lines() {
            if line.trim().is_empty() {
                continue;
            }
            let c: J = serde_json::from_str(line).expect("case json");
            let v = json_to_val(&c["v"]);
            let rt = c.get("text").map(j_bytes);
            r.one(&v, "tlc", rt.as_deref());
            ncases += 1;
        }
    }
    for pv in gen::probe_values() {
        r.one(&pv, "probe", None);
    }
    for wv in gen::wide_values() {
        r.one(&wv, "wide", None);
    }
    let mut g = gen::Gen::new(cfg["seed"].as_u64().unwrap_or(1));
    g.max_depth = 5;
    let n = cfg["random"].as_u64().unwrap_or(2000);
    for i in 0..n {
        if i % 7 == 0 {
            g.max_str = 40;
        } else {
            g.max_str = 8;
        }
        let v = g.value();
        r.one(&v, "random", None);
    }
    json!({"bad": r.bad, "trace": r.trace, "evaluations": r.evals, "tlc_cases": ncases, "random": n,
           "distinct_texts": r.distinct.len(), "fast_float": crate::FAST_FLOAT})
}

pub fn replay_case(case: &J) -> J {
    let mut r = Runner { bad: vec![], trace: vec![], trace_bytes: 1000000, evals: 0, distinct: HashSet::new(), rule: float_rule() };
    let v = json_to_val(&case["v"]);
    let rt = case.get("reftext").map(j_bytes);
    r.one(&v, "replay", rt.as_deref());
    json!({"bad": r.bad, "trace": r.trace})
}
