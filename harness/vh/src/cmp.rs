//! Structural comparison of values with the float accuracy rules of C01/C05.
#![allow(dead_code)]

use crate::codec::f64_parts;
use lexpr::Value;

/// Which accuracy a re-read float must have (C01 quantifier, C05 statement).
#[derive(Clone, Copy, PartialEq, Debug)]
pub enum FloatRule {
    /// bit-exact always (build without fast-float-parsing)
    Exact,
    /// default build: bit-exact when the shortest decimal form has at most 15 significant digits
    /// and |exponent| <= 22, otherwise within relative error 2^-50
    Fast,
}

pub fn float_rule() -> FloatRule {
    if crate::FAST_FLOAT {
        FloatRule::Fast
    } else {
        FloatRule::Exact
    }
}

pub fn must_be_exact(orig: f64) -> bool {
    let (_, digits, e) = f64_parts(orig);
    digits.len() <= 15 && e.abs() <= 22
}

/// Is `got` an acceptable reading of the printed form of `orig`?
pub fn float_ok(orig: f64, got: f64, rule: FloatRule) -> bool {
    if orig.to_bits() == got.to_bits() {
        return true;
    }
    if rule == FloatRule::Exact || must_be_exact(orig) {
        return false;
    }
    within_2_50(orig, got)
}

/// |got - x| <= 2^-50 |x|, or one subnormal ulp in the subnormal range (DESIGN.md C05 interpretation).
pub fn within_2_50(x: f64, got: f64) -> bool {
    if !got.is_finite() || got.is_sign_negative() != x.is_sign_negative() && x != 0.0 && got != 0.0 {
        return false;
    }
    let diff = (got - x).abs();
    if x.abs() < f64::MIN_POSITIVE {
        // subnormal: a relative bound is unattainable, one subnormal ulp is
        return diff <= f64::from_bits(1);
    }
    diff <= x.abs() * (2.0f64).powi(-50)
}

/// Compare `got` against `orig`; floats by `rule`, everything else exactly. Iterative along cdr.
pub fn value_matches(orig: &Value, got: &Value, rule: FloatRule) -> Result<(), String> {
    let (mut a, mut b) = (orig, got);
    loop {
        match (a, b) {
            (Value::Cons(x), Value::Cons(y)) => {
                value_matches(x.car(), y.car(), rule)?;
                a = x.cdr();
                b = y.cdr();
            }
            (Value::Vector(x), Value::Vector(y)) => {
                if x.len() != y.len() {
                    return Err(format!("vector length {} vs {}", x.len(), y.len()));
                }
                for (p, q) in x.iter().zip(y.iter()) {
                    value_matches(p, q, rule)?;
                }
                return Ok(());
            }
            (Value::Number(x), Value::Number(y)) => {
                if x.is_f64() && y.is_f64() {
                    let (f, g) = (x.as_f64().unwrap(), y.as_f64().unwrap());
                    return if float_ok(f, g, rule) {
                        Ok(())
                    } else {
                        Err(format!("float {:e} read back as {:e}", f, g))
                    };
                }
                return if x == y { Ok(()) } else { Err(format!("number {} vs {}", x, y)) };
            }
            _ => {
                return if a == b {
                    Ok(())
                } else {
                    Err(format!("{} vs {}", short(a), short(b)))
                };
            }
        }
    }
}

pub fn short(v: &Value) -> String {
    let s = format!("{:?}", v);
    if s.len() > 120 {
        format!("{}...", s.chars().take(120).collect::<String>())
    } else {
        s
    }
}
