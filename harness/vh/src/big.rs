//! Minimal arbitrary-precision naturals for measuring the accuracy of parsed floats exactly (C05).
#![allow(dead_code)]

use std::cmp::Ordering;

#[derive(Clone, PartialEq, Eq, Debug)]
pub struct Big(Vec<u32>); // little endian limbs, no trailing zero limbs

impl Big {
    pub fn zero() -> Big {
        Big(vec![])
    }
    pub fn from_u64(x: u64) -> Big {
        let mut b = Big(vec![x as u32, (x >> 32) as u32]);
        b.trim();
        b
    }
    fn trim(&mut self) {
        while self.0.last() == Some(&0) {
            self.0.pop();
        }
    }
    pub fn limbs(&self) -> Vec<u32> {
        self.0.clone()
    }
    pub fn is_zero(&self) -> bool {
        self.0.is_empty()
    }
    pub fn mul_small(&mut self, k: u32) {
        let mut carry = 0u64;
        for l in self.0.iter_mut() {
            let t = *l as u64 * k as u64 + carry;
            *l = t as u32;
            carry = t >> 32;
        }
        if carry > 0 {
            self.0.push(carry as u32);
        }
        self.trim();
    }
    pub fn add_small(&mut self, k: u32) {
        let mut carry = k as u64;
        for l in self.0.iter_mut() {
            if carry == 0 {
                break;
            }
            let t = *l as u64 + carry;
            *l = t as u32;
            carry = t >> 32;
        }
        if carry > 0 {
            self.0.push(carry as u32);
        }
    }
    /// digits in the given radix (most significant first, each < radix)
    pub fn from_digits(digits: &[u8], radix: u32) -> Big {
        let mut b = Big::zero();
        for &d in digits {
            b.mul_small(radix);
            b.add_small(d as u32);
        }
        b
    }
    pub fn mul_pow10(&mut self, k: u32) {
        let mut k = k;
        while k >= 9 {
            self.mul_small(1_000_000_000);
            k -= 9;
        }
        for _ in 0..k {
            self.mul_small(10);
        }
    }
    pub fn shl(&mut self, bits: u32) {
        if self.is_zero() {
            return;
        }
        let limbs = (bits / 32) as usize;
        let sh = bits % 32;
        if sh > 0 {
            let mut carry = 0u32;
            for l in self.0.iter_mut() {
                let t = ((*l as u64) << sh) | carry as u64;
                *l = t as u32;
                carry = (t >> 32) as u32;
            }
            if carry > 0 {
                self.0.push(carry);
            }
        }
        if limbs > 0 {
            let mut v = vec![0u32; limbs];
            v.extend_from_slice(&self.0);
            self.0 = v;
        }
    }
    pub fn cmp(&self, o: &Big) -> Ordering {
        if self.0.len() != o.0.len() {
            return self.0.len().cmp(&o.0.len());
        }
        for i in (0..self.0.len()).rev() {
            if self.0[i] != o.0[i] {
                return self.0[i].cmp(&o.0[i]);
            }
        }
        Ordering::Equal
    }
    /// |self - o|
    pub fn abs_diff(&self, o: &Big) -> Big {
        let (a, b) = if self.cmp(o) == Ordering::Less { (o, self) } else { (self, o) };
        let mut out = a.0.clone();
        let mut borrow = 0i64;
        for i in 0..out.len() {
            let t = out[i] as i64 - borrow - *b.0.get(i).unwrap_or(&0) as i64;
            if t < 0 {
                out[i] = (t + (1i64 << 32)) as u32;
                borrow = 1;
            } else {
                out[i] = t as u32;
                borrow = 0;
            }
        }
        let mut r = Big(out);
        r.trim();
        r
    }
}

/// f = m * 2^e exactly, f finite and non-negative
pub fn decompose(f: f64) -> (u64, i32) {
    let bits = f.abs().to_bits();
    let exp = ((bits >> 52) & 0x7ff) as i32;
    let frac = bits & ((1u64 << 52) - 1);
    if exp == 0 {
        (frac, -1074)
    } else {
        (frac | (1u64 << 52), exp - 1075)
    }
}

#[derive(PartialEq, Debug, Clone, Copy)]
pub enum Accuracy {
    /// within relative error 2^-50 (or one subnormal ulp in the subnormal range)
    Within,
    Bad,
}

/// How close is the finite double `f` (>= 0) to the exact value digits * radix-free 10^k, i.e. D * 10^k
/// where D is given as a Big?  (D = 0 handled by the caller.)
pub fn accuracy(f: f64, d: &Big, k: i64) -> Accuracy {
    let (m, e) = decompose(f);
    // f = A / S, x = B / S with S = 2^max(-e,0) * 10^max(-k,0)
    let mut a = Big::from_u64(m);
    if e > 0 {
        a.shl(e as u32);
    }
    if k < 0 {
        a.mul_pow10((-k) as u32);
    }
    let mut b = d.clone();
    if k > 0 {
        b.mul_pow10(k as u32);
    }
    if e < 0 {
        b.shl((-e) as u32);
    }
    let mut diff = a.abs_diff(&b);
    // subnormal range: x < 2^-1022  <=>  B * 2^1022 < S
    let mut s = Big::from_u64(1);
    if e < 0 {
        s.shl((-e) as u32);
    }
    if k < 0 {
        s.mul_pow10((-k) as u32);
    }
    let mut b1022 = b.clone();
    b1022.shl(1022);
    if b1022.cmp(&s) == Ordering::Less {
        // absolute: |A - B| * 2^1074 <= S
        diff.shl(1074);
        return if diff.cmp(&s) != Ordering::Greater { Accuracy::Within } else { Accuracy::Bad };
    }
    diff.shl(50);
    if diff.cmp(&b) != Ordering::Greater {
        Accuracy::Within
    } else {
        Accuracy::Bad
    }
}
