//! C12: datum sequences - concatenation and trivia insensitivity through the four ways of
//! iterating a parser. (Termination of iteration: session.rs.)

use crate::c02::fold;
use crate::cmp::*;
use crate::codec::*;
use crate::gen;
use lexpr::parse::Parser;
use lexpr::Value;
use rand::Rng;
use serde_json::{json, Value as J};
use std::collections::HashSet;

const WAYS: &[&str] = &["next_value", "value_iter", "datum_iter", "parser_iter"];

/// Items a parser yields, by one of the four ways, until end of input; cut off after len + 3 items.
fn items(way: &str, src: usize, text: &[u8], ro: &J) -> Vec<J> {
    let o = parse_opts(ro);
    let cap = text.len() + 3;
    let r = std::panic::catch_unwind(|| {
        let mut out = Vec::new();
        macro_rules! drive {
            ($p:expr) => {{
                let mut p = $p;
                loop {
                    let it = match way {
                        "next_value" => p.next_value().transpose(),
                        "value_iter" => p.value_iter().next(),
                        "datum_iter" => p.datum_iter().next().map(|r| r.map(|d| d.value().clone())),
                        _ => Iterator::next(&mut p),
                    };
                    match it {
                        None => {
                            out.push(json!({"r":"none"}));
                            break;
                        }
                        Some(r) => out.push(res_json(&r)),
                    }
                    if out.len() > cap {
                        out.push(json!({"r":"runaway"}));
                        break;
                    }
                }
            }};
        }
        match src {
            0 => drive!(Parser::from_slice_custom(text, o)),
            1 => drive!(Parser::from_reader_custom(text, o)),
            _ => drive!(Parser::from_str_custom(std::str::from_utf8(text).unwrap(), o)),
        }
        out
    });
    match r {
        Ok(v) => v,
        Err(p) => vec![panic_json(p)],
    }
}

pub struct Runner {
    bad: Vec<J>,
    trace: Vec<J>,
    trace_bytes: usize,
    evals: u64,
    distinct: HashSet<Vec<u8>>,
    rule: FloatRule,
}

impl Runner {
    fn stream(&mut self, text: &[u8], ro: &J, exp: &[Value], want_trace: bool, n: usize) {
        self.distinct.insert(text.to_vec());
        let mut first: Option<Vec<J>> = None;
        for (wi, way) in WAYS.iter().enumerate() {
            let src = (wi + n) % 3;
            self.evals += 1;
            let got = items(way, src, text, ro);
            // expected: the values in order, then end of input
            let mut why = None;
            if got.len() != exp.len() + 1 {
                why = Some(format!("{} items instead of {} values and the end of input", got.len(), exp.len()));
            } else {
                for (g, e) in got.iter().zip(exp.iter()) {
                    if g["r"] != "ok" {
                        why = Some(format!("item is {} instead of a value", g));
                        break;
                    }
                    if let Err(d) = value_matches(e, &json_to_val(&g["v"]), self.rule) {
                        why = Some(format!("item differs: {}", d));
                        break;
                    }
                }
                if why.is_none() && got.last().unwrap()["r"] != "none" {
                    why = Some(format!("stream ends with {} instead of the end of input", got.last().unwrap()));
                }
            }
            if let Some(w) = why {
                self.bad.push(json!({"rule":"concatenation","why":w,"way":way,"src":src,"text":bytes_j(text),"ro":ro,
                                     "exp": exp.iter().map(val_to_json).collect::<Vec<_>>()}));
            }
            match &first {
                None => first = Some(got),
                Some(f) => {
                    if *f != got {
                        self.bad.push(json!({"rule":"ways-differ","why":format!("{} disagrees with {}", way, WAYS[0]),"way":way,"src":src,
                                             "text":bytes_j(text),"ro":ro,"exp": exp.iter().map(val_to_json).collect::<Vec<_>>()}));
                    }
                }
            }
        }
        if want_trace && text.len() + 100 <= self.trace_bytes {
            self.trace_bytes -= text.len() + 100;
            self.trace.push(json!({"ev":"stream","text":bytes_j(text),"ro":ro,"exp": exp.iter().map(val_to_json).collect::<Vec<_>>()}));
        }
    }
}

/// cfg: {"tlc_file": one record {values, trivia, final, lead, maxvals, dialects}, "seed", "random", "trace_bytes", "stride"}
pub fn run(cfg: &J) -> J {
    let setup: J = serde_json::from_str(std::fs::read_to_string(cfg["tlc_file"].as_str().unwrap()).expect("tlc file").lines().next().unwrap()).unwrap();
    let values: Vec<Value> = setup["values"].as_array().unwrap().iter().map(json_to_val).collect();
    let trivia: Vec<Vec<u8>> = setup["trivia"].as_array().unwrap().iter().map(j_bytes).collect();
    let fin: Vec<Vec<u8>> = setup["final"].as_array().unwrap().iter().map(j_bytes).collect();
    let lead: Vec<Vec<u8>> = setup["lead"].as_array().unwrap().iter().map(j_bytes).collect();
    let maxvals = cfg["maxvals"].as_u64().unwrap_or(setup["maxvals"].as_u64().unwrap()) as usize;
    let stride = cfg["stride"].as_u64().unwrap_or(50) as usize;
    let mut r = Runner { bad: vec![], trace: vec![], trace_bytes: cfg["trace_bytes"].as_u64().unwrap_or(150000) as usize, evals: 0,
                         distinct: HashSet::new(), rule: float_rule() };
    let mut n = 0usize;
    for d in setup["dialects"].as_array().unwrap() {
        let (po, ro) = (&d["po"], &d["ro"]);
        let printed: Vec<Vec<u8>> = values.iter().map(|v| lexpr::to_string_custom(v, print_opts(po)).expect("print").into_bytes()).collect();
        let folded: Vec<Value> = values.iter().map(|v| fold(v, po, ro)).collect();
        for len in 0..=maxvals {
            let mut vi = vec![0usize; len];
            loop {
                // all trivia assignments: lead x between^(len-1) x final
                let nb = len.saturating_sub(1);
                let mut ti = vec![0usize; nb];
                loop {
                    for (a, l) in lead.iter().enumerate() {
                        for (z, f) in fin.iter().enumerate() {
                            let mut text = l.clone();
                            for k in 0..len {
                                text.extend_from_slice(&printed[vi[k]]);
                                if k + 1 < len {
                                    text.extend_from_slice(&trivia[ti[k]]);
                                }
                            }
                            text.extend_from_slice(f);
                            let exp: Vec<Value> = vi.iter().map(|&i| folded[i].clone()).collect();
                            n += 1;
                            r.stream(&text, ro, &exp, (n + a + z) % stride == 0, n);
                        }
                    }
                    let mut k = nb;
                    let mut fin_t = true;
                    while k > 0 {
                        k -= 1;
                        ti[k] += 1;
                        if ti[k] < trivia.len() {
                            fin_t = false;
                            break;
                        }
                        ti[k] = 0;
                    }
                    if fin_t {
                        break;
                    }
                }
                let mut k = len;
                let mut fin_v = true;
                while k > 0 {
                    k -= 1;
                    vi[k] += 1;
                    if vi[k] < values.len() {
                        fin_v = false;
                        break;
                    }
                    vi[k] = 0;
                }
                if fin_v {
                    break;
                }
            }
        }
        // seeded: longer streams of random values with random trivia mixes
        let mut g = gen::Gen::new(cfg["seed"].as_u64().unwrap_or(1) + 17);
        g.dialect = gen::Dialect::Portable;
        g.max_depth = 3;
        let ws: [&[u8]; 7] = [b" ", b"\t", b"\r", b"\n", b"\x0C", b";comment (\"\n", b"; \x0C\n"];
        for i in 0..cfg["random"].as_u64().unwrap_or(300) {
            let k = g.rng.gen_range(0..12);
            let vals: Vec<Value> = (0..k).map(|_| g.value()).collect();
            let mut text = Vec::new();
            let mut mix = |g: &mut gen::Gen, text: &mut Vec<u8>, min: usize| {
                let m = g.rng.gen_range(min..4);
                for _ in 0..m {
                    text.extend_from_slice(ws[g.rng.gen_range(0..ws.len())]);
                }
            };
            mix(&mut g, &mut text, 0);
            for (j, v) in vals.iter().enumerate() {
                text.extend_from_slice(lexpr::to_string_custom(v, print_opts(po)).expect("print").as_bytes());
                if j + 1 < vals.len() {
                    mix(&mut g, &mut text, 1);
                }
            }
            mix(&mut g, &mut text, 0);
            if g.chance(0.3) {
                text.extend_from_slice(b";no newline");
            }
            let exp: Vec<Value> = vals.iter().map(|v| fold(v, po, ro)).collect();
            r.stream(&text, ro, &exp, i % 4 == 0, i as usize);
        }
    }
    // texts with trivia at every token boundary inside a datum, generated by spec/mc/C12Spaced.tla with the expected value
    let mut spaced = 0u64;
    if let Some(p) = cfg["spaced_file"].as_str() {
        for (k, line) in std::fs::read_to_string(p).expect("spaced file").lines().enumerate() {
            if line.trim().is_empty() {
                continue;
            }
            let c: J = serde_json::from_str(line).unwrap();
            spaced += 1;
            r.stream(&j_bytes(&c["text"]), &c["ro"], &[json_to_val(&c["exp"])], k % 16 == 0, k);
        }
    }
    json!({"bad": r.bad, "trace": r.trace, "evaluations": r.evals, "streams": n, "spaced": spaced, "distinct": r.distinct.len()})
}

pub fn replay_case(case: &J) -> J {
    let mut r = Runner { bad: vec![], trace: vec![], trace_bytes: 1 << 20, evals: 0, distinct: HashSet::new(), rule: float_rule() };
    let exp: Vec<Value> = case["exp"].as_array().unwrap().iter().map(json_to_val).collect();
    r.stream(&j_bytes(&case["text"]), &case["ro"], &exp, true, 0);
    r.stream(&j_bytes(&case["text"]), &case["ro"], &exp, false, 1);
    r.stream(&j_bytes(&case["text"]), &case["ro"], &exp, false, 2);
    json!({"bad": r.bad, "trace": r.trace})
}
