//! C13: whatever the parser accepts can be printed and read back unchanged (parse, print, parse
//! is a fixed point after one step, up to the documented folding).

use crate::c02::fold;
use crate::cmp::*;
use crate::codec::*;
use lexpr::Value;
use serde_json::{json, Value as J};
use std::collections::HashSet;

fn parse(text: &[u8], ro: &J) -> Result<Value, String> {
    let o = parse_opts(ro);
    let r = std::panic::catch_unwind(|| match std::str::from_utf8(text) {
        Ok(s) => lexpr::from_str_custom(s, o),
        Err(_) => lexpr::from_slice_custom(text, o),
    });
    match r {
        Ok(Ok(v)) => Ok(v),
        Ok(Err(e)) => Err(e.to_string()),
        Err(p) => Err(format!("panic: {}", panic_json(p)["msg"])),
    }
}

fn print(v: &Value, po: &J) -> Result<String, String> {
    let o = print_opts(po);
    match std::panic::catch_unwind(|| lexpr::to_string_custom(v, o)) {
        Ok(Ok(s)) => Ok(s),
        Ok(Err(e)) => Err(e.to_string()),
        Err(p) => Err(format!("panic: {}", panic_json(p)["msg"])),
    }
}

pub struct Runner {
    pub bad: Vec<J>,
    pub trace: Vec<J>,
    pub trace_bytes: usize,
    pub evals: u64,
    pub accepted: u64,
    pub distinct: HashSet<(Vec<u8>, usize)>,
    pub rule: FloatRule,
}

impl Runner {
    pub fn one(&mut self, text: &[u8], oi: usize, ro: &J, po: &J, want_trace: bool) {
        self.evals += 1;
        let v = match parse(text, ro) {
            Ok(v) => v,
            Err(e) => {
                if e.starts_with("panic") {
                    self.bad.push(json!({"rule":"panic","text":bytes_j(text),"ro":ro,"po":po,"detail":e}));
                }
                return;
            }
        };
        self.accepted += 1;
        self.distinct.insert((text.to_vec(), oi));
        let mk = |rule: &str, detail: String, extra: J| json!({"rule":rule,"text":bytes_j(text),"ro":ro,"po":po,"v":val_to_json(&v),"detail":detail,"more":extra});
        let t1 = match print(&v, po) {
            Ok(t) => t,
            Err(e) => {
                self.bad.push(mk("print-failed", e, J::Null));
                return;
            }
        };
        let v2 = match parse(t1.as_bytes(), ro) {
            Ok(v2) => v2,
            Err(e) => {
                self.bad.push(mk("printed-text-rejected", e, json!({"t1":bytes_j(t1.as_bytes())})));
                return;
            }
        };
        let f = fold(&v, po, ro);
        if let Err(d) = value_matches(&f, &v2, self.rule) {
            self.bad.push(mk("reread-differs", d, json!({"t1":bytes_j(t1.as_bytes()),"v2":val_to_json(&v2)})));
            return;
        }
        let t2 = match print(&v2, po) {
            Ok(t) => t,
            Err(e) => {
                self.bad.push(mk("print-failed", e, J::Null));
                return;
            }
        };
        let exact = same_bits(&f, &v2);
        let unfolded = same_bits(&f, &v);
        if exact && unfolded && t2 != t1 {
            self.bad.push(mk("text-not-fixed", "second print differs".into(), json!({"t1":bytes_j(t1.as_bytes()),"t2":bytes_j(t2.as_bytes())})));
        }
        match parse(t2.as_bytes(), ro) {
            Ok(v3) => {
                if let Err(d) = value_matches(&v2, &v3, self.rule) {
                    self.bad.push(mk("not-a-fixed-point", d, json!({"t2":bytes_j(t2.as_bytes()),"v3":val_to_json(&v3)})));
                }
            }
            Err(e) => self.bad.push(mk("second-text-rejected", e, json!({"t2":bytes_j(t2.as_bytes())}))),
        }
        if want_trace && text.len() + t1.len() * 2 + 120 <= self.trace_bytes {
            self.trace_bytes -= text.len() + t1.len() * 2 + 120;
            self.trace.push(json!({"ev":"fix","text":bytes_j(text),"ro":ro,"po":po,"v":val_to_json(&v),"t1":bytes_j(t1.as_bytes()),
                                   "v2":val_to_json(&v2),"t2":bytes_j(t2.as_bytes()),"exact":exact}));
        }
    }
}

/// cfg: {"tlc_file": ndjson with one setup record and text records, "trace_bytes", "trace_stride"}
pub fn run(cfg: &J) -> J {
    let data = std::fs::read_to_string(cfg["tlc_file"].as_str().unwrap()).expect("tlc file");
    let mut alphabet: Vec<Vec<u8>> = vec![];
    let mut maxlen = 0usize;
    let mut opts: Vec<(J, J)> = vec![];
    let mut texts: Vec<Vec<u8>> = vec![];
    for line in data.lines() {
        if line.trim().is_empty() {
            continue;
        }
        let c: J = serde_json::from_str(line).unwrap();
        match c["kind"].as_str().unwrap() {
            "setup" => {
                alphabet = c["alphabet"].as_array().unwrap().iter().map(j_bytes).collect();
                maxlen = c["maxlen"].as_u64().unwrap() as usize;
                opts = c["opts"].as_array().unwrap().iter().map(|o| (o["ro"].clone(), o["po"].clone())).collect();
                opts.sort_by_key(|(r, _)| r.to_string());
            }
            "text" => texts.push(j_bytes(&c["text"])),
            _ => {}
        }
    }
    let nopts = cfg["option_sets"].as_u64().map(|n| n as usize).unwrap_or(opts.len()).min(opts.len());
    let stride = cfg["trace_stride"].as_u64().unwrap_or(5) as usize;
    let mut r = Runner { bad: vec![], trace: vec![], trace_bytes: cfg["trace_bytes"].as_u64().unwrap_or(200000) as usize,
                         evals: 0, accepted: 0, distinct: HashSet::new(), rule: float_rule() };
    for t in &texts {
        for (oi, (ro, po)) in opts.iter().enumerate() {
            r.one(t, oi, ro, po, true);
        }
    }
    // further texts (the token corpus of the specification and tokens that fail in ways of their own, bare and inside a
    // list): whatever of them the parser accepts must print and read back unchanged
    let mut extra = 0u64;
    if let Some(xs) = cfg["extra_texts"].as_array() {
        for x in xs {
            let t = j_bytes(x);
            extra += 1;
            for (oi, (ro, po)) in opts.iter().enumerate() {
                r.one(&t, oi, ro, po, false);
            }
        }
    }
    // all words over the alphabet; symbol 0 is the empty padding and only allowed at the end
    let na = alphabet.len();
    let mut idx = vec![0usize; maxlen];
    let mut words = 0u64;
    'outer: loop {
        let canonical = (0..maxlen.saturating_sub(1)).all(|i| !(alphabet[idx[i]].is_empty() && !alphabet[idx[i + 1]].is_empty()));
        if canonical {
            let mut text = Vec::new();
            for &i in &idx {
                text.extend_from_slice(&alphabet[i]);
            }
            words += 1;
            for (oi, (ro, po)) in opts.iter().take(nopts).enumerate() {
                let before = r.accepted;
                r.one(&text, oi, ro, po, false);
                if r.accepted > before && (words as usize + oi) % stride == 0 {
                    // re-run with tracing for the sampled accepted words
                    r.evals -= 1;
                    r.accepted -= 1;
                    r.one(&text, oi, ro, po, true);
                }
            }
        }
        let mut k = maxlen;
        loop {
            if k == 0 {
                break 'outer;
            }
            k -= 1;
            idx[k] += 1;
            if idx[k] < na {
                break;
            }
            idx[k] = 0;
        }
    }
    json!({"bad": r.bad, "trace": r.trace, "evaluations": r.evals, "accepted": r.accepted, "words": words,
           "corpus_texts": texts.len(), "extra_texts": extra, "option_sets": nopts, "distinct_accepted": r.distinct.len()})
}

pub fn replay_case(case: &J) -> J {
    let mut r = Runner { bad: vec![], trace: vec![], trace_bytes: 1 << 20, evals: 0, accepted: 0, distinct: HashSet::new(), rule: float_rule() };
    r.one(&j_bytes(&case["text"]), 0, &case["ro"], &case["po"], true);
    json!({"bad": r.bad, "trace": r.trace})
}
