//! Seeded random generators for values, identifiers, numbers and texts.
#![allow(dead_code)]

use lexpr::{Cons, Number, Value};
use rand::rngs::StdRng;
use rand::{Rng, SeedableRng};

pub const ASCII_INITIAL: &str = "abcdefghijklmnopqrstuvwxyzABCDEFGHIJKLMNOPQRSTUVWXYZ!$%&*/:<=>?^_~";
pub const ASCII_SUBSEQ_EXTRA: &str = "0123456789+-.@";
/// Representative non-ASCII code points shared with spec/Text.tla (DESIGN.md Appendix B):
/// alphabetic ones may start an identifier.
/// Characters that are special to a text format although they are not ASCII (the Unicode line and paragraph
/// separators, NEL, the byte order mark, soft hyphen, directional marks), and characters whose code point, cut down
/// to its low byte, is a character the string syntax treats specially (`"` `\\` `(` `)` `;` and the controls).
pub const TRUNCATION_SPECIAL: &[char] = &['\u{85}', '\u{2028}', '\u{2029}', '\u{FEFF}', '\u{AD}', '\u{200B}', '\u{200E}', '\u{2066}',
    '\u{2022}', '\u{015C}', '\u{0107}', '\u{201C}', '\u{0122}', '\u{0128}', '\u{0129}', '\u{013B}', '\u{0100}', '\u{010A}', '\u{017F}', '\u{0185}',
    '\u{1F622}', '\u{1005C}', '\u{E0028}'];
pub const NONASCII_ALPHA: &[char] = &['é', 'λ', 'ж', '中', '\u{1D49C}'];
/// non-ASCII, not alphabetic (only as subsequent characters)
pub const NONASCII_OTHER: &[char] = &['→', '€', '\u{0301}', '٣'];

#[derive(Clone, Copy, PartialEq, Debug)]
pub enum Dialect {
    /// default parser options: any R7RS identifier
    Scheme,
    /// names that are plain under every option set of C02: no leading '?', no digit start,
    /// no leading/trailing ':', not nil/t
    Portable,
}

pub struct Gen {
    pub rng: StdRng,
    pub dialect: Dialect,
    pub max_depth: u32,
    pub max_width: usize,
    pub max_str: usize,
    pub floats: bool,
}

pub fn boundary_u64() -> Vec<u64> {
    let mut v = vec![0, 1, 2, 9, 10, 99, 100, 255, 256, 65535, 65536, u64::MAX, u64::MAX - 1];
    for k in [7u32, 8, 15, 16, 31, 32, 52, 53, 62, 63] {
        let p = 1u64 << k;
        v.extend([p - 1, p, p + 1]);
    }
    let mut p10 = 1u64;
    for _ in 0..19 {
        p10 = p10.wrapping_mul(10);
        v.extend([p10 - 1, p10, p10 + 1]);
    }
    v
}

pub fn boundary_i64() -> Vec<i64> {
    let mut v = vec![-1, -2, -9, -10, -128, -129, -255, -256, -32768, -32769, i64::MIN, i64::MIN + 1];
    for k in [7u32, 8, 15, 16, 31, 32, 52, 53, 62] {
        let p = 1i64 << k;
        v.extend([-(p - 1), -p, -(p + 1)]);
    }
    v
}

pub fn boundary_f64() -> Vec<f64> {
    vec![
        0.0, -0.0, 1.0, -1.0, 1.5, 0.1, 0.5, 1e21, 1e22, 1e23, 5e-324, 2.2250738585072014e-308,
        2.225073858507201e-308, 1.7976931348623157e308, 123456789012345680.0, 1.0e-7, 1e15, 1e16,
        9007199254740992.0, 9007199254740993.0, 0.3, 2.5e-5, 1e-5, 123456.789, 1e100, 1e-100,
        4.9e-324, 1e300, 3.141592653589793, 2.718281828459045, 18446744073709552000.0,
        9223372036854775808.0, -9223372036854775808.0, 1e-323, 8.98846567431158e307,
    ]
}

impl Gen {
    pub fn new(seed: u64) -> Gen {
        Gen {
            rng: StdRng::seed_from_u64(seed),
            dialect: Dialect::Scheme,
            max_depth: 4,
            max_width: 5,
            max_str: 8,
            floats: true,
        }
    }

    pub fn pick<'a, T>(&mut self, xs: &'a [T]) -> &'a T {
        &xs[self.rng.gen_range(0..xs.len())]
    }

    pub fn chance(&mut self, p: f64) -> bool {
        self.rng.gen_bool(p)
    }

    /// Any Unicode scalar value, biased towards interesting classes.
    pub fn any_char(&mut self) -> char {
        match self.rng.gen_range(0..12) {
            0 => char::from(self.rng.gen_range(0u8..32)),
            1 => *self.pick(&['"', '\\', '\x7f', ' ', '(', ')', '[', ']', ';', '#', '|', '\'', '`', ',', '.', '?', 'x']),
            2 | 3 | 4 => char::from(self.rng.gen_range(32u8..127)),
            5 => char::from_u32(self.rng.gen_range(0x80..0x100)).unwrap(),
            6 => char::from_u32(self.rng.gen_range(0x100..0x800)).unwrap(),
            7 => loop {
                if let Some(c) = char::from_u32(self.rng.gen_range(0x800..0x10000)) {
                    break c;
                }
            },
            8 => char::from_u32(self.rng.gen_range(0x10000..0x110000)).unwrap(),
            9 => *self.pick(&['\u{D7FF}', '\u{E000}', '\u{FFFD}', '\u{FFFF}', '\u{10000}', '\u{10FFFF}', '\u{7FF}', '\u{800}', '\u{80}', '\u{FF}']),
            10 => *self.pick(TRUNCATION_SPECIAL),
            _ => loop {
                if let Some(c) = char::from_u32(self.rng.gen_range(0..0x110000)) {
                    break c;
                }
            },
        }
    }

    pub fn any_string(&mut self) -> String {
        let n = self.rng.gen_range(0..=self.max_str);
        (0..n).map(|_| self.any_char()).collect()
    }

    fn initial(&mut self) -> char {
        if self.chance(0.15) {
            *self.pick(NONASCII_ALPHA)
        } else {
            let cs: Vec<char> = ASCII_INITIAL.chars().collect();
            *self.pick(&cs)
        }
    }

    fn subsequent(&mut self) -> char {
        match self.rng.gen_range(0..10) {
            0 => *self.pick(NONASCII_ALPHA),
            1 => *self.pick(NONASCII_OTHER),
            2 | 3 => {
                let cs: Vec<char> = ASCII_SUBSEQ_EXTRA.chars().collect();
                *self.pick(&cs)
            }
            _ => {
                let cs: Vec<char> = ASCII_INITIAL.chars().collect();
                *self.pick(&cs)
            }
        }
    }

    fn sign_subsequent(&mut self) -> char {
        // initial | + | - | @
        if self.chance(0.3) {
            *self.pick(&['+', '-', '@'])
        } else {
            self.initial()
        }
    }

    /// A plain identifier of the dialect (R7RS <identifier> without |...|).
    pub fn ident(&mut self) -> String {
        loop {
            let s = self.ident_raw();
            if self.ident_ok(&s) {
                return s;
            }
        }
    }

    fn ident_ok(&self, s: &str) -> bool {
        match self.dialect {
            Dialect::Scheme => true,
            Dialect::Portable => {
                let f = s.chars().next().unwrap();
                !(f == '?' || f == ':' || s.ends_with(':') || s == "nil" || s == "t" || f.is_ascii_digit())
            }
        }
    }

    fn ident_raw(&mut self) -> String {
        let mut s = String::new();
        let n = self.rng.gen_range(0..6);
        match self.rng.gen_range(0..10) {
            0 => {
                // peculiar identifiers
                match self.rng.gen_range(0..5) {
                    0 => s.push(*self.pick(&['+', '-'])),
                    1 => {
                        s.push(*self.pick(&['+', '-']));
                        s.push(self.sign_subsequent());
                        for _ in 0..n {
                            s.push(self.subsequent());
                        }
                    }
                    2 => {
                        s.push(*self.pick(&['+', '-']));
                        s.push('.');
                        let d = if self.chance(0.3) { '.' } else { self.sign_subsequent() };
                        s.push(d);
                        for _ in 0..n {
                            s.push(self.subsequent());
                        }
                    }
                    3 => {
                        s.push('.');
                        let d = if self.chance(0.3) { '.' } else { self.sign_subsequent() };
                        s.push(d);
                        for _ in 0..n {
                            s.push(self.subsequent());
                        }
                    }
                    _ => s.push_str(*self.pick(&["...", "..", "->", "+", "-", "<=?", "1+"][..6])),
                }
            }
            1 => s.push_str(*self.pick(&["a", "x", "t", "nil", "foo-bar", "list->vector", "a.b", "a1", "!", "$?:!", "x@y", "a+", "set!", "nilx", "tt", "e", "E1", "b1", "d", "f", "inf", "nan"])),
            _ => {
                s.push(self.initial());
                for _ in 0..n {
                    s.push(self.subsequent());
                }
            }
        }
        s
    }

    pub fn number(&mut self) -> Number {
        match self.rng.gen_range(0..8) {
            0 => Number::from(*self.pick(&boundary_u64())),
            1 => Number::from(*self.pick(&boundary_i64())),
            2 => Number::from(self.rng.gen::<u64>()),
            3 => Number::from(self.rng.gen::<i64>()),
            4 => Number::from(self.rng.gen_range(-1000i64..1000)),
            5 if self.floats => Number::from(*self.pick(&boundary_f64())),
            6 | 7 if self.floats => Number::from(self.any_f64()),
            _ => Number::from(self.rng.gen_range(0u64..100000)),
        }
    }

    /// A finite double: random bit patterns, short decimals, integers-as-floats.
    pub fn any_f64(&mut self) -> f64 {
        match self.rng.gen_range(0..5) {
            0 => loop {
                let f = f64::from_bits(self.rng.gen::<u64>());
                if f.is_finite() {
                    break f;
                }
            },
            1 => {
                // at most 15 significant digits, small exponent: must round-trip bit-exactly
                let m = self.rng.gen_range(0u64..1_000_000_000_000_000) as f64;
                let e = self.rng.gen_range(-22i32..=22);
                let s = format!("{}e{}", m, e);
                s.parse().unwrap()
            }
            2 => (self.rng.gen_range(-1_000_000i64..1_000_000) as f64) / 1000.0,
            3 => self.rng.gen::<u64>() as f64,
            _ => {
                // subnormals and extremes
                let bits = match self.rng.gen_range(0..3) {
                    0 => self.rng.gen_range(0u64..(1u64 << 52)),
                    1 => 0x7FE0_0000_0000_0000u64 | self.rng.gen_range(0u64..(1u64 << 52)),
                    _ => self.rng.gen_range(0u64..4096),
                };
                let f = f64::from_bits(bits);
                if self.chance(0.5) {
                    -f
                } else {
                    f
                }
            }
        }
    }

    pub fn atom(&mut self) -> Value {
        match self.rng.gen_range(0..12) {
            0 => Value::Nil,
            1 => Value::Null,
            2 => Value::Bool(self.chance(0.5)),
            3 | 4 => Value::Number(self.number()),
            5 => Value::Char(self.any_char()),
            6 => Value::string(self.any_string()),
            7 | 8 => Value::symbol(self.ident()),
            9 => Value::keyword(self.ident()),
            10 => {
                let n = self.rng.gen_range(0..6);
                Value::bytes((0..n).map(|_| self.rng.gen::<u8>()).collect::<Vec<u8>>())
            }
            _ => Value::Number(Number::from(self.rng.gen_range(0u64..10))),
        }
    }

    pub fn value(&mut self) -> Value {
        let d = self.max_depth;
        self.value_d(d)
    }

    pub fn value_d(&mut self, depth: u32) -> Value {
        if depth == 0 || self.chance(0.35) {
            return self.atom();
        }
        let w = self.rng.gen_range(0..=self.max_width);
        match self.rng.gen_range(0..4) {
            0 => Value::vector((0..w).map(|_| self.value_d(depth - 1)).collect::<Vec<_>>()),
            1 => {
                // dotted list with an atom or vector tail
                let mut tail = if self.chance(0.2) {
                    Value::vector(vec![self.atom()])
                } else {
                    self.atom()
                };
                for _ in 0..w.max(1) {
                    tail = Value::Cons(Cons::new(self.value_d(depth - 1), tail));
                }
                tail
            }
            _ => Value::list((0..w).map(|_| self.value_d(depth - 1)).collect::<Vec<_>>()),
        }
    }
}

/// A fixed set of probe values of every kind (used by C07 and as seeds elsewhere).
/// Wide values: many siblings of one kind in a single datum (state a parser or printer accumulates per element -
/// a budget, a buffer, a flag - only shows after a hundred or more of them).
pub fn wide_values() -> Vec<Value> {
    let sym = |s: &str| Value::symbol(s);
    let elems: Vec<Value> = vec![
        Value::vector(Vec::<Value>::new()),
        Value::vector(vec![Value::from(1u8)]),
        Value::Null,
        Value::list(vec![sym("a")]),
        Value::list(vec![sym("quote"), sym("a")]),
        Value::list(vec![sym("unquote-splicing"), Value::list(vec![sym("a")])]),
        Value::cons(sym("a"), sym("b")),
        Value::bytes(vec![1u8]),
        Value::bytes(Vec::<u8>::new()),
        Value::string("s\u{0}"),
        Value::string(""),
        Value::Char('('),
        Value::keyword("k"),
        Value::Nil,
        Value::from(-1.5),
        Value::Bool(false),
    ];
    let mut out = Vec::new();
    for n in [130usize, 300] {
        for e in &elems {
            out.push(Value::list(std::iter::repeat(e.clone()).take(n)));
            out.push(Value::vector(std::iter::repeat(e.clone()).take(n)));
        }
        out.push(Value::list((0..n).map(|i| elems[i % elems.len()].clone())));
        out.push(Value::append((0..n).map(|i| elems[i % 3].clone()), Value::vector(vec![sym("t")])));
    }
    // two levels: 20 lists of 15 vectors each
    out.push(Value::list((0..20).map(|_| Value::list((0..15).map(|i| Value::vector(vec![Value::from(i as u8)]))))));
    out
}

pub fn probe_values() -> Vec<Value> {
    let mut out = probe_values_base();
    for c in TRUNCATION_SPECIAL {
        out.push(Value::string(format!("a{}b", c)));
        out.push(Value::Char(*c));
    }
    out.push(Value::string(TRUNCATION_SPECIAL.iter().collect::<String>()));
    // byte vectors longer than any buffer a printer might batch octets in
    out.push(Value::bytes((0..=255u8).collect::<Vec<u8>>()));
    out.push(Value::bytes(vec![7u8; 150]));
    out.push(Value::bytes((0..90u8).map(|i| 100 + i).collect::<Vec<u8>>()));
    for s in ["\u{7f}", "a\u{7f}b", "\u{7f}\u{3bb}", "plain", "\u{80}\u{9f}"] {
        out.push(Value::string(s));
        out.push(Value::symbol(s.replace('\u{7f}', "x").replace('\u{80}', "y").replace('\u{9f}', "z")));
    }
    out
}

fn probe_values_base() -> Vec<Value> {
    use lexpr::sexp;
    let mut v = vec![
        Value::Nil,
        Value::Null,
        Value::Bool(true),
        Value::Bool(false),
        Value::from(0u64),
        Value::from(7u64),
        Value::from(12345u64),
        Value::from(u64::MAX),
        Value::from(-1i64),
        Value::from(-98765i64),
        Value::from(i64::MIN),
        Value::from(1.5f64),
        Value::from(-0.0f64),
        Value::from(1e21f64),
        Value::from(5e-324f64),
        Value::from(123456.789f64),
        Value::Char('a'),
        Value::Char('('),
        Value::Char('\n'),
        Value::Char('λ'),
        Value::Char('\u{1F600}'),
        Value::string(""),
        Value::string("hello world"),
        Value::string("a\"b\\c\nd\te\x07\x01\x7fλ\u{1F600}"),
        Value::symbol("foo-bar"),
        Value::symbol("+"),
        Value::symbol("λ"),
        Value::keyword("key"),
        Value::bytes(Vec::<u8>::new()),
        Value::bytes(vec![0u8]),
        Value::bytes(vec![1u8, 22, 255, 128, 100]),
        Value::vector(Vec::<Value>::new()),
        Value::vector(vec![Value::from(100u64), Value::from(-200i64), Value::symbol("x")]),
        sexp!((1 2 3)),
        sexp!((1000 . 2000)),
        sexp!((a (b (c . d)) #(1 #(22 33)) "str" . 4.25)),
        sexp!(((1234567 . 89) (#:k . "v") ())),
    ];
    v.push(Value::list(vec![
        Value::bytes(vec![10u8, 200, 30]),
        Value::from(4294967296u64),
        Value::Nil,
        Value::Bool(false),
    ]));
    v.push(Value::list((0..40).map(|i| Value::from(i * 37 + 100)).collect::<Vec<Value>>()));
    v.push(Value::vector(vec![Value::bytes(vec![255u8, 254]), Value::Char('\\'), Value::keyword("λk")]));
    v
}
