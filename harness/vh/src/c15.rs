//! C15: list construction, traversal, conversion and indexing are consistent.

use crate::codec::*;
use lexpr::{Cons, Value};
use rand::{Rng, SeedableRng};
use serde_json::{json, Value as J};

fn none() -> J {
    json!({"k":"-"})
}

fn opt(v: Option<&Value>) -> J {
    v.map(val_to_json).unwrap_or_else(none)
}

fn vals(vs: &[Value]) -> J {
    J::Array(vs.iter().map(val_to_json).collect())
}

/// Everything the accessors say about `v`, in the shape TLC emits its expectations.
fn observe(v: &Value) -> J {
    let mut o = serde_json::Map::new();
    o.insert("proper".into(), J::from(v.is_list()));
    o.insert("dotted".into(), J::from(v.is_dotted_list()));
    // element iterator driven to exhaustion (plus two further calls)
    let mut yielded = Vec::new();
    let mut extra_ok = true;
    if let Some(mut it) = v.list_iter() {
        let mut guard = 0;
        loop {
            guard += 1;
            match it.next() {
                Some(x) => yielded.push(val_to_json(x)),
                None => {
                    if it.is_empty() {
                        break;
                    }
                    yielded.push(none());
                }
            }
            if guard > 100000 {
                break;
            }
        }
        extra_ok = it.next().is_none() && it.next().is_none() && it.peek().is_none() && it.is_empty();
    }
    o.insert("yield".into(), J::Array(yielded));
    o.insert("exhausted_stays".into(), J::from(extra_ok));
    // positional indexing
    let nth: Vec<J> = (0..7usize).map(|i| opt(v.get(i))).collect();
    o.insert("nth".into(), J::Array(nth));
    o.insert("nthmax".into(), opt(v.get(usize::MAX)));
    let idx_ok = (0..7usize).all(|i| match v.get(i) {
        Some(x) => v[i] == *x,
        None => v[i] == Value::Nil,
    });
    o.insert("index_operator_agrees".into(), J::from(idx_ok));
    // conversions
    if let Value::Cons(c) = v {
        let (a, at) = c.to_vec();
        let (b, bt) = c.to_ref_vec();
        let (cvec, ct) = c.clone().into_vec();
        o.insert("cars".into(), vals(&a));
        o.insert("tail".into(), val_to_json(&at));
        let same = a == cvec && at == ct && a.len() == b.len() && a.iter().zip(b.iter()).all(|(x, y)| x == *y) && at == *bt;
        o.insert("vec_conversions_agree".into(), J::from(same));
        o.insert("cells".into(), J::from(c.iter().count()));
        let cell_cars: Vec<Value> = c.iter().map(|p| p.car().clone()).collect();
        o.insert("cell_cars_agree".into(), J::from(cell_cars == a));
        // consuming iterator: each element once, the tail attached to the last
        let items: Vec<(Value, Option<Value>)> = c.clone().into_iter().collect();
        let into_ok = items.len() == a.len()
            && items.iter().zip(a.iter()).all(|((x, _), y)| x == y)
            && items.iter().enumerate().all(|(i, (_, r))| if i + 1 == items.len() { r.as_ref() == Some(&at) } else { r.is_none() });
        o.insert("into_iter_ok".into(), J::from(into_ok));
        let (car, cdr) = c.as_pair();
        o.insert("pair_ok".into(), J::from(Some((car, cdr)) == v.as_pair() && c.car() == car && c.cdr() == cdr));
    } else {
        o.insert("cars".into(), json!([]));
        o.insert("tail".into(), val_to_json(v));
        o.insert("vec_conversions_agree".into(), J::from(true));
        o.insert("cells".into(), J::from(0));
        o.insert("cell_cars_agree".into(), J::from(true));
        o.insert("into_iter_ok".into(), J::from(true));
        o.insert("pair_ok".into(), J::from(v.as_pair().is_none()));
    }
    // Value::to_vec / to_ref_vec: Some(elements) exactly for proper lists
    let tv = v.to_vec();
    let trv = v.to_ref_vec();
    o.insert("value_to_vec".into(), tv.as_ref().map(|x| vals(x)).unwrap_or_else(none));
    o.insert("value_to_ref_vec_agrees".into(), J::from(match (&tv, &trv) {
        (Some(a), Some(b)) => a.len() == b.len() && a.iter().zip(b.iter()).all(|(x, y)| x == *y),
        (None, None) => true,
        _ => false,
    }));
    // association list lookups
    let names = ["a", "b", "zz"];
    o.insert("byname".into(), J::Array(names.iter().map(|n| opt(v.get(*n))).collect()));
    let keys = [Value::symbol("a"), Value::string("a"), Value::from(1u64)];
    o.insert("byvalue".into(), J::Array(keys.iter().map(|k| opt(v.get(k))).collect()));
    let strings_ok = names.iter().all(|n| opt(v.get(*n)) == opt(v.get(n.to_string())) && match v.get(*n) { Some(x) => v[*n] == *x, None => v[*n] == Value::Nil });
    o.insert("string_index_agrees".into(), J::from(strings_ok));
    J::Object(o)
}

fn build_variants(xs: &[Value], t: &Value) -> Vec<(&'static str, Value)> {
    let mut out = vec![("append", Value::append(xs.to_vec(), t.clone()))];
    // by hand from cons cells
    let mut acc = t.clone();
    for x in xs.iter().rev() {
        acc = Value::Cons(Cons::new(x.clone(), acc));
    }
    out.push(("cons-cells", acc));
    let mut acc2 = t.clone();
    for x in xs.iter().rev() {
        acc2 = Value::cons(x.clone(), acc2);
    }
    out.push(("Value::cons", acc2));
    if t.is_null() {
        out.push(("Value::list", Value::list(xs.to_vec())));
        out.push(("From<Vec>", if xs.is_empty() { Value::Null } else { Value::list(xs.to_vec()) }));
    }
    if let [x] = xs {
        out.push(("From<(T,U)>", Value::from((x.clone(), t.clone()))));
    }
    out
}

const KEYS: &[&str] = &["proper", "dotted", "yield", "nth", "nthmax", "cars", "tail", "byname", "byvalue"];

fn iter_session(v: &Value, rng: &mut rand::rngs::StdRng) -> Vec<J> {
    let mut out = Vec::new();
    let n = rng.gen_range(1..12);
    let ops: Vec<u8> = (0..n).map(|_| rng.gen_range(0..3)).collect();
    if let Some(mut it) = v.list_iter() {
        let mut calls = Vec::new();
        for &op in &ops {
            calls.push(match op {
                0 => json!({"op":"next","out":opt(it.next())}),
                1 => json!({"op":"peek","out":opt(it.peek())}),
                _ => json!({"op":"is_empty","out":it.is_empty()}),
            });
        }
        out.push(json!({"ev":"iter","kind":"list_iter","v":val_to_json(v),"calls":calls}));
    }
    if let Value::Cons(c) = v {
        let mut it = c.iter();
        let mut calls = Vec::new();
        for &op in &ops {
            calls.push(match op {
                0 | 2 => json!({"op":"next","out":it.next().map(|p| json!({"car":val_to_json(p.car()),"cdr":val_to_json(p.cdr())})).unwrap_or_else(none)}),
                _ => json!({"op":"peek","out":it.peek().map(|p| json!({"car":val_to_json(p.car()),"cdr":val_to_json(p.cdr())})).unwrap_or_else(none)}),
            });
        }
        out.push(json!({"ev":"iter","kind":"cells","v":val_to_json(v),"calls":calls}));
        let mut it = c.clone().into_iter();
        let mut calls = Vec::new();
        for &op in &ops {
            calls.push(match op {
                0 | 2 => json!({"op":"next","out":it.next().map(|(a, r)| json!({"car":val_to_json(&a),"rest":r.as_ref().map(val_to_json).unwrap_or_else(none)})).unwrap_or_else(none)}),
                _ => json!({"op":"peek","out":it.peek().map(|p| json!({"car":val_to_json(p.car()),"cdr":val_to_json(p.cdr())})).unwrap_or_else(none)}),
            });
        }
        out.push(json!({"ev":"iter","kind":"into_iter","v":val_to_json(v),"calls":calls}));
    }
    out
}

/// cfg: {"cases_file", "seed", "iter_sessions": n, "long": [lengths]}
pub fn run(cfg: &J) -> J {
    let mut bad = Vec::new();
    let mut trace = Vec::new();
    let mut evals = 0u64;
    let mut ncases = 0u64;
    let mut rng = rand::rngs::StdRng::seed_from_u64(cfg["seed"].as_u64().unwrap_or(1));
    let every = cfg["iter_every"].as_u64().unwrap_or(10) as usize;
    for (li, line) in std::fs::read_to_string(cfg["cases_file"].as_str().unwrap()).expect("cases").lines().enumerate() {
        if line.trim().is_empty() {
            continue;
        }
        let c: J = serde_json::from_str(line).unwrap();
        ncases += 1;
        let xs: Vec<Value> = c["xs"].as_array().unwrap().iter().map(json_to_val).collect();
        let t = json_to_val(&c["t"]);
        let r = std::panic::catch_unwind(|| {
            let mut local_bad = Vec::new();
            let variants = build_variants(&xs, &t);
            for (how, v) in &variants {
                if val_to_json(v) != c["v"] {
                    local_bad.push(json!({"rule":"build","why":format!("{} builds a different value than the list model", how),"case":{"xs":c["xs"],"t":c["t"]}}));
                    continue;
                }
                let o = observe(v);
                for k in KEYS {
                    if o[*k] != c[*k] {
                        local_bad.push(json!({"rule":"accessor","why":format!("{} (built by {}): got {} expected {}", k, how, o[*k], c[*k]),"case":{"xs":c["xs"],"t":c["t"]}}));
                    }
                }
                for k in ["exhausted_stays", "index_operator_agrees", "vec_conversions_agree", "cell_cars_agree", "into_iter_ok", "pair_ok",
                          "value_to_ref_vec_agrees", "string_index_agrees"] {
                    if o[k] != true {
                        local_bad.push(json!({"rule":"accessor","why":format!("{} fails (built by {})", k, how),"case":{"xs":c["xs"],"t":c["t"]}}));
                    }
                }
                let want_tv = if c["proper"] == true { c["cars"].clone() } else { none() };
                if o["value_to_vec"] != want_tv {
                    local_bad.push(json!({"rule":"accessor","why":format!("Value::to_vec: got {} expected {}", o["value_to_vec"], want_tv),"case":{"xs":c["xs"],"t":c["t"]}}));
                }
                if o["cells"] != c["cars"].as_array().unwrap().len() {
                    local_bad.push(json!({"rule":"accessor","why":format!("cell iteration visits {} cells, the list has {} elements", o["cells"], c["cars"].as_array().unwrap().len()),"case":{"xs":c["xs"],"t":c["t"]}}));
                }
            }
            // construction is injective: a list differs from its own proper prefix and from its extension (same tail),
            // and as keys of an association list the three are told apart
            if let (Some((_, v)), false) = (variants.first(), xs.is_empty()) {
                let shorter = Value::append(xs[..xs.len() - 1].iter().cloned(), t.clone());
                let longer = Value::append(xs.iter().cloned().chain(std::iter::once(xs[0].clone())), t.clone());
                for (name, w) in [("its own proper prefix", &shorter), ("its own extension", &longer)] {
                    if v == w || w == v {
                        local_bad.push(json!({"rule":"accessor","why":format!("the list compares equal to {} with the same tail", name),"case":{"xs":c["xs"],"t":c["t"]}}));
                    }
                }
                let alist = Value::list(vec![Value::cons(shorter.clone(), 1u8), Value::cons(v.clone(), 2u8), Value::cons(longer.clone(), 3u8)]);
                let got: Vec<Option<u64>> = [&shorter, v, &longer].iter().map(|k| alist.get(*k).and_then(|x| x.as_u64())).collect();
                if got != [Some(1), Some(2), Some(3)] || alist[v] != 2u8 {
                    local_bad.push(json!({"rule":"accessor","why":format!("lookup by value with the list, its prefix and its extension as keys finds {:?}", got),"case":{"xs":c["xs"],"t":c["t"]}}));
                }
            }
            (local_bad, variants.len())
        });
        match r {
            Ok((b, n)) => {
                bad.extend(b);
                evals += n as u64;
            }
            Err(p) => bad.push(json!({"rule":"panic","why":format!("accessor panicked: {}", panic_json(p)["msg"]),"case":{"xs":c["xs"],"t":c["t"]}})),
        }
        if li % every == 0 {
            trace.extend(iter_session(&json_to_val(&c["v"]), &mut rng));
        }
    }
    // indexing never panics on any value kind
    for v in crate::gen::probe_values() {
        let r = std::panic::catch_unwind(|| {
            let _ = (&v[0], &v[usize::MAX], &v["a"], &v[&Value::symbol("a")], v.get(3), v.get("x"), v.get(String::from("x")));
            v.list_iter().is_some() == (v.is_cons() || v.is_null())
        });
        evals += 1;
        if !matches!(r, Ok(true)) {
            bad.push(json!({"rule":"panic","why":"indexing / list_iter on a probe value panicked or misbehaved","case":{"v":val_to_json(&v)}}));
        }
    }
    // long lists with computable elements: element i is the integer 3i+1
    for n in cfg["long"].as_array().map(|a| a.iter().map(|x| x.as_u64().unwrap() as usize).collect::<Vec<_>>()).unwrap_or_default() {
        for dotted in [false, true] {
            let tail = if dotted { Value::symbol("end") } else { Value::Null };
            let v = Value::append((0..n).map(|i| Value::from((3 * i + 1) as u64)), tail.clone());
            let probes: Vec<J> = [0usize, 1, n / 2, n.saturating_sub(1), n, n + 1, usize::MAX].iter().map(|&i| json!({"i": if i == usize::MAX { -1 } else { i as i64 }, "got": opt(v.get(i))})).collect();
            let veclen = match &v {
                Value::Cons(c) => c.to_vec().0.len(),
                _ => 0,
            };
            let yieldcount = v.list_iter().map(|mut it| {
                let mut k = 0usize;
                loop {
                    match it.next() {
                        Some(_) => k += 1,
                        None => {
                            if it.is_empty() {
                                break;
                            }
                        }
                    }
                }
                k
            }).unwrap_or(0);
            let cells = match &v {
                Value::Cons(c) => c.iter().count(),
                _ => 0,
            };
            evals += 1;
            trace.push(json!({"ev":"long","n":n,"dotted":dotted,"probes":probes,"veclen":veclen,"yieldcount":yieldcount,"cells":cells,
                              "proper":v.is_list(),"isdotted":v.is_dotted_list(),"tovec_some":v.to_vec().is_some()}));
        }
    }
    json!({"bad": bad, "trace": trace, "evaluations": evals, "tlc_cases": ncases})
}

pub fn replay_case(case: &J) -> J {
    // re-run one (xs, t) case against freshly computed observations; expectations are recomputed by TLC on the full run,
    // here the internal consistency checks and panics are re-evaluated
    let mut bad = Vec::new();
    if case.get("xs").is_some() {
        let xs: Vec<Value> = case["xs"].as_array().unwrap().iter().map(json_to_val).collect();
        let t = json_to_val(&case["t"]);
        let r = std::panic::catch_unwind(|| {
            let mut b = Vec::new();
            for (how, v) in build_variants(&xs, &t) {
                let o = observe(&v);
                for k in ["exhausted_stays", "index_operator_agrees", "vec_conversions_agree", "cell_cars_agree", "into_iter_ok", "pair_ok",
                          "value_to_ref_vec_agrees", "string_index_agrees"] {
                    if o[k] != true {
                        b.push(json!({"rule":"accessor","why":format!("{} fails (built by {})", k, how),"case":case}));
                    }
                }
                if let Some(exp) = case.get("exp") {
                    for k in KEYS {
                        if !exp[*k].is_null() && o[*k] != exp[*k] {
                            b.push(json!({"rule":"accessor","why":format!("{}: got {} expected {}", k, o[*k], exp[*k]),"case":case}));
                        }
                    }
                }
            }
            b
        });
        match r {
            Ok(b) => bad.extend(b),
            Err(_) => bad.push(json!({"rule":"panic","why":"accessor panicked","case":case})),
        }
    }
    json!({"bad": bad, "trace": []})
}
