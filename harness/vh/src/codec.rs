//! JSON <-> lexpr values, options and results (DESIGN.md Appendix A).
//!
//! Everything that crosses the TLC boundary uses: byte arrays for text, code point arrays for
//! names/strings, decimal digit arrays for integers, (digits, exp10) for floats, tagged records
//! instead of null.
#![allow(dead_code)]

use lexpr::parse::{Brackets, KeywordSyntax, NilSymbol, Options as ParseOptions, TSymbol};
use lexpr::print::{
    BoolSyntax, BytesSyntax, CharSyntax, NilSyntax, Options as PrintOptions, StringSyntax,
    VectorSyntax,
};
use lexpr::{Cons, Number, Value};
use serde_json::{json, Map, Value as J};

pub fn cps(s: &str) -> J {
    J::Array(s.chars().map(|c| J::from(c as u32)).collect())
}

pub fn bytes_j(b: &[u8]) -> J {
    J::Array(b.iter().map(|&x| J::from(x)).collect())
}

pub fn j_bytes(j: &J) -> Vec<u8> {
    j.as_array()
        .expect("byte array")
        .iter()
        .map(|x| x.as_u64().expect("byte") as u8)
        .collect()
}

pub fn j_string(j: &J) -> String {
    j.as_array()
        .expect("code point array")
        .iter()
        .map(|x| char::from_u32(x.as_u64().expect("cp") as u32).expect("scalar value"))
        .collect()
}

fn digits_of(mut s: &str) -> J {
    if s.is_empty() {
        s = "0";
    }
    J::Array(s.bytes().map(|b| J::from(b - b'0')).collect())
}

/// Shortest decimal form of a finite double: (neg, digits, exp10) with value = digits * 10^exp10.
/// Uses core's `{:e}` formatting (Grisu/Dragon), independent of `ryu` which is under test.
pub fn f64_parts(f: f64) -> (bool, String, i32) {
    let neg = f.is_sign_negative();
    let s = format!("{:e}", f.abs());
    let (mant, exp) = s.split_once('e').expect("exp form");
    let exp: i32 = exp.parse().unwrap();
    let (ip, fp) = match mant.split_once('.') {
        Some((a, b)) => (a, b),
        None => (mant, ""),
    };
    let mut digits = format!("{}{}", ip, fp);
    let mut e = exp - fp.len() as i32;
    // normalise: no trailing zeros (except zero itself)
    while digits.len() > 1 && digits.ends_with('0') {
        digits.pop();
        e += 1;
    }
    if digits == "0" {
        e = 0;
    }
    (neg, digits, e)
}

pub fn parts_f64(neg: bool, digits: &str, e: i64) -> f64 {
    let s = format!("{}e{}", digits, e);
    let f: f64 = s.parse().expect("float parts");
    if neg {
        -f
    } else {
        f
    }
}

pub fn num_to_json(n: &Number) -> J {
    if let Some(u) = n.as_u64() {
        if !n.is_f64() {
            return json!({"t":"int","neg":false,"d":digits_of(&u.to_string())});
        }
    }
    if n.is_i64() && !n.is_f64() {
        let i = n.as_i64().unwrap();
        return json!({"t":"int","neg": i < 0,"d":digits_of(&i.unsigned_abs().to_string())});
    }
    let f = n.as_f64().unwrap();
    float_json(f)
}

pub fn float_json(f: f64) -> J {
    if f.is_nan() {
        return json!({"t":"nan"});
    }
    if f.is_infinite() {
        return json!({"t":"inf","neg": f < 0.0});
    }
    let (neg, d, e) = f64_parts(f);
    json!({"t":"flt","neg":neg,"d":digits_of(&d),"e":e})
}

fn digit_string(j: &J) -> String {
    j.as_array()
        .expect("digits")
        .iter()
        .map(|x| char::from(b'0' + x.as_u64().unwrap() as u8))
        .collect()
}

pub fn json_to_num(j: &J) -> Number {
    let t = j["t"].as_str().expect("num tag");
    let neg = j["neg"].as_bool().unwrap_or(false);
    match t {
        "int" => {
            let ds = digit_string(&j["d"]);
            if neg {
                // magnitude up to 2^63
                let m: u64 = ds.parse().expect("neg int magnitude");
                if m == 0 {
                    Number::from(0u64)
                } else {
                    Number::from((m as i128).wrapping_neg() as i64)
                }
            } else {
                Number::from(ds.parse::<u64>().expect("u64"))
            }
        }
        "flt" => {
            let ds = digit_string(&j["d"]);
            let e = j["e"].as_i64().unwrap();
            Number::from(parts_f64(neg, &ds, e))
        }
        "inf" => Number::from(if neg { f64::NEG_INFINITY } else { f64::INFINITY }),
        "nan" => Number::from(f64::NAN),
        _ => panic!("bad num tag {}", t),
    }
}

/// Value -> JSON. Iterates along cdr so that long lists do not recurse.
pub fn val_to_json(v: &Value) -> J {
    match v {
        Value::Nil => json!({"k":"nil"}),
        Value::Null => json!({"k":"null"}),
        Value::Bool(b) => json!({"k":"bool","b":b}),
        Value::Number(n) => json!({"k":"num","n":num_to_json(n)}),
        Value::Char(c) => json!({"k":"char","c": *c as u32}),
        Value::String(s) => json!({"k":"str","s":cps(s)}),
        Value::Symbol(s) => json!({"k":"sym","s":cps(s)}),
        Value::Keyword(s) => json!({"k":"kw","s":cps(s)}),
        Value::Bytes(b) => json!({"k":"bytes","bv":bytes_j(b)}),
        Value::Vector(es) => json!({"k":"vec","e": es.iter().map(val_to_json).collect::<Vec<_>>()}),
        Value::Cons(_) => {
            let mut cars = Vec::new();
            let mut cur = v;
            while let Value::Cons(c) = cur {
                cars.push(val_to_json(c.car()));
                cur = c.cdr();
            }
            let mut acc = val_to_json(cur);
            while let Some(car) = cars.pop() {
                let mut m = Map::new();
                m.insert("k".into(), J::from("cons"));
                m.insert("car".into(), car);
                m.insert("cdr".into(), acc);
                acc = J::Object(m);
            }
            acc
        }
    }
}

pub fn json_to_val(j: &J) -> Value {
    let k = j["k"].as_str().unwrap_or_else(|| panic!("value kind missing in {}", j));
    match k {
        "nil" => Value::Nil,
        "null" => Value::Null,
        "bool" => Value::Bool(j["b"].as_bool().unwrap()),
        "num" => Value::Number(json_to_num(&j["n"])),
        "char" => Value::Char(char::from_u32(j["c"].as_u64().unwrap() as u32).expect("char")),
        "str" => Value::string(j_string(&j["s"])),
        "sym" => Value::symbol(j_string(&j["s"])),
        "kw" => Value::keyword(j_string(&j["s"])),
        "bytes" => Value::bytes(j_bytes(&j["bv"])),
        "vec" => Value::vector(j["e"].as_array().unwrap().iter().map(json_to_val)),
        "cons" => {
            let mut cars = Vec::new();
            let mut cur = j;
            while cur["k"] == "cons" {
                cars.push(json_to_val(&cur["car"]));
                cur = &cur["cdr"];
            }
            let mut acc = json_to_val(cur);
            while let Some(car) = cars.pop() {
                acc = Value::Cons(Cons::new(car, acc));
            }
            acc
        }
        _ => panic!("bad value kind {}", k),
    }
}

// ------------------------------------------------------------------ options

pub fn parse_opts(j: &J) -> ParseOptions {
    let mut o = ParseOptions::new();
    let kw = j["kw"].as_array().expect("kw flags");
    let mut syn = Vec::new();
    if kw[0].as_bool().unwrap() {
        syn.push(KeywordSyntax::Octothorpe);
    }
    if kw[1].as_bool().unwrap() {
        syn.push(KeywordSyntax::ColonPrefix);
    }
    if kw[2].as_bool().unwrap() {
        syn.push(KeywordSyntax::ColonPostfix);
    }
    o = o.with_keyword_syntaxes(syn);
    o = o.with_nil_symbol(match j["nil"].as_str().unwrap() {
        "sym" => NilSymbol::Default,
        "null" => NilSymbol::EmptyList,
        "special" => NilSymbol::Special,
        x => panic!("nil {}", x),
    });
    o = o.with_t_symbol(match j["t"].as_str().unwrap() {
        "sym" => TSymbol::Default,
        "true" => TSymbol::True,
        x => panic!("t {}", x),
    });
    o = o.with_brackets(match j["br"].as_str().unwrap() {
        "list" => Brackets::List,
        "vec" => Brackets::Vector,
        x => panic!("br {}", x),
    });
    o = o.with_string_syntax(str_syntax(&j["str"]));
    o = o.with_char_syntax(chr_syntax(&j["chr"]));
    o = o.with_racket_hash_percent_symbols(j["racket"].as_bool().unwrap());
    o = o.with_leading_digit_symbols(j["digits"].as_bool().unwrap());
    o
}

fn str_syntax(j: &J) -> StringSyntax {
    match j.as_str().unwrap() {
        "r6rs" => StringSyntax::R6RS,
        "elisp" => StringSyntax::Elisp,
        x => panic!("str {}", x),
    }
}

fn chr_syntax(j: &J) -> CharSyntax {
    match j.as_str().unwrap() {
        "r6rs" => CharSyntax::R6RS,
        "elisp" => CharSyntax::Elisp,
        x => panic!("chr {}", x),
    }
}

pub fn print_opts(j: &J) -> PrintOptions {
    let mut o = PrintOptions::default();
    o = o.with_keyword_syntax(match j["kw"].as_str().unwrap() {
        "octo" => KeywordSyntax::Octothorpe,
        "prefix" => KeywordSyntax::ColonPrefix,
        "postfix" => KeywordSyntax::ColonPostfix,
        x => panic!("kw {}", x),
    });
    o = o.with_nil_syntax(match j["nil"].as_str().unwrap() {
        "sym" => NilSyntax::Symbol,
        "token" => NilSyntax::Token,
        "null" => NilSyntax::EmptyList,
        "false" => NilSyntax::False,
        x => panic!("nil {}", x),
    });
    o = o.with_bool_syntax(match j["bool"].as_str().unwrap() {
        "token" => BoolSyntax::Token,
        "sym" => BoolSyntax::Symbol,
        x => panic!("bool {}", x),
    });
    o = o.with_vector_syntax(match j["vec"].as_str().unwrap() {
        "octo" => VectorSyntax::Octothorpe,
        "br" => VectorSyntax::Brackets,
        x => panic!("vec {}", x),
    });
    o = o.with_bytes_syntax(match j["bytes"].as_str().unwrap() {
        "r6rs" => BytesSyntax::R6RS,
        "r7rs" => BytesSyntax::R7RS,
        "elisp" => BytesSyntax::Elisp,
        x => panic!("bytes {}", x),
    });
    o = o.with_string_syntax(str_syntax(&j["str"]));
    o = o.with_char_syntax(chr_syntax(&j["chr"]));
    o
}

pub fn default_parse_opts_json() -> J {
    json!({"kw":[true,false,false],"nil":"sym","t":"sym","br":"list","str":"r6rs","chr":"r6rs","racket":false,"digits":false})
}

pub fn elisp_parse_opts_json() -> J {
    json!({"kw":[false,true,false],"nil":"null","t":"sym","br":"vec","str":"elisp","chr":"elisp","racket":false,"digits":true})
}

pub fn default_print_opts_json() -> J {
    json!({"kw":"octo","nil":"token","bool":"token","vec":"octo","bytes":"r7rs","str":"r6rs","chr":"r6rs"})
}

pub fn elisp_print_opts_json() -> J {
    json!({"kw":"prefix","nil":"sym","bool":"sym","vec":"br","bytes":"elisp","str":"elisp","chr":"elisp"})
}

/// All 1536 parser option sets, in a fixed order.
pub fn all_parse_opts() -> Vec<J> {
    let mut out = Vec::new();
    for kwbits in 0..8u8 {
        for nil in ["sym", "null", "special"] {
            for t in ["sym", "true"] {
                for br in ["list", "vec"] {
                    for s in ["r6rs", "elisp"] {
                        for c in ["r6rs", "elisp"] {
                            for racket in [false, true] {
                                for digits in [false, true] {
                                    out.push(json!({"kw":[kwbits&1!=0,kwbits&2!=0,kwbits&4!=0],"nil":nil,"t":t,"br":br,"str":s,"chr":c,"racket":racket,"digits":digits}));
                                }
                            }
                        }
                    }
                }
            }
        }
    }
    out
}

/// All 576 printer option sets, in a fixed order.
pub fn all_print_opts() -> Vec<J> {
    let mut out = Vec::new();
    for kw in ["octo", "prefix", "postfix"] {
        for nil in ["sym", "token", "null", "false"] {
            for b in ["token", "sym"] {
                for v in ["octo", "br"] {
                    for by in ["r6rs", "r7rs", "elisp"] {
                        for s in ["r6rs", "elisp"] {
                            for c in ["r6rs", "elisp"] {
                                out.push(json!({"kw":kw,"nil":nil,"bool":b,"vec":v,"bytes":by,"str":s,"chr":c}));
                            }
                        }
                    }
                }
            }
        }
    }
    out
}

// ------------------------------------------------------------------ results

pub fn err_json(e: &lexpr::parse::Error) -> J {
    use lexpr::parse::error::Category;
    let cat = match e.classify() {
        Category::Io => "io",
        Category::Syntax => "syntax",
        Category::Eof => "eof",
    };
    let full = e.to_string();
    let (msg, line, col) = match e.location() {
        Some(loc) => {
            let suffix = format!(" at line {} column {}", loc.line(), loc.column());
            let msg = full.strip_suffix(&suffix).unwrap_or(&full).to_string();
            (msg, loc.line() as i64, loc.column() as i64)
        }
        None => (full.clone(), -1, -1),
    };
    json!({"r":"err","cat":cat,"msg":msg,"line":line,"col":col})
}

pub fn res_json(r: &Result<Value, lexpr::parse::Error>) -> J {
    match r {
        Ok(v) => json!({"r":"ok","v":val_to_json(v)}),
        Err(e) => err_json(e),
    }
}

pub fn opt_res_json(r: &Result<Option<Value>, lexpr::parse::Error>) -> J {
    match r {
        Ok(Some(v)) => json!({"r":"ok","v":val_to_json(v)}),
        Ok(None) => json!({"r":"none"}),
        Err(e) => err_json(e),
    }
}

pub fn panic_json(p: Box<dyn std::any::Any + Send>) -> J {
    let msg = if let Some(s) = p.downcast_ref::<&str>() {
        s.to_string()
    } else if let Some(s) = p.downcast_ref::<String>() {
        s.clone()
    } else {
        "non-string panic payload".to_string()
    };
    json!({"r":"panic","msg":msg})
}

/// Run `f`, converting a panic into a result record (a panic in the code under test is data).
pub fn guarded<F: FnOnce() -> J + std::panic::UnwindSafe>(f: F) -> J {
    match std::panic::catch_unwind(f) {
        Ok(j) => j,
        Err(p) => panic_json(p),
    }
}

/// Value equality that treats floats by bit pattern (so that -0.0 != 0.0 and NaN == NaN):
/// used where the property demands bit-exactness.
pub fn same_bits(a: &Value, b: &Value) -> bool {
    val_to_json(a) == val_to_json(b)
}
