//! C17: only well-formed UTF-8 ever reaches a str.

use crate::codec::*;
use lexpr::parse::Parser;
use lexpr::Value;
use rand::{Rng, SeedableRng};
use serde_json::{json, Value as J};

/// Are all strings / names reachable from v well-formed UTF-8 (re-validated on their bytes)?
fn strs_ok(v: &Value) -> bool {
    let mut cur = v;
    loop {
        match cur {
            Value::String(s) | Value::Symbol(s) | Value::Keyword(s) => return std::str::from_utf8(s.as_bytes()).is_ok() && s.chars().all(|c| (c as u32) < 0x110000),
            Value::Vector(es) => return es.iter().all(strs_ok),
            Value::Cons(c) => {
                if !strs_ok(c.car()) {
                    return false;
                }
                cur = c.cdr();
            }
            _ => return true,
        }
    }
}

/// All items of the stream: (values, error?) - via one of three sources.
fn read_all(src: usize, text: &[u8], ro: &J) -> Result<(Vec<Value>, Option<J>), String> {
    let o = parse_opts(ro);
    let r = std::panic::catch_unwind(|| {
        let mut vs = Vec::new();
        let mut err = None;
        macro_rules! drive {
            ($p:expr) => {{
                let mut p = $p;
                let mut n = 0;
                loop {
                    n += 1;
                    match p.next_value() {
                        Ok(Some(v)) => vs.push(v),
                        Ok(None) => break,
                        Err(e) => {
                            err = Some(err_json(&e));
                            break;
                        }
                    }
                    if n > text.len() + 3 {
                        break;
                    }
                }
            }};
        }
        match src {
            0 => drive!(Parser::from_slice_custom(text, o)),
            1 => drive!(Parser::from_reader_custom(text, o)),
            _ => drive!(Parser::from_str_custom(std::str::from_utf8(text).unwrap(), o)),
        }
        (vs, err)
    });
    r.map_err(|p| format!("panic: {}", panic_json(p)["msg"]))
}

/// Every value a session yields when the caller keeps going after errors (C17 holds for all of them: an error that
/// stops in the middle of a multi-byte character must not make the rest of that character the start of a name).
fn drain(src: usize, datums: bool, text: &[u8], ro: &J) -> Result<Vec<Value>, String> {
    let o = parse_opts(ro);
    let r = std::panic::catch_unwind(|| {
        let mut vs = Vec::new();
        macro_rules! drive {
            ($p:expr) => {{
                let mut p = $p;
                for _ in 0..(2 * text.len() + 4) {
                    if datums {
                        match p.next_datum() {
                            Ok(Some(d)) => vs.push(Value::from(d)),
                            Ok(None) => break,
                            Err(_) => {}
                        }
                    } else {
                        match p.next_value() {
                            Ok(Some(v)) => vs.push(v),
                            Ok(None) => break,
                            Err(_) => {}
                        }
                    }
                }
            }};
        }
        match src {
            0 => drive!(Parser::from_slice_custom(text, o)),
            1 => drive!(Parser::from_reader_custom(text, o)),
            _ => drive!(Parser::from_str_custom(std::str::from_utf8(text).unwrap(), o)),
        }
        vs
    });
    r.map_err(|p| format!("panic: {}", panic_json(p)["msg"]))
}

pub struct Runner {
    bad: Vec<J>,
    trace: Vec<J>,
    evals: u64,
    illformed_inputs: u64,
}

impl Runner {
    fn text(&mut self, text: &[u8], ro: &J, exp: Option<(&str, &J)>, want_trace: bool) {
        let utf8 = std::str::from_utf8(text).is_ok();
        if !utf8 {
            self.illformed_inputs += 1;
        }
        let mut first: Option<J> = None;
        for src in 0..3 {
            if src == 2 && !utf8 {
                continue;
            }
            self.evals += 1;
            lexpr::parse::verif::take_utf8_violations();
            let r = read_all(src, text, ro);
            let hook = lexpr::parse::verif::take_utf8_violations();
            let mk = |rule: &str, why: String| json!({"rule":rule,"why":why,"text":bytes_j(text),"ro":ro,"src":src});
            if hook > 0 {
                self.bad.push(mk("unchecked", format!("{} ill-formed buffer(s) reached an unchecked UTF-8 conversion", hook)));
            }
            // the same input, continuing after every error, through both APIs
            for datums in [false, true] {
                self.evals += 1;
                let d = drain(src, datums, text, ro);
                let hook = lexpr::parse::verif::take_utf8_violations();
                if hook > 0 {
                    self.bad.push(mk("unchecked", format!("continuing after errors: {} ill-formed buffer(s) reached an unchecked UTF-8 conversion", hook)));
                }
                match d {
                    Err(p) => self.bad.push(mk("panic", format!("continuing after errors: {}", p))),
                    Ok(vs) => {
                        if !std::panic::catch_unwind(|| vs.iter().all(strs_ok)).unwrap_or(false) {
                            self.bad.push(mk("str", "continuing after errors: a string, symbol or keyword is not well-formed UTF-8".into()));
                        }
                    }
                }
            }
            match r {
                Err(p) => self.bad.push(mk("panic", p)),
                Ok((vs, err)) => {
                    // a str that holds ill-formed UTF-8 is undefined behaviour for whoever looks at it: examine the result
                    // guarded, and do not go on to encode it
                    let ok = std::panic::catch_unwind(|| vs.iter().all(strs_ok)).unwrap_or(false);
                    if !ok {
                        self.bad.push(mk("str", "a string, symbol or keyword of the result is not well-formed UTF-8".into()));
                        continue;
                    }
                    let res = json!({"res": if err.is_some() {"err"} else {"ok"}, "vs": vs.iter().map(val_to_json).collect::<Vec<_>>()});
                    if let Some((e, evs)) = exp {
                        match e {
                            "ok" => {
                                if err.is_some() || res["vs"] != *evs {
                                    self.bad.push(mk("oracle", format!("the documented reading is {} but the implementation gives {} {}", evs, res["vs"], err.clone().unwrap_or(J::Null))));
                                }
                            }
                            "rej" | "inc" | "trailing" => {
                                if err.is_none() {
                                    self.bad.push(mk("oracle", format!("must be rejected, but reads as {}", res["vs"])));
                                }
                            }
                            _ => {}
                        }
                    }
                    // a text that is not valid UTF-8 outside comments must not yield str data from the ill-formed part:
                    // covered by the oracle for the TLC corpus and by strs_ok for random bytes
                    match &first {
                        None => first = Some(res.clone()),
                        Some(f) => {
                            if *f != res {
                                self.bad.push(mk("sources", "the sources disagree".into()));
                            }
                        }
                    }
                    if want_trace && src == 0 {
                        self.trace.push(json!({"ev":"parsedall","text":bytes_j(text),"ro":ro,"res":res["res"],"vs":res["vs"]}));
                    }
                }
            }
        }
    }

    fn printed(&mut self, v: &Value, po: &J) {
        self.evals += 1;
        lexpr::parse::verif::take_utf8_violations();
        let o = print_opts(po);
        let r = std::panic::catch_unwind(|| (lexpr::to_string_custom(v, o), lexpr::to_vec_custom(v, o)));
        let hook = lexpr::parse::verif::take_utf8_violations();
        let mk = |why: String| json!({"rule":"print","why":why,"v":val_to_json(v),"po":po});
        if hook > 0 {
            self.bad.push(mk(format!("{} ill-formed buffer(s) were turned into a String unchecked", hook)));
        }
        match r {
            Ok((Ok(s), Ok(b))) => {
                if std::str::from_utf8(s.as_bytes()).is_err() {
                    self.bad.push(mk("the printed String is not well-formed UTF-8".into()));
                }
                if s.as_bytes() != &b[..] {
                    self.bad.push(mk("to_string_custom differs from to_vec_custom".into()));
                }
                let mut w = Vec::new();
                if lexpr::to_writer_custom(&mut w, v, o).is_err() || w != b {
                    self.bad.push(mk("to_writer_custom differs from to_vec_custom".into()));
                }
                // a sink that takes a few bytes per call (never an error): it must still receive exactly the String,
                // in particular no multi-byte character cut in half
                for k in [1usize, 3] {
                    let mut sink = Sips(Vec::new(), k);
                    if lexpr::to_writer_custom(&mut sink, v, print_opts(po)).is_err() || sink.0 != b {
                        self.bad.push(mk(format!("a sink that accepts {} byte(s) per write receives other bytes than the printed String", k)));
                    }
                    let mut sink = Sips(Vec::new(), k);
                    let mut pr = lexpr::Printer::with_options(&mut sink, print_opts(po));
                    let ok = pr.print(v).is_ok();
                    drop(pr);
                    if !ok || sink.0 != b {
                        self.bad.push(mk(format!("Printer::print into a sink that accepts {} byte(s) per write delivers other bytes than the printed String", k)));
                    }
                }
            }
            Ok(_) => self.bad.push(mk("printing failed".into())),
            Err(_) => self.bad.push(mk("printing panicked".into())),
        }
    }
}

struct Sips(Vec<u8>, usize);

impl std::io::Write for Sips {
    fn write(&mut self, buf: &[u8]) -> std::io::Result<usize> {
        let n = buf.len().min(self.1);
        self.0.extend_from_slice(&buf[..n]);
        Ok(n)
    }
    fn flush(&mut self) -> std::io::Result<()> {
        Ok(())
    }
}

/// cfg: {"cases_file", "seed", "random_bytes": n, "random_values": n}
pub fn run(cfg: &J) -> J {
    let mut r = Runner { bad: vec![], trace: vec![], evals: 0, illformed_inputs: 0 };
    let mut ncases = 0u64;
    if let Some(p) = cfg["cases_file"].as_str() {
        for line in std::fs::read_to_string(p).expect("cases").lines() {
            if line.trim().is_empty() {
                continue;
            }
            let c: J = serde_json::from_str(line).unwrap();
            ncases += 1;
            r.text(&j_bytes(&c["text"]), &c["ro"], Some((c["exp"].as_str().unwrap(), &c["vs"])), true);
        }
    }
    let mut rng = rand::rngs::StdRng::seed_from_u64(cfg["seed"].as_u64().unwrap_or(1));
    let all = all_parse_opts();
    let frags: [&[u8]; 30] = [b"\"", b"\\", b"\\x", b"41;", b"\\u00", b"41", b"\\101", b"\\N{U+", b"3bb}", b"a", b"(", b")", b" ", b"#\\", b"?", b"?\\", b";", b"\n", b"#:", b":",
                              b"\xCE\xBB", b"\xCE", b"\xE4\xB8", b"\xF0\x9F\x98\x80", b"\xED\xA0\x80", b"\xC0\x80", b"\xFF", b"\x80", b"\\^", b"\\ "];
    for i in 0..cfg["random_bytes"].as_u64().unwrap_or(3000) {
        let mut t = Vec::new();
        for _ in 0..rng.gen_range(1..9) {
            if rng.gen_ratio(1, 8) {
                t.push(rng.gen());
            } else {
                t.extend_from_slice(frags[rng.gen_range(0..frags.len())]);
            }
        }
        let ro = if i % 2 == 0 { elisp_parse_opts_json() } else { all[rng.gen_range(0..all.len())].clone() };
        r.text(&t, &ro, None, i % 3 == 0);
    }
    // errors that stop in the middle of a token, directly followed by a multi-byte character, then more input
    let prefixes: [&str; 26] = ["\"\\", "#\\x", "#n", "#", "#\\", "\"\\x", "\"\\u", "?\\^", "?\\C-", "?\\N{", "#u8(", "\\", "1", "-", "+.", "#:", "'", ",@",
                                "(a . ", "#t", "#\\space", "\"\\N{U+", "?\\", "#x", "a\"", "|"];
    let chars = ["\u{e9}", "\u{3bb}", "\u{4e2d}", "\u{1F600}", "\u{e9}\u{e9}", "\u{3bb}a", "\u{a9}a"];
    let suffixes = ["", "a", " a\"", ") (b)", "\u{3bb} x", "\" y"];
    let (dpo, epo) = (default_parse_opts_json(), elisp_parse_opts_json());
    for pfx in prefixes.iter() {
        for ch in chars.iter() {
            for sfx in suffixes.iter() {
                let t = format!("{}{}{}", pfx, ch, sfx);
                r.text(t.as_bytes(), &dpo, None, false);
                r.text(t.as_bytes(), &epo, None, false);
            }
        }
    }
    // string and character escapes for every value up to U+017F (one-byte values are where "byte" and "character" can be
    // confused), alone and next to multi-byte text, in every string / character syntax
    for cp in 0x20u32..0x180 {
        for t in [format!("\"\\x{:x};\"", cp), format!("\"\u{3bb}\\x{:x};\u{e9}\"", cp), format!("(a \"\\x{:X};\" \u{3bb})", cp), format!("\"\\x{:x}\\ \u{3bb}\"", cp),
                  format!("\"\\{:o}\u{3bb}\"", cp), format!("#\\x{:x}", cp), format!("?\\x{:x}", cp), format!("?\\{:o}", cp), format!("\"\\u{:04x}\"", cp)] {
            r.text(t.as_bytes(), &dpo, None, false);
            r.text(t.as_bytes(), &epo, None, false);
        }
    }
    // output side
    let pos = all_print_opts();
    let mut g = crate::gen::Gen::new(cfg["seed"].as_u64().unwrap_or(1) + 11);
    for v in crate::gen::probe_values() {
        for po in &pos {
            r.printed(&v, po);
        }
    }
    for _ in 0..cfg["random_values"].as_u64().unwrap_or(500) {
        let v = g.value();
        for _ in 0..4 {
            let po = g.pick(&pos).clone();
            r.printed(&v, &po);
        }
    }
    json!({"bad": r.bad, "trace": r.trace, "evaluations": r.evals, "tlc_cases": ncases, "illformed_inputs": r.illformed_inputs})
}

pub fn replay_case(case: &J) -> J {
    let mut r = Runner { bad: vec![], trace: vec![], evals: 0, illformed_inputs: 0 };
    if case.get("text").map(|t| !t.is_null()).unwrap_or(false) {
        let exp = case.get("exp").and_then(|e| e.as_str());
        let vs = case.get("vs").cloned().unwrap_or(json!([]));
        r.text(&j_bytes(&case["text"]), &case["ro"], exp.map(|e| (e, &vs)), true);
    } else {
        r.printed(&json_to_val(&case["v"]), &case["po"]);
    }
    json!({"bad": r.bad, "trace": r.trace})
}
