//! vh: replayer / recorder binding the TLA+ specification to the lexpr crates built from /repo.
//!
//! usage: vh <command> <config.json> <out.json> [<trace.ndjson>]
//! The config and result formats are per command; a "trace" array in the result is written to
//! the ndjson trace file (one event per line) for TLC trace validation.

mod codec;
mod gen;
mod c07;
mod cmp;
mod c01;
mod c02;
mod c03;
mod c05;
mod c06;
mod big;
mod c08;
mod c16;
mod c17;
mod c20;
mod serde_abs;
mod types_gen;
mod serde;
mod x06;
mod c15;
mod datum;
mod c12;
mod session;
mod c13;
mod c19;

/// lexpr is built with its default feature `fast-float-parsing` in this crate
pub const FAST_FLOAT: bool = true;

use serde_json::Value as J;
use std::io::Write;

fn main() {
    // a panic in the code under test is data (caught where it matters); keep stderr quiet
    std::panic::set_hook(Box::new(|_| {}));
    let args: Vec<String> = std::env::args().collect();
    if args.len() == 5 && args[1] == "c16-child" {
        c16::child(&args[2], args[3].parse().expect("start index"), &args[4]);
        return;
    }
    if args.len() == 5 && args[1] == "c03-child" {
        c03::child(&args[2], args[3].parse().expect("start index"), &args[4]);
        return;
    }
    if args.len() < 4 {
        eprintln!("usage: vh <command> <config.json> <out.json> [<trace.ndjson>]");
        std::process::exit(2);
    }
    let cfg: J = serde_json::from_str(&std::fs::read_to_string(&args[2]).expect("read config")).expect("config json");
    let mut out = match args[1].as_str() {
        "c07" => c07::run(&cfg),
        "c07-replay" => c07::replay_case(&cfg),
        "c02" => c02::run(&cfg),
        "c02-replay" => c02::replay_case(&cfg),
        "c08" => c08::run(&cfg),
        "c08-replay" => c08::replay_case(&cfg),
        "c19" => c19::run(&cfg),
        "c19-replay" => c19::replay_case(&cfg),
        "c13" => c13::run(&cfg),
        "c13-replay" => c13::replay_case(&cfg),
        "session" => session::run(&cfg),
        "session-replay" => session::replay_case(&cfg),
        "c03" => c03::run(&cfg),
        "c03-replay" => c03::replay_case(&cfg),
        "c12" => c12::run(&cfg),
        "c12-replay" => c12::replay_case(&cfg),
        "datum" => datum::run(&cfg),
        "datum-replay" => datum::replay_case(&cfg),
        "c05" => c05::run(&cfg),
        "c05-replay" => c05::replay_case(&cfg),
        "c06" => c06::run(&cfg),
        "c06-replay" => c06::replay_case(&cfg),
        "c15" => c15::run(&cfg),
        "c15-replay" => c15::replay_case(&cfg),
        "serde" => serde::run(&cfg),
        "x06" => x06::run(&cfg),
        "serde-replay" => serde::replay_case(&cfg),
        "c20" => c20::run(&cfg),
        "c20-replay" => c20::replay_case(&cfg),
        "c17" => c17::run(&cfg),
        "c17-replay" => c17::replay_case(&cfg),
        "c16" => c16::run(&cfg),
        "c16-replay" => c16::replay_case(&cfg),
        "c01" => c01::run(&cfg),
        "c01-replay" => c01::replay_case(&cfg),
        x => {
            eprintln!("unknown command {}", x);
            std::process::exit(2);
        }
    };
    if let Some(tp) = args.get(4) {
        let mut f = std::io::BufWriter::new(std::fs::File::create(tp).expect("trace file"));
        if let Some(tr) = out.get_mut("trace").map(|t| t.take()) {
            if let Some(a) = tr.as_array() {
                for ev in a {
                    serde_json::to_writer(&mut f, ev).unwrap();
                    f.write_all(b"\n").unwrap();
                }
                out["trace_events"] = J::from(a.len());
            }
        }
        f.flush().unwrap();
    }
    std::fs::write(&args[3], serde_json::to_vec(&out).unwrap()).expect("write out");
}
