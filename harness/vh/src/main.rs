fn main(){ println!("{}", lexpr::from_str("(a . 1)").unwrap()); }
