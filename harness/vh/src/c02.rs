//! C02: round trip for every consistent printer/parser dialect pairing.
//!
//! TLC (spec/mc/C02.tla) supplies the compatible (po, ro) pairings, the probe values and the
//! documented folding of each probe value (the expected results). The harness prints with
//! to_string_custom and parses with from_str_custom / from_slice_custom / from_reader_custom.

use crate::cmp::*;
use crate::codec::*;
use crate::gen;
use lexpr::Value;
use serde_json::{json, Value as J};
use std::collections::{HashMap, HashSet};

/// The documented dialect folding (mirror of Sexp!Fold; cross-checked against TLC's table on the probes).
pub fn fold(v: &Value, po: &J, ro: &J) -> Value {
    let nil_token = |ro: &J| match ro["nil"].as_str().unwrap() {
        "sym" => Value::symbol("nil"),
        "null" => Value::Null,
        _ => Value::Nil,
    };
    let fold_bool = |b: bool| {
        if po["bool"] == "token" {
            Value::Bool(b)
        } else if b {
            if ro["t"] == "sym" {
                Value::symbol("t")
            } else {
                Value::Bool(true)
            }
        } else {
            nil_token(ro)
        }
    };
    match v {
        Value::Nil => match po["nil"].as_str().unwrap() {
            "sym" => nil_token(ro),
            "token" => Value::Nil,
            "null" => Value::Null,
            _ => fold_bool(false),
        },
        Value::Bool(b) => fold_bool(*b),
        Value::Bytes(b) if b.is_empty() && po["bytes"] == "elisp" => Value::string(""),
        Value::Cons(_) => {
            let mut cars = Vec::new();
            let mut cur = v;
            while let Value::Cons(c) = cur {
                cars.push(fold(c.car(), po, ro));
                cur = c.cdr();
            }
            Value::append(cars, fold(cur, po, ro))
        }
        Value::Vector(es) => Value::vector(es.iter().map(|e| fold(e, po, ro)).collect::<Vec<_>>()),
        _ => v.clone(),
    }
}

fn fold_key(po: &J, ro: &J) -> String {
    format!("{}|{}|{}|{}|{}", po["nil"].as_str().unwrap(), po["bool"].as_str().unwrap(), po["bytes"].as_str().unwrap(),
            ro["nil"].as_str().unwrap(), ro["t"].as_str().unwrap())
}

fn print_custom(v: &Value, po: &J) -> Result<String, String> {
    let o = print_opts(po);
    match std::panic::catch_unwind(|| lexpr::to_string_custom(v, o)) {
        Ok(Ok(s)) => Ok(s),
        Ok(Err(e)) => Err(format!("error: {}", e)),
        Err(p) => Err(format!("panic: {}", panic_json(p)["msg"])),
    }
}

fn parse_custom(src: usize, text: &str, ro: &J) -> Result<Value, String> {
    let o = parse_opts(ro);
    let r = std::panic::catch_unwind(|| match src {
        0 => lexpr::from_str_custom(text, o),
        1 => lexpr::from_slice_custom(text.as_bytes(), o),
        _ => lexpr::from_reader_custom(text.as_bytes(), o),
    });
    match r {
        Ok(Ok(v)) => Ok(v),
        Ok(Err(e)) => Err(e.to_string()),
        Err(p) => Err(format!("panic: {}", panic_json(p)["msg"])),
    }
}

pub struct Runner {
    pub bad: Vec<J>,
    pub trace: Vec<J>,
    pub trace_bytes: usize,
    pub evals: u64,
    pub distinct: HashSet<(String, String)>,
    pub rule: FloatRule,
    seen_text: HashSet<(String, String)>,
}

impl Runner {
    pub fn one(&mut self, v: &Value, vj: &J, po: &J, ro: &J, exp: &Value, text: &Result<String, String>, src: usize, want_trace: bool) {
        self.evals += 1;
        let text = match text {
            Ok(t) => t,
            Err(e) => {
                self.bad.push(json!({"rule":"print-failed","v":vj,"po":po,"ro":ro,"detail":e}));
                return;
            }
        };
        match parse_custom(src, text, ro) {
            Ok(got) => {
                if let Err(d) = value_matches(exp, &got, self.rule) {
                    self.bad.push(json!({"rule":"roundtrip-differs","v":vj,"po":po,"ro":ro,"text":bytes_j(text.as_bytes()),
                                         "exp":val_to_json(exp),"got":val_to_json(&got),"detail":d}));
                }
            }
            Err(e) => self.bad.push(json!({"rule":"reparse-failed","v":vj,"po":po,"ro":ro,"text":bytes_j(text.as_bytes()),
                                           "exp":val_to_json(exp),"detail":e})),
        }
        let key = (text.clone(), ro.to_string());
        self.distinct.insert(key.clone());
        if want_trace && text.len() + 60 <= self.trace_bytes && self.seen_text.insert(key) {
            self.trace_bytes -= text.len() + 60;
            self.trace.push(json!({"ev":"printed","text":bytes_j(text.as_bytes()),"ro":ro,"exp":val_to_json(exp),"po":po,"v":vj}));
        }
    }
}

/// cfg: {"tlc_file": ndjson of pair/fold records, "seed", "random", "trace_bytes", "trace_stride"}
pub fn run(cfg: &J) -> J {
    let mut r = Runner { bad: vec![], trace: vec![], trace_bytes: cfg["trace_bytes"].as_u64().unwrap_or(200000) as usize,
                         evals: 0, distinct: HashSet::new(), rule: float_rule(), seen_text: HashSet::new() };
    let data = std::fs::read_to_string(cfg["tlc_file"].as_str().expect("tlc_file")).expect("read tlc file");
    let mut pairs: Vec<(J, J)> = Vec::new();
    let mut probes: Vec<(J, Value)> = Vec::new();
    let mut probe_ix: HashMap<String, usize> = HashMap::new();
    let mut table: HashMap<(String, usize), Value> = HashMap::new();
    for line in data.lines() {
        if line.trim().is_empty() {
            continue;
        }
        let c: J = serde_json::from_str(line).expect("tlc json");
        match c["kind"].as_str().unwrap() {
            "pair" => pairs.push((c["po"].clone(), c["ro"].clone())),
            "fold" => {
                let vk = c["v"].to_string();
                let ix = *probe_ix.entry(vk).or_insert_with(|| {
                    probes.push((c["v"].clone(), json_to_val(&c["v"])));
                    probes.len() - 1
                });
                let key = format!("{}|{}|{}|{}|{}", c["pnil"].as_str().unwrap(), c["pbool"].as_str().unwrap(),
                                  c["pbytes"].as_str().unwrap(), c["rnil"].as_str().unwrap(), c["rt"].as_str().unwrap());
                table.insert((key, ix), json_to_val(&c["exp"]));
            }
            _ => {}
        }
    }
    pairs.sort_by_key(|(p, r)| (p.to_string(), r.to_string()));
    let stride = cfg["trace_stride"].as_u64().unwrap_or(7) as usize;
    let mut fold_mismatch = 0u64;
    // (1) every TLC pairing x every probe value
    let mut last_po = String::new();
    let mut texts: Vec<Result<String, String>> = Vec::new();
    for (pi, (po, ro)) in pairs.iter().enumerate() {
        let pk = po.to_string();
        if pk != last_po {
            texts = probes.iter().map(|(_, v)| print_custom(v, po)).collect();
            last_po = pk;
        }
        let fk = fold_key(po, ro);
        for (vi, (vj, v)) in probes.iter().enumerate() {
            let exp = match table.get(&(fk.clone(), vi)) {
                Some(e) => e.clone(),
                None => panic!("fold table has no entry for {} / probe {}", fk, vi),
            };
            // the Rust mirror of Fold must agree with the specification's table
            if val_to_json(&fold(v, po, ro)) != val_to_json(&exp) {
                fold_mismatch += 1;
            }
            r.one(v, vj, po, ro, &exp, &texts[vi], (pi + vi) % 3, (pi * 31 + vi) % stride == 0);
        }
    }
    // (2) seeded random values (names plain in every dialect) x random TLC pairings
    let mut g = gen::Gen::new(cfg["seed"].as_u64().unwrap_or(1));
    g.dialect = gen::Dialect::Portable;
    let n = cfg["random"].as_u64().unwrap_or(2000);
    if !pairs.is_empty() {
        for i in 0..n {
            g.max_str = if i % 5 == 0 { 30 } else { 6 };
            let v = g.value();
            let vj = val_to_json(&v);
            for _ in 0..3 {
                let (po, ro) = &pairs[rand::Rng::gen_range(&mut g.rng, 0..pairs.len())];
                let exp = fold(&v, po, ro);
                let t = print_custom(&v, po);
                r.one(&v, &vj, po, ro, &exp, &t, (i % 3) as usize, i % 4 == 0);
            }
        }
    }
    json!({"bad": r.bad, "trace": r.trace, "evaluations": r.evals, "pairs": pairs.len(), "probes": probes.len(),
           "random": n, "distinct": r.distinct.len(), "fold_mismatch": fold_mismatch})
}

pub fn replay_case(case: &J) -> J {
    let mut r = Runner { bad: vec![], trace: vec![], trace_bytes: 1 << 20, evals: 0, distinct: HashSet::new(), rule: float_rule(), seen_text: HashSet::new() };
    let v = json_to_val(&case["v"]);
    let exp = match case.get("exp") {
        Some(e) if !e.is_null() => json_to_val(e),
        _ => fold(&v, &case["po"], &case["ro"]),
    };
    let t = print_custom(&v, &case["po"]);
    for src in 0..3 {
        r.one(&v, &case["v"], &case["po"], &case["ro"], &exp, &t, src, src == 0);
    }
    json!({"bad": r.bad, "trace": r.trace})
}
