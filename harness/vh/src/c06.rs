//! C06: str, slice and stream input give the same result; read errors surface.

use crate::codec::*;
use lexpr::parse::{IoRead, Read, SliceRead, StrRead};
use rand::{Rng, SeedableRng};
use serde_json::{json, Value as J};
use std::cell::Cell;
use std::collections::HashSet;
use std::io;
use std::rc::Rc;

/// The error object the instrumented reader fails with (so that "that very error" can be recognised).
#[derive(Debug)]
pub struct Marker(pub u64);
impl std::fmt::Display for Marker {
    fn fmt(&self, f: &mut std::fmt::Formatter<'_>) -> std::fmt::Result {
        write!(f, "injected read failure #{}", self.0)
    }
}
impl std::error::Error for Marker {}

pub struct SchedReader {
    data: Vec<u8>,
    pos: usize,
    /// per-call maximal chunk sizes, cycled
    chunks: Vec<usize>,
    /// an Interrupted answer before every n-th call (0 = never)
    intr_every: usize,
    fault_at: Option<usize>,
    marker: u64,
    calls: usize,
    pending_intr: bool,
    pub invoked: Rc<Cell<bool>>,
}

impl SchedReader {
    pub fn new(data: &[u8], chunks: Vec<usize>, intr_every: usize, fault_at: Option<usize>, marker: u64) -> (SchedReader, Rc<Cell<bool>>) {
        let inv = Rc::new(Cell::new(false));
        (SchedReader { data: data.to_vec(), pos: 0, chunks, intr_every, fault_at, marker, calls: 0, pending_intr: true, invoked: inv.clone() }, inv)
    }
}

impl io::Read for SchedReader {
    fn read(&mut self, buf: &mut [u8]) -> io::Result<usize> {
        if self.intr_every > 0 && self.pending_intr && self.calls % self.intr_every == 0 {
            self.pending_intr = false;
            return Err(io::Error::new(io::ErrorKind::Interrupted, "injected interrupt"));
        }
        self.pending_intr = true;
        self.calls += 1;
        if let Some(f) = self.fault_at {
            if self.pos >= f {
                self.invoked.set(true);
                return Err(io::Error::new(io::ErrorKind::Other, Marker(self.marker)));
            }
        }
        let chunk = if self.chunks.is_empty() { usize::MAX } else { self.chunks[(self.calls - 1) % self.chunks.len()].max(1) };
        let mut n = buf.len().min(chunk).min(self.data.len() - self.pos);
        if let Some(f) = self.fault_at {
            n = n.min(f - self.pos);
        }
        buf[..n].copy_from_slice(&self.data[self.pos..self.pos + n]);
        self.pos += n;
        Ok(n)
    }
}

fn carries_marker(e: &lexpr::parse::Error, marker: u64) -> bool {
    use std::error::Error;
    let via_source = e
        .source()
        .and_then(|s| s.downcast_ref::<io::Error>())
        .and_then(|ioe| ioe.get_ref())
        .and_then(|inner| inner.downcast_ref::<Marker>())
        .map(|m| m.0 == marker)
        .unwrap_or(false);
    via_source
}

/// Result projection the property compares: value, or category + message (without location).
fn proj(r: &Result<lexpr::Value, lexpr::parse::Error>) -> J {
    match r {
        Ok(v) => json!({"k":"ok","v":val_to_json(v)}),
        Err(e) => {
            let j = err_json(e);
            json!({"k":j["cat"],"msg":j["msg"]})
        }
    }
}

// ------------------------------------------------------------------ reader-level call sequences

fn b(r: lexpr::parse::Result<Option<u8>>) -> u64 {
    match r {
        Ok(Some(x)) => x as u64,
        Ok(None) => 256,
        Err(_) => 257,
    }
}

fn reader_session(data: &[u8], fault_at: Option<usize>, intr_every: usize, ops: &[u8], marker: u64) -> J {
    let (rd, _) = SchedReader::new(data, vec![1, 3, 2], intr_every, fault_at, marker);
    let mut io_r = IoRead::new(rd);
    let mut sl = SliceRead::new(data);
    let mut st = std::str::from_utf8(data).ok().map(StrRead::new);
    let mut calls = Vec::new();
    let mut can_discard = false;
    let mut str_diff = false;
    let mut failed = false;
    let mut after_failure = 0;
    for &op in ops {
        if failed {
            // the stream has failed: two more calls must keep failing; the slice is not advanced any more
            after_failure += 1;
            if after_failure > 2 {
                break;
            }
            let x = if op % 2 == 0 { b(io_r.next()) } else { b(io_r.peek()) };
            let q = sl.position();
            calls.push(json!({"op": if op % 2 == 0 {"next"} else {"peek"},"io":x,"sl":256,"off":io_r.byte_offset(),"line":0,"col":0,
                              "sline":q.line(),"scol":q.column(),"soff":sl.byte_offset()}));
            continue;
        }
        let (name, io_b, sl_b) = match op % 3 {
            0 => {
                let (x, y) = (b(io_r.next()), b(sl.next()));
                if let Some(s) = st.as_mut() {
                    str_diff |= b(s.next()) != y;
                }
                can_discard = false;
                ("next", x, y)
            }
            1 => {
                let (x, y) = (b(io_r.peek()), b(sl.peek()));
                if let Some(s) = st.as_mut() {
                    str_diff |= b(s.peek()) != y;
                }
                can_discard = x < 256 && y < 256;
                ("peek", x, y)
            }
            _ => {
                if !can_discard {
                    continue;
                }
                io_r.discard();
                sl.discard();
                if let Some(s) = st.as_mut() {
                    s.discard();
                }
                can_discard = false;
                ("discard", 256, 256)
            }
        };
        if io_b == 257 {
            failed = true;
        }
        let (p, q) = (io_r.position(), sl.position());
        if let Some(s) = st.as_ref() {
            str_diff |= s.position() != q || s.byte_offset() != sl.byte_offset();
        }
        calls.push(json!({"op":name,"io":io_b,"sl":sl_b,"off":io_r.byte_offset(),"line":p.line(),"col":p.column(),
                          "sline":q.line(),"scol":q.column(),"soff":sl.byte_offset()}));
    }
    json!({"ev":"reader","data":bytes_j(data),"faultAt": fault_at.map(|f| f as i64).unwrap_or(data.len() as i64 + 1),
           "intr":intr_every,"calls":calls,"strdiff":str_diff})
}

fn judge_reader(ev: &J) -> Vec<String> {
    // native mirror of C06Trace!WalkReader (bytes and offsets; positions are judged by TLC and by C11)
    let data = j_bytes(&ev["data"]);
    let n = data.len() as i64;
    let fault = ev["faultAt"].as_i64().unwrap();
    let (mut cur, mut peeked, mut failed) = (0i64, false, false);
    let mut bad = Vec::new();
    if ev["strdiff"].as_bool().unwrap() {
        bad.push("StrRead differs from SliceRead".to_string());
    }
    for (k, c) in ev["calls"].as_array().unwrap().iter().enumerate() {
        let op = c["op"].as_str().unwrap();
        let avail = if cur < n { data[cur as usize] as u64 } else { 256 };
        let hits = !peeked && fault <= n && cur >= fault;
        let want = if failed || hits { 257 } else { avail };
        if op != "discard" {
            if c["io"].as_u64().unwrap() != want {
                bad.push(format!("call {} ({}): stream source returned {} where the bytes say {}", k, op, c["io"], want));
            }
            if !failed && want != 257 && c["sl"].as_u64().unwrap() != avail {
                bad.push(format!("call {} ({}): slice source returned {} where the bytes say {}", k, op, c["sl"], avail));
            }
        }
        if (op == "next" && want < 256) || op == "discard" {
            cur += 1;
        }
        peeked = op == "peek" && want < 256;
        failed = failed || (op != "discard" && want == 257);
        if !failed && c["off"].as_i64().unwrap() != cur {
            bad.push(format!("call {} ({}): byte_offset {} but {} bytes were consumed", k, op, c["off"], cur));
        }
    }
    bad
}

// ------------------------------------------------------------------ parse-level runs

pub struct Runner {
    pub bad: Vec<J>,
    pub trace: Vec<J>,
    pub evals: u64,
    pub faults: u64,
    pub distinct: HashSet<(Vec<u8>, i64)>,
    marker: u64,
}

impl Runner {
    fn run_event(&mut self, text: &[u8], ro: &J, what: &str, ev: J, want_trace: bool) {
        // native mirror of C06Trace!JudgeRun
        let fault = ev["fault"].as_i64().unwrap();
        let why = if fault < 0 {
            if ev["same"].as_bool().unwrap() { None } else { Some("result depends on the source / on how the stream delivers the bytes") }
        } else if !ev["invoked"].as_bool().unwrap() {
            if ev["same"].as_bool().unwrap() { None } else { Some("a read error that was never reached changed the result") }
        } else {
            match ev["kind"].as_str().unwrap() {
                "io" => if ev["carries"].as_bool().unwrap() { None } else { Some("I/O error does not carry the reader's error") },
                "ok" => Some("read failure swallowed into a successful parse"),
                "panic" => Some("parser panicked"),
                // a syntax / EOF category error although the failing read was made: acceptable only if the delivered
                // bytes were already malformed - decided by the reference reader in the trace run (C06Trace)
                _ => None,
            }
        };
        if let Some(w) = why {
            self.bad.push(json!({"rule":"run","why":w,"what":what,"text":bytes_j(text),"ro":ro,"ev":ev}));
        }
        let deferred = fault >= 0 && ev["invoked"].as_bool().unwrap() && !matches!(ev["kind"].as_str().unwrap(), "io" | "ok" | "panic");
        if want_trace || deferred {
            let mut ev = ev;
            ev["prefix"] = if deferred { bytes_j(&text[..fault as usize]) } else { bytes_j(&[]) };
            ev["text"] = if deferred { bytes_j(text) } else { bytes_j(&[]) };
            ev["ro"] = ro.clone();
            self.trace.push(ev);
        }
    }

    /// serde_lexpr's from_str / from_slice / from_reader on the same bytes (target: anything, ignored)
    fn serde_sources(&mut self, text: &[u8], ro: &J) {
        use serde::de::IgnoredAny;
        let o = parse_opts(ro);
        let cat = |r: Result<IgnoredAny, serde_lexpr::Error>| -> String {
            match r {
                Ok(_) => "ok".to_string(),
                Err(e) => format!("{:?}", e.classify()),
            }
        };
        let t = text.to_vec();
        let r = std::panic::catch_unwind(move || {
            let a = cat(serde_lexpr::from_slice_custom::<IgnoredAny>(&t, o));
            let b = cat(serde_lexpr::from_reader_custom::<IgnoredAny>(&t[..], o));
            let (rd, _) = SchedReader::new(&t, vec![1usize], 2, None, 0);
            let c = cat(serde_lexpr::from_reader_custom::<IgnoredAny>(rd, o));
            let d = std::str::from_utf8(&t).ok().map(|s| cat(serde_lexpr::from_str_custom::<IgnoredAny>(s, o)));
            (a, b, c, d)
        });
        self.evals += 1;
        match r {
            Ok((a, b, c, d)) => {
                if a != b || a != c || d.as_ref().map(|d| *d != a).unwrap_or(false) {
                    self.bad.push(json!({"rule":"run","why":format!("serde_lexpr entry points disagree: slice {}, reader {}, trickling reader {}, str {:?}", a, b, c, d),
                                         "what":"serde-sources","text":bytes_j(text),"ro":ro,"ev":{"src":"serde"}}));
                }
            }
            Err(_) => self.bad.push(json!({"rule":"run","why":"serde_lexpr entry point panicked","what":"serde-sources","text":bytes_j(text),"ro":ro,"ev":{"src":"serde"}})),
        }
    }

    pub fn text(&mut self, text: &[u8], ro: &J, rng: &mut rand::rngs::StdRng, want_trace: bool) {
        self.serde_sources(text, ro);
        let o = parse_opts(ro);
        let base_r = match std::panic::catch_unwind(|| lexpr::from_slice_custom(text, o)) {
            Ok(r) => r,
            Err(_) => {
                self.bad.push(json!({"rule":"panic","why":"from_slice_custom panicked","what":"slice","text":bytes_j(text),"ro":ro}));
                return;
            }
        };
        let base = proj(&base_r);
        let kind_of = |p: &J| p["k"].as_str().unwrap().to_string();
        // str
        if let Ok(s) = std::str::from_utf8(text) {
            self.evals += 1;
            let p = proj(&lexpr::from_str_custom(s, o));
            let ev = json!({"ev":"run","src":"str","fault":-1,"invoked":false,"same": p == base,"kind":kind_of(&p),"carries":false,"prefixSyntax":false,"determined":false,"len":text.len()});
            self.run_event(text, ro, "str", ev, want_trace);
        }
        // fault-free stream schedules
        let schedules: Vec<(Vec<usize>, usize, usize)> = vec![
            (vec![1], 0, 0), (vec![], 0, 0), (vec![1], 1, 0), (vec![2, 1, 3], 2, 0), (vec![], 0, 1), (vec![7], 3, 3),
            (vec![rng.gen_range(1..5), rng.gen_range(1..9)], rng.gen_range(0..4), rng.gen_range(0..6)),
        ];
        for (chunks, intr, bufcap) in &schedules {
            self.evals += 1;
            let (rd, _) = SchedReader::new(text, chunks.clone(), *intr, None, 0);
            let r = std::panic::catch_unwind(std::panic::AssertUnwindSafe(move || {
                if *bufcap > 0 {
                    lexpr::from_reader_custom(io::BufReader::with_capacity(*bufcap, rd), o)
                } else {
                    lexpr::from_reader_custom(rd, o)
                }
            }));
            let p = match r {
                Ok(r) => proj(&r),
                Err(_) => json!({"k":"panic"}),
            };
            let ev = json!({"ev":"run","src":"reader","fault":-1,"invoked":false,"same": p == base,"kind":kind_of(&p),"carries":false,"prefixSyntax":false,"determined":false,
                            "len":text.len(),"chunks":chunks,"intr":intr,"bufcap":bufcap});
            self.run_event(text, ro, "reader", ev, want_trace);
        }
        self.distinct.insert((text.to_vec(), -1));
        // a hard error at every byte offset
        for off in 0..=text.len() {
            for (chunks, bufcap) in [(vec![1usize], 0usize), (vec![3, 1], 2)] {
                self.evals += 1;
                self.faults += 1;
                self.marker += 1;
                let marker = self.marker;
                let (rd, invoked) = SchedReader::new(text, chunks.clone(), if off % 2 == 0 { 2 } else { 0 }, Some(off), marker);
                let r = std::panic::catch_unwind(std::panic::AssertUnwindSafe(move || {
                    if bufcap > 0 {
                        lexpr::from_reader_custom(io::BufReader::with_capacity(bufcap, rd), o)
                    } else {
                        lexpr::from_reader_custom(rd, o)
                    }
                }));
                let (p, carries) = match &r {
                    Ok(r) => (proj(r), r.as_ref().err().map(|e| carries_marker(e, marker)).unwrap_or(false)),
                    Err(_) => (json!({"k":"panic"}), false),
                };
                let prefix_syntax = matches!(std::panic::catch_unwind(|| lexpr::from_slice_custom(&text[..off], o)),
                                             Ok(Err(ref e)) if e.classify() == lexpr::parse::error::Category::Syntax);
                // Did the delivered bytes determine the outcome?  Then every continuation of the prefix gives the very
                // result of the faulted run (a fault taken for the end of input would not survive a continuation).
                let determined = invoked.get() && r.is_ok() && !matches!(p["k"].as_str(), Some("ok") | Some("io")) && {
                    const CONT: [&[u8]; 12] = [b" ", b")", b"]", b"a", b"0", b"\"", b" )", b"\n(", b"#", b"\\", b"'", b"xyz\n"];
                    CONT.iter().all(|c| {
                        let mut t = text[..off].to_vec();
                        t.extend_from_slice(c);
                        matches!(std::panic::catch_unwind(|| lexpr::from_slice_custom(&t, o)), Ok(ref q) if proj(q) == p)
                    })
                };
                let ev = json!({"ev":"run","src":"reader","fault":off,"invoked":invoked.get(),"same": p == base,"kind":kind_of(&p),"carries":carries,
                                "prefixSyntax":prefix_syntax,"determined":determined,"len":text.len(),"chunks":chunks,"bufcap":bufcap});
                self.distinct.insert((text.to_vec(), off as i64));
                self.run_event(text, ro, "fault", ev, want_trace && off % 2 == 0);
            }
        }
    }
}

const JUNK: &[&[u8]] = &[b"(", b")", b"[", b"]", b"#(", b"'", b",@", b".", b" ", b"\n", b";c\n", b"a", b"foo", b"12", b"-2.5e3", b"\"s\"", b"\"a\\n",
    b"#\\x", b"#t", b"#nil", b"#u8(1 2)", b"\xCE\xBB", b"\xCE", b"\xFF", b":k", b"#:k", b"?a", b"nil", b"#", b"{", b"\"", b"1.", b"#\\spac", b"\\"];

/// cfg: {"cases_files": [...], "seed", "random": n, "reader_sessions": n, "trace_stride": n}
pub fn run(cfg: &J) -> J {
    let mut r = Runner { bad: vec![], trace: vec![], evals: 0, faults: 0, distinct: HashSet::new(), marker: 0 };
    let mut rng = rand::rngs::StdRng::seed_from_u64(cfg["seed"].as_u64().unwrap_or(1));
    let stride = cfg["trace_stride"].as_u64().unwrap_or(5) as usize;
    // (1) reader-level call sequences
    let alphabet: [&[u8]; 6] = [b"a", b"\n", b"\xCE\xBB", b"(", b"\r\n", b"\xCE"];
    let nsess = cfg["reader_sessions"].as_u64().unwrap_or(4000);
    for i in 0..nsess {
        let mut data = Vec::new();
        for _ in 0..rng.gen_range(0..6) {
            data.extend_from_slice(alphabet[rng.gen_range(0..alphabet.len())]);
        }
        let fault = if i % 3 == 0 { None } else { Some(rng.gen_range(0..=data.len())) };
        let ops: Vec<u8> = (0..rng.gen_range(1..14)).map(|_| rng.gen_range(0..3)).collect();
        let ev = reader_session(&data, fault, (i % 4) as usize, &ops, i);
        for why in judge_reader(&ev) {
            r.bad.push(json!({"rule":"reader","why":why,"text":ev["data"],"ro":J::Null,"ev":ev}));
        }
        r.evals += 1;
        r.trace.push(ev);
    }
    // (2) parse-level: corpus texts
    let mut n = 0usize;
    for f in cfg["cases_files"].as_array().unwrap() {
        for line in std::fs::read_to_string(f.as_str().unwrap()).expect("cases").lines() {
            if line.trim().is_empty() {
                continue;
            }
            let c: J = serde_json::from_str(line).unwrap();
            n += 1;
            r.text(&j_bytes(&c["text"]), &c["ro"], &mut rng, n % stride == 0);
        }
    }
    // (2b) string bodies mixing literal non-ASCII text with every kind of escape, in every order (the slice and the
    // stream scanners decide separately whether an Emacs Lisp string is unibyte)
    {
        let frags: [&str; 12] = ["\u{e9}", "a", "\\x41", "\\101", "\\u00e9", "\\n", "\\xe9", "\u{3bb}", "\\x41;", "\\N{U+3bb}", "\\ ", "\\377"];
        let opts = [elisp_parse_opts_json(), default_parse_opts_json()];
        let mut k = 0usize;
        for a in 0..=frags.len() {
            for b in 0..=frags.len() {
                for c in 0..frags.len() {
                    let mut t = String::from("\"");
                    if a < frags.len() { t.push_str(frags[a]); }
                    if b < frags.len() { t.push_str(frags[b]); }
                    t.push_str(frags[c]);
                    t.push('"');
                    for ro in &opts {
                        k += 1;
                        r.text(t.as_bytes(), ro, &mut rng, k % (stride * 4) == 0);
                    }
                }
            }
        }
    }
    // (3) seeded well-formed and malformed inputs
    let all = all_parse_opts();
    let (dpo, epo) = (default_parse_opts_json(), elisp_parse_opts_json());
    let mut g = crate::gen::Gen::new(cfg["seed"].as_u64().unwrap_or(1) + 3);
    g.dialect = crate::gen::Dialect::Portable;
    g.max_depth = 3;
    for i in 0..cfg["random"].as_u64().unwrap_or(600) {
        let (t, ro): (Vec<u8>, J) = if i % 3 == 0 {
            let v = g.value();
            (lexpr::to_string(&v).unwrap().into_bytes(), dpo.clone())
        } else if i % 3 == 1 {
            let v = g.value();
            (lexpr::to_string_custom(&v, lexpr::print::Options::elisp()).unwrap().into_bytes(), epo.clone())
        } else {
            let mut t = Vec::new();
            for _ in 0..rng.gen_range(1..10) {
                t.extend_from_slice(JUNK[rng.gen_range(0..JUNK.len())]);
            }
            (t, all[rng.gen_range(0..all.len())].clone())
        };
        r.text(&t, &ro, &mut rng, i as usize % stride == 0);
    }
    json!({"bad": r.bad, "trace": r.trace, "evaluations": r.evals, "fault_points": r.faults, "reader_sessions": nsess,
           "distinct": r.distinct.len(), "tlc_cases": n})
}

pub fn replay_case(case: &J) -> J {
    let mut r = Runner { bad: vec![], trace: vec![], evals: 0, faults: 0, distinct: HashSet::new(), marker: 0 };
    if case.get("ev").map(|e| e["ev"] == "reader").unwrap_or(false) && case["ro"].is_null() {
        // re-run the recorded reader session
        let ev0 = &case["ev"];
        let data = j_bytes(&ev0["data"]);
        let fa = ev0["faultAt"].as_i64().unwrap();
        let fault = if fa > data.len() as i64 { None } else { Some(fa as usize) };
        let ops: Vec<u8> = ev0["calls"].as_array().unwrap().iter().map(|c| match c["op"].as_str().unwrap() { "next" => 0, "peek" => 1, _ => 2 }).collect();
        let ev = reader_session(&data, fault, ev0["intr"].as_u64().unwrap_or(0) as usize, &ops, 1);
        for why in judge_reader(&ev) {
            r.bad.push(json!({"rule":"reader","why":why,"text":ev["data"],"ro":J::Null,"ev":ev}));
        }
        r.trace.push(ev);
    } else {
        let mut rng = rand::rngs::StdRng::seed_from_u64(1);
        r.text(&j_bytes(&case["text"]), &case["ro"], &mut rng, true);
    }
    json!({"bad": r.bad, "trace": r.trace})
}
