------------------------------- MODULE RefRead -------------------------------
(***************************************************************************)
(* The documented reader (DESIGN.md section 3.3 and Appendix B).           *)
(*                                                                         *)
(* Written from the crate documentation, R7RS 7.1.1 (identifiers, numbers),*)
(* R6RS 4.2 (strings, characters) and docs/elisp-strings.md - not from the *)
(* implementation - and structured differently from it: the text is first  *)
(* cut into bare tokens at delimiters, and a bare token is then classified *)
(* as a whole.  It is the "independent reader" of C01/C02, the declarative *)
(* token classifier of C08 and the rejection oracle of C17.                *)
(*                                                                         *)
(* ReadDatum(bs, i, ro) reads one datum of text bs starting at position i  *)
(* under parser options ro (a record of Sexp!ParseOptionSets) and yields   *)
(*   [t |-> "ok", v, nx]   the value and the position after the datum      *)
(*   [t |-> "end"]         only trivia up to the end of input              *)
(*   [t |-> "close", nx]   a closing delimiter (at nx - 1) instead         *)
(*   [t |-> "inc"]         the input ends inside a datum (EOF category)    *)
(*   [t |-> "rej"]         malformed                                       *)
(*   [t |-> "nonum"]       the documentation only says: not a number       *)
(*   [t |-> "unspec"]      the documentation does not determine the answer *)
(***************************************************************************)
EXTENDS Naturals, Integers, Sequences, Text, BigNat, NumLit, Sexp

Ok(v, nx) == [t |-> "ok", v |-> v, nx |-> nx]
End    == [t |-> "end"]
Inc    == [t |-> "inc"]
Rej    == [t |-> "rej"]
Unspec == [t |-> "unspec"]
NoNum  == [t |-> "nonum"]

\* ------------------------------------------------------------------ trivia and tokens
RECURSIVE SkipLine(_, _)
SkipLine(bs, i) == IF i > Len(bs) THEN i ELSE IF bs[i] = LF THEN i + 1 ELSE SkipLine(bs, i + 1)

RECURSIVE SkipTrivia(_, _)
SkipTrivia(bs, i) ==
  IF i > Len(bs) THEN i
  ELSE IF IsTrivia(bs[i]) THEN SkipTrivia(bs, i + 1)
  ELSE IF bs[i] = SEMI THEN SkipTrivia(bs, SkipLine(bs, i + 1))
  ELSE i

RECURSIVE TokenEnd(_, _)
TokenEnd(bs, i) == IF i > Len(bs) \/ IsTokEnd(bs[i]) THEN i ELSE TokenEnd(bs, i + 1)

\* ------------------------------------------------------------------ identifiers (R7RS 7.1.1 without |...|)
SpecialInitial == {BANG, DOLLAR, PCT, AMP, STAR, SLASH, COLON, LT, EQ, GT, QM, CARET, USC, TILDE}
InitialCp(x) == IsLetter(x) \/ x \in SpecialInitial \/ x \in NonAsciiAlpha
SubseqCp(x) == InitialCp(x) \/ IsDigit(x) \/ x \in {PLUS, MINUS, DOT, AT} \/ x \in NonAsciiSubseq
SignSubseqCp(x) == InitialCp(x) \/ x \in {PLUS, MINUS, AT}
DotSubseqCp(x) == SignSubseqCp(x) \/ x = DOT
AllSubseqFrom(c, i) == \A j \in i..Len(c) : SubseqCp(c[j])

IsIdent(c) ==
  /\ c # <<>>
  /\ \/ (InitialCp(c[1]) /\ AllSubseqFrom(c, 2))
     \/ c = <<PLUS>> \/ c = <<MINUS>>
     \/ (IsSign(c[1]) /\ Len(c) >= 2 /\ SignSubseqCp(c[2]) /\ AllSubseqFrom(c, 3))
     \/ (IsSign(c[1]) /\ Len(c) >= 3 /\ c[2] = DOT /\ DotSubseqCp(c[3]) /\ AllSubseqFrom(c, 4))
     \/ (c[1] = DOT /\ Len(c) >= 2 /\ DotSubseqCp(c[2]) /\ AllSubseqFrom(c, 3))

\* R7RS numbers that look like identifiers: +inf.0 -inf.0 +nan.0 -nan.0 +i -i
InfNanI == { <<s, 105, 110, 102, 46, 48>> : s \in {PLUS, MINUS} } \cup
           { <<s, 110, 97, 110, 46, 48>> : s \in {PLUS, MINUS} } \cup
           { <<s, 105>> : s \in {PLUS, MINUS} }

\* a byte the documentation gives no meaning to inside a bare token
OddByte(b) == b < 32 \/ b = DEL \/ b \in {DQ, SQ, BQ, COMMA, PIPE, BSL, LC, RC}
HasOdd(tok) ==
  \/ \E i \in DOMAIN tok : OddByte(tok[i])
  \/ \E i \in 2..Len(tok) : tok[i] = HASH

KnownCp(x) == x < 128 \/ x \in NonAsciiAlpha \/ x \in NonAsciiSubseq

NilName == <<110, 105, 108>>     \* nil
TName   == <<116>>               \* t

(***************************************************************************)
(* '#' tokens.                                                             *)
(***************************************************************************)
HashToken(tok, cps, ro) ==
  LET n == Len(tok) IN
  IF n = 1 THEN Rej
  ELSE IF tok = <<HASH, 116>> THEN Ok(Bool(TRUE), 0)                          \* #t
  ELSE IF tok = <<HASH, 102>> THEN Ok(Bool(FALSE), 0)                         \* #f
  ELSE IF tok = <<HASH, 110, 105, 108>> THEN Ok(Nil, 0)                       \* #nil
  ELSE IF tok[2] = COLON THEN                                                 \* #:name
         IF ~ro.kw[1] THEN Rej
         ELSE IF n > 2 /\ IsIdent(Rest(cps, 3)) /\ ~IsDigit(tok[3]) THEN Ok(Kw(Rest(cps, 3)), 0)
         ELSE Unspec
  ELSE IF tok[2] = PCT THEN                                                   \* #%name
         IF ~ro.racket THEN Rej
         ELSE IF n > 2 /\ AllSubseqFrom(cps, 3) THEN Ok(Sym(cps), 0)
         ELSE Unspec
  ELSE IF tok[2] \in {98, 111, 120} THEN                                      \* #b #o #x
         LET r == CASE tok[2] = 98 -> 2 [] tok[2] = 111 -> 8 [] OTHER -> 16
             body == Rest(tok, 3)
         IN IF RadixShape(body, r).ok THEN Ok(Num(DenoteRadix(body, r)), 0) ELSE Rej
  ELSE IF tok[2] = 100 THEN                                                   \* #d
         LET body == Rest(tok, 3) IN
         IF RadixShape(body, 10).ok THEN Ok(Num(DenoteRadix(body, 10)), 0)
         ELSE IF IsDecimalLiteral(body) THEN Unspec      \* #d1.5: R7RS yes, the crate's grammar does not say
         ELSE Rej
  ELSE Unspec

\* proper prefixes of valid '#' tokens and numeric literals (for the EOF category, C19)
HashTokenCut(tok) ==
  \/ tok \in {<<HASH>>, <<HASH, 110>>, <<HASH, 110, 105>>,                     \* # #n #ni
              <<HASH, 117>>, <<HASH, 118>>, <<HASH, 118, 117>>,                \* #u #v #vu
              <<HASH, 117, 56>>, <<HASH, 118, 117, 56>>}                       \* #u8 #vu8 (the "(" is missing)
  \/ (Len(tok) >= 2 /\ tok[2] \in {98, 111, 100, 120} /\
      RadixShape(Rest(tok, 3), CASE tok[2] = 98 -> 2 [] tok[2] = 111 -> 8 [] tok[2] = 100 -> 10 [] OTHER -> 16).cut)
  \/ (Len(tok) >= 2 /\ tok[2] = 100 /\ DecShape(Rest(tok, 3)).cut)

(***************************************************************************)
(* Classification of a bare token (Appendix B of DESIGN.md).  nx is filled *)
(* in by the caller.                                                       *)
(***************************************************************************)
ClassifyToken(tok, ro) ==
  IF ~Utf8Ok(tok) THEN Rej
  ELSE IF HasOdd(tok) THEN Unspec
  ELSE
  LET cps == Decode(tok)
      n   == Len(cps)
      pre == ro.kw[2] /\ cps[1] = COLON
      post == ro.kw[3] /\ cps[n] = COLON
  IN
  IF \E i \in DOMAIN cps : ~KnownCp(cps[i]) THEN Unspec
  ELSE IF tok[1] = HASH THEN HashToken(tok, cps, ro)
  ELSE IF IsDecimalLiteral(tok) THEN
         LET d == DenoteDecimal(tok) IN
         \* out of range: an error - unless leading-digit symbols make the token a possible symbol
         IF d.t = "range" THEN (IF ro.digits /\ IsDigit(tok[1]) THEN Unspec ELSE Rej)
         ELSE IF d.t = "edge" THEN Unspec ELSE Ok(Num(d), 0)
  ELSE IF IsDigit(tok[1]) THEN
         \* digit-initial and not a literal: a symbol iff leading-digit symbols are enabled - never a number
         IF post \/ DecShape(tok).cut THEN (IF ro.digits THEN Unspec ELSE NoNum)
         ELSE IF ro.digits THEN Ok(Sym(cps), 0) ELSE Rej
  ELSE IF (IsSign(tok[1]) /\ n >= 2 /\ (IsDigit(tok[2]) \/ (tok[2] = DOT /\ n >= 3 /\ IsDigit(tok[3]))))
          \/ (tok[1] = DOT /\ n >= 2 /\ IsDigit(tok[2]))
          \/ cps \in InfNanI THEN
         NoNum                             \* +5x -1/2 +1. -.5 .5 +inf.0: R7RS may call it a number; never the crate's literal
  ELSE IF pre /\ post /\ n >= 2 THEN Unspec                                   \* :a: with both colon styles
  ELSE IF pre THEN IF n >= 2 /\ IsIdent(Tail(cps)) /\ ~IsDigit(cps[2]) THEN Ok(Kw(Tail(cps)), 0) ELSE Unspec
  ELSE IF post THEN IF n >= 2 /\ IsIdent(FrontOf(cps)) THEN Ok(Kw(FrontOf(cps)), 0) ELSE Unspec
  ELSE IF cps = NilName THEN Ok(NilTokenReadsAs(ro), 0)
  ELSE IF cps = TName THEN Ok(TTokenReadsAs(ro), 0)
  ELSE IF cps = <<DOT>> THEN Rej
  ELSE IF ro.chr = "elisp" /\ \E i \in DOMAIN cps : cps[i] = QM THEN Unspec  \* '?' inside a name under Emacs rules
  ELSE IF IsIdent(cps) THEN Ok(Sym(cps), 0)
  ELSE Unspec

\* is the (rejected or unspecified) token tok, found at the very end of the input, a proper prefix of
\* something the documented grammar accepts?
TokenCut(tok) ==
  \/ (tok[1] = HASH /\ HashTokenCut(tok))
  \/ DecShape(tok).cut
  \/ tok = <<DOT>> \/ tok \in {<<PLUS, DOT>>, <<MINUS, DOT>>}

\* ------------------------------------------------------------------ strings
SimpleR6rsEscape(e) ==
  CASE e = DQ -> DQ [] e = BSL -> BSL [] e = 97 -> 7 [] e = 98 -> 8 [] e = 102 -> 12
    [] e = 110 -> 10 [] e = 114 -> 13 [] e = 116 -> 9 [] e = 118 -> 11 [] e = PIPE -> PIPE
    [] OTHER -> 256

RECURSIVE HexRun(_, _)          \* end of the run of hex digits starting at i
HexRun(bs, i) == IF i <= Len(bs) /\ IsHexDigit(bs[i]) THEN HexRun(bs, i + 1) ELSE i
RECURSIVE OctRun(_, _)
OctRun(bs, i) == IF i <= Len(bs) /\ IsOctDigit(bs[i]) THEN OctRun(bs, i + 1) ELSE i

\* value of hex digits bs[from..to-1]; 1114112 (= not a scalar value) as soon as it exceeds the range
RECURSIVE HexValueAcc(_, _, _, _)
HexValueAcc(bs, i, to, acc) ==
  IF i >= to THEN acc
  ELSE IF acc > 1114111 THEN 1114112
  ELSE HexValueAcc(bs, i + 1, to, acc * 16 + HexVal(bs[i]))
HexValue(bs, from, to) == LET v == HexValueAcc(bs, from, to, 0) IN IF v > 1114111 THEN 1114112 ELSE v

RECURSIVE OctValueAcc(_, _, _, _)
OctValueAcc(bs, i, to, acc) ==
  IF i >= to THEN acc
  ELSE IF acc > 1114111 THEN 1114112
  ELSE OctValueAcc(bs, i + 1, to, acc * 8 + (bs[i] - 48))
OctValue(bs, from, to) == LET v == OctValueAcc(bs, from, to, 0) IN IF v > 1114111 THEN 1114112 ELSE v

\* R6RS string body from position i (after the opening quote); acc = bytes so far
RECURSIVE R6rsString(_, _, _)
R6rsString(bs, i, acc) ==
  IF i > Len(bs) THEN Inc
  ELSE LET b == bs[i] IN
  IF b = DQ THEN (IF Utf8Ok(acc) THEN Ok(Str(Decode(acc)), i + 1) ELSE Rej)
  ELSE IF b # BSL THEN R6rsString(bs, i + 1, Append(acc, b))
  ELSE IF i + 1 > Len(bs) THEN Inc
  ELSE LET e == bs[i + 1] IN
       IF SimpleR6rsEscape(e) < 256 THEN R6rsString(bs, i + 2, Append(acc, SimpleR6rsEscape(e)))
       ELSE IF e = 120 THEN                                   \* \x<hex>;
              LET h == HexRun(bs, i + 2) IN
              IF h > Len(bs) THEN Inc
              ELSE IF bs[h] # SEMI THEN Rej
              ELSE IF h = i + 2 THEN Unspec                   \* \x; without digits
              ELSE LET cp == HexValue(bs, i + 2, h) IN
                   IF IsScalar(cp) THEN R6rsString(bs, h + 1, acc \o EncodeCp(cp)) ELSE Rej
       ELSE Unspec                                            \* \<newline> and anything else

(***************************************************************************)
(* Emacs Lisp strings (docs/elisp-strings.md).  st records what was seen:  *)
(*   ub  a hexadecimal / octal escape denoting a single byte (<= 255)      *)
(*   hb  such an escape above 127                                          *)
(*   mb  a unicode escape, or a hexadecimal / octal escape above 255       *)
(*   na  a raw non-ASCII byte                                              *)
(***************************************************************************)
SimpleElispEscape(e) ==
  CASE e = DQ -> DQ [] e = BSL -> BSL [] e = 97 -> 7 [] e = 98 -> 8 [] e = 116 -> 9 [] e = 110 -> 10
    [] e = 118 -> 11 [] e = 102 -> 12 [] e = 114 -> 13 [] e = 101 -> 27 [] e = 115 -> 32 [] e = 100 -> 127
    [] OTHER -> 256

NoFlags == [ub |-> FALSE, hb |-> FALSE, mb |-> FALSE, na |-> FALSE]

ElispFinish(acc, st, nx) ==
  IF st.ub /\ ~st.mb /\ ~st.na THEN Ok(Bytes(acc), nx)       \* unibyte: read as a byte vector
  ELSE IF st.hb THEN (IF Utf8Ok(acc) THEN Unspec ELSE Rej)   \* a raw byte mixed with non-ASCII text: documented as an error
  ELSE IF Utf8Ok(acc) THEN Ok(Str(Decode(acc)), nx) ELSE Rej

\* a \x.. or \ooo escape with value v consumed up to position nx
RECURSIVE ElispString(_, _, _, _)
ElispNumeric(bs, nx, acc, st, v) ==
  IF ~IsScalar(v) THEN Rej
  ELSE IF v > 255 THEN ElispString(bs, nx, acc \o EncodeCp(v), [st EXCEPT !.mb = TRUE])
  ELSE ElispString(bs, nx, Append(acc, v), [st EXCEPT !.ub = TRUE, !.hb = @ \/ v > 127])

ElispUnicode(bs, nx, acc, st, v) ==
  IF ~IsScalar(v) THEN Rej ELSE ElispString(bs, nx, acc \o EncodeCp(v), [st EXCEPT !.mb = TRUE])

ElispString(bs, i, acc, st) ==
  IF i > Len(bs) THEN Inc
  ELSE LET b == bs[i] n == Len(bs) IN
  IF b = DQ THEN ElispFinish(acc, st, i + 1)
  ELSE IF b # BSL THEN ElispString(bs, i + 1, Append(acc, b), [st EXCEPT !.na = @ \/ b > 127])
  ELSE IF i + 1 > n THEN Inc
  ELSE LET e == bs[i + 1] IN
       IF SimpleElispEscape(e) < 256 THEN ElispString(bs, i + 2, Append(acc, SimpleElispEscape(e)), st)
       ELSE IF e = SP THEN ElispString(bs, i + 2, acc, st)                   \* "\ " is ignored
       ELSE IF e = 120 THEN                                                   \* \x<hex>*
              LET h == HexRun(bs, i + 2) IN
              IF h > n THEN Inc
              ELSE IF h = i + 2 THEN Unspec
              ELSE ElispNumeric(bs, h, acc, st, HexValue(bs, i + 2, h))
       ELSE IF IsOctDigit(e) THEN
              LET h == OctRun(bs, i + 1) IN
              IF h > n THEN Inc
              ELSE IF h - (i + 1) > 3 THEN Unspec                             \* Emacs reads at most three
              ELSE ElispNumeric(bs, h, acc, st, OctValue(bs, i + 1, h))
       ELSE IF e = 117 \/ e = 85 THEN                                         \* \uXXXX \UXXXXXXXX
              LET w == IF e = 117 THEN 4 ELSE 8
                  h == HexRun(bs, i + 2)
              IN IF n < i + 1 + w /\ h > n THEN Inc
                 ELSE IF h - (i + 2) < w THEN Rej
                 ELSE ElispUnicode(bs, i + 2 + w, acc, st, HexValue(bs, i + 2, i + 2 + w))
       ELSE IF e = 78 THEN                                                    \* \N{U+X}
              IF n < i + 2 THEN Inc
              ELSE IF bs[i + 2] # LC THEN Rej
              ELSE IF n < i + 3 THEN Inc
              ELSE IF bs[i + 3] # 85 THEN Unspec                              \* \N{NAME}: deliberately unsupported
              ELSE IF n < i + 4 THEN Inc
              ELSE IF bs[i + 4] # PLUS THEN Unspec
              ELSE LET h == HexRun(bs, i + 5) IN
                   IF h > n THEN Inc
                   ELSE IF bs[h] # RC THEN Rej
                   ELSE IF h = i + 5 THEN Unspec
                   ELSE ElispUnicode(bs, h + 1, acc, st, HexValue(bs, i + 5, h))
       ELSE Unspec                     \* \^c, \C-, \M-, \<newline>, unknown escapes

\* ------------------------------------------------------------------ characters
R6rsCharNames ==
  { <<<<110, 117, 108>>, 0>>,                                  \* nul
    <<<<97, 108, 97, 114, 109>>, 7>>,                          \* alarm
    <<<<98, 97, 99, 107, 115, 112, 97, 99, 101>>, 8>>,         \* backspace
    <<<<116, 97, 98>>, 9>>,                                    \* tab
    <<<<108, 105, 110, 101, 102, 101, 101, 100>>, 10>>,        \* linefeed
    <<<<110, 101, 119, 108, 105, 110, 101>>, 10>>,             \* newline
    <<<<118, 116, 97, 98>>, 11>>,                              \* vtab
    <<<<112, 97, 103, 101>>, 12>>,                             \* page
    <<<<114, 101, 116, 117, 114, 110>>, 13>>,                  \* return
    <<<<101, 115, 99>>, 27>>,                                  \* esc
    <<<<115, 112, 97, 99, 101>>, 32>>,                         \* space
    <<<<100, 101, 108, 101, 116, 101>>, 127>> }                \* delete
R7rsOnlyCharNames == { <<101, 115, 99, 97, 112, 101>>, <<110, 117, 108, 108>> }   \* escape null

\* #\ has been consumed; i is the position of the character
R6rsChar(bs, i) ==
  IF i > Len(bs) THEN Inc
  ELSE IF ~(Utf8Len(bs[i]) > 0 /\ i + Utf8Len(bs[i]) - 1 <= Len(bs)) THEN
         \* cut inside a multi-byte character at the end of input, or not UTF-8 at all
         (IF Utf8Len(bs[i]) > 0 /\ \A k \in (i + 1)..Len(bs) : IsCont(bs[k]) THEN Inc ELSE Rej)
  ELSE IF ~WellFormedAt(bs, i) THEN Rej
  ELSE LET w  == Utf8Len(bs[i])
           c  == CpAt(bs, i)
           k  == TokenEnd(bs, i + w)
           r  == SubSeq(bs, i + w, k - 1)          \* what follows up to the next delimiter
       IN IF r = <<>> THEN Ok(Char(c), k)
          ELSE IF HasOdd(<<SP>> \o r) \/ \E j \in DOMAIN r : r[j] = HASH \/ r[j] > 127 THEN
                 (IF Utf8Ok(r) THEN Unspec ELSE Rej)
          ELSE IF c > 127 THEN Unspec
          ELSE IF c = 120 /\ AllOf(r, IsHexDigit) THEN
                 LET cp == HexValue(r, 1, Len(r) + 1) IN IF IsScalar(cp) THEN Ok(Char(cp), k) ELSE Rej
          ELSE LET name == <<c>> \o r
                   hit == {p \in R6rsCharNames : p[1] = name}
               IN IF hit # {} THEN Ok(Char((CHOOSE p \in hit : TRUE)[2]), k)
                  ELSE IF name \in R7rsOnlyCharNames THEN Unspec
                  ELSE IF k > Len(bs) /\ \E p \in R6rsCharNames : IsProperPrefix(name, p[1]) THEN Inc
                  ELSE Rej

\* ? has been consumed (Emacs character syntax); i is the position of the character
ElispCharEnd(bs, c, k) ==      \* the literal ended before position k: it must be followed by a delimiter
  IF k > Len(bs) \/ IsTokEnd(bs[k]) THEN Ok(Char(c), k) ELSE Unspec

ElispChar(bs, i) ==
  LET n == Len(bs) IN
  IF i > n THEN Inc
  ELSE IF ~(Utf8Len(bs[i]) > 0 /\ i + Utf8Len(bs[i]) - 1 <= n) THEN
         (IF Utf8Len(bs[i]) > 0 /\ \A k \in (i + 1)..n : IsCont(bs[k]) THEN Inc ELSE Rej)
  ELSE IF ~WellFormedAt(bs, i) THEN Rej
  ELSE LET b == bs[i] IN
  IF b \in {LP, RP, LB, RB, SEMI} THEN Rej
  ELSE IF b # BSL THEN ElispCharEnd(bs, CpAt(bs, i), i + Utf8Len(b))
  ELSE IF i + 1 > n THEN Inc
  ELSE LET e == bs[i + 1] IN
       IF SimpleElispEscape(e) < 256 /\ e # DQ THEN ElispCharEnd(bs, SimpleElispEscape(e), i + 2)
       ELSE IF e = 120 THEN
              LET h == HexRun(bs, i + 2) IN
              IF h = i + 2 THEN Unspec            \* "\x" without digits (also at the end of input): not documented; the crate reads NUL
              ELSE LET cp == HexValue(bs, i + 2, h) IN IF IsScalar(cp) THEN ElispCharEnd(bs, cp, h) ELSE Rej
       ELSE IF IsOctDigit(e) THEN
              LET h == OctRun(bs, i + 1) IN
              IF h - (i + 1) > 3 THEN Unspec
              ELSE LET cp == OctValue(bs, i + 1, h) IN IF IsScalar(cp) THEN ElispCharEnd(bs, cp, h) ELSE Rej
       ELSE IF e = 117 \/ e = 85 THEN
              LET w == IF e = 117 THEN 4 ELSE 8
                  h == HexRun(bs, i + 2)
              IN IF n < i + 1 + w /\ h > n THEN Inc
                 ELSE IF h - (i + 2) < w THEN Rej
                 ELSE LET cp == HexValue(bs, i + 2, i + 2 + w) IN
                      IF IsScalar(cp) THEN ElispCharEnd(bs, cp, i + 2 + w) ELSE Rej
       ELSE IF e = 78 \/ e = CARET \/ e = 67 \/ e = 77 \/ e = 83 \/ e = 72 \/ e = 65 THEN Unspec   \* \N{..} \^x \C- \M- \S- \H- \A-
       ELSE IF e < 128 THEN (IF e < 32 \/ e = DEL THEN Unspec ELSE ElispCharEnd(bs, e, i + 2))
       ELSE IF ~(Utf8Len(e) > 0 /\ i + Utf8Len(e) <= n) THEN
              (IF Utf8Len(e) > 0 /\ \A k \in (i + 2)..n : IsCont(bs[k]) THEN Inc ELSE Rej)
       ELSE IF ~WellFormedAt(bs, i + 1) THEN Rej
       ELSE ElispCharEnd(bs, CpAt(bs, i + 1), i + 1 + Utf8Len(e))

\* ------------------------------------------------------------------ data
QuoteName(q) ==
  CASE q = "quote" -> <<113, 117, 111, 116, 101>>
    [] q = "quasiquote" -> <<113, 117, 97, 115, 105, 113, 117, 111, 116, 101>>
    [] q = "unquote" -> <<117, 110, 113, 117, 111, 116, 101>>
    [] OTHER -> <<117, 110, 113, 117, 111, 116, 101, 45, 115, 112, 108, 105, 99, 105, 110, 103>>

\* byte vector elements from position i (after the opening parenthesis)
RECURSIVE ByteElems(_, _, _)
ByteElems(bs, i, acc) ==
  LET j == SkipTrivia(bs, i) IN
  IF j > Len(bs) THEN Inc
  ELSE IF bs[j] = RP THEN Ok(Bytes(acc), j + 1)
  ELSE IF bs[j] \in {LP, LB, RB} THEN Rej
  ELSE LET k == TokenEnd(bs, j)
           tok == SubSeq(bs, j, k - 1)
           isRadix == Len(tok) >= 2 /\ tok[1] = HASH /\ tok[2] \in {98, 111, 100, 120}
           r == IF ~isRadix THEN 10 ELSE CASE tok[2] = 98 -> 2 [] tok[2] = 111 -> 8 [] tok[2] = 100 -> 10 [] OTHER -> 16
           body == IF isRadix THEN Rest(tok, 3) ELSE tok
       IN IF ~Utf8Ok(tok) THEN Rej
          ELSE IF HasOdd(tok) THEN Unspec
          ELSE IF RadixShape(body, r).ok THEN
                 LET v == DenoteRadix(body, r) IN
                 IF v.t = "int" /\ ~v.neg /\ Leq(v.d, <<2, 5, 5>>)
                   THEN ByteElems(bs, k, Append(acc, ToNat(v.d))) ELSE Rej
          ELSE IF k > Len(bs) /\ (RadixShape(body, r).cut \/ tok = <<HASH>>) THEN Inc
          ELSE Rej

RECURSIVE ReadDatum(_, _, _), Elems(_, _, _, _, _, _)

Quoted(bs, i, ro, q) ==
  LET r == ReadDatum(bs, i, ro) IN
  IF r.t = "ok" THEN Ok(List(<<Sym(QuoteName(q)), r.v>>), r.nx)
  ELSE IF r.t = "end" THEN Inc
  ELSE IF r.t = "close" THEN Rej
  ELSE r

\* what may directly follow a lone dot
DotFollower(b) == IsTokEnd(b) /\ b # PIPE

\* elements of a list / vector up to the closing delimiter `close`; kind is "list" or "vec"
Elems(bs, i, ro, close, kind, acc) ==
  LET j == SkipTrivia(bs, i) n == Len(bs) IN
  IF j > n THEN Inc
  ELSE IF bs[j] \in {RP, RB} THEN
         (IF bs[j] # close THEN Rej
          ELSE Ok(IF kind = "list" THEN List(acc) ELSE Vec(acc), j + 1))
  ELSE IF kind = "list" /\ bs[j] = DOT /\ (j + 1 > n \/ DotFollower(bs[j + 1]) \/ bs[j + 1] = PIPE) THEN
         IF j + 1 > n THEN Inc
         ELSE IF bs[j + 1] = PIPE THEN Unspec
         ELSE IF acc = <<>> THEN Rej
         ELSE LET r == ReadDatum(bs, j + 1, ro) IN
              IF r.t = "ok" THEN
                   LET k == SkipTrivia(bs, r.nx) IN
                   IF k > n THEN Inc
                   ELSE IF bs[k] = close THEN Ok(ListWithTail(acc, r.v), k + 1)
                   ELSE Rej
              ELSE IF r.t = "end" THEN Inc
              ELSE IF r.t = "close" THEN Rej
              ELSE r
  ELSE LET r == ReadDatum(bs, j, ro) IN
       IF r.t = "ok" THEN Elems(bs, r.nx, ro, close, kind, Append(acc, r.v))
       ELSE IF r.t = "end" THEN Inc
       ELSE r

ReadDatum(bs, i, ro) ==
  LET j == SkipTrivia(bs, i) n == Len(bs) IN
  IF j > n THEN End
  ELSE LET b == bs[j] IN
  IF b = LP THEN Elems(bs, j + 1, ro, RP, "list", <<>>)
  ELSE IF b = LB THEN Elems(bs, j + 1, ro, RB, IF ro.br = "list" THEN "list" ELSE "vec", <<>>)
  ELSE IF b = RP \/ b = RB THEN [t |-> "close", nx |-> j + 1]
  ELSE IF b = PIPE THEN Unspec                                                 \* |symbol| notation: not part of the crate's grammar
  ELSE IF b = DQ THEN (IF ro.str = "r6rs" THEN R6rsString(bs, j + 1, <<>>) ELSE ElispString(bs, j + 1, <<>>, NoFlags))
  ELSE IF b = SQ THEN Quoted(bs, j + 1, ro, "quote")
  ELSE IF b = BQ THEN Quoted(bs, j + 1, ro, "quasiquote")
  ELSE IF b = COMMA THEN
         (IF j + 1 <= n /\ bs[j + 1] = AT THEN Quoted(bs, j + 2, ro, "unquote-splicing")
          ELSE Quoted(bs, j + 1, ro, "unquote"))
  ELSE IF b = HASH /\ j + 1 <= n /\ bs[j + 1] = LP THEN Elems(bs, j + 2, ro, RP, "vec", <<>>)
  ELSE IF b = HASH /\ j + 1 <= n /\ bs[j + 1] = BSL THEN R6rsChar(bs, j + 2)
  ELSE IF b = HASH /\ j + 1 <= n /\ bs[j + 1] = SEMI THEN Unspec               \* #; datum comment (R7RS)
  ELSE IF b = QM /\ ro.chr = "elisp" THEN ElispChar(bs, j + 1)
  ELSE LET k == TokenEnd(bs, j)
           tok == SubSeq(bs, j, k - 1)
       IN IF tok \in {<<HASH, 117, 56>>, <<HASH, 118, 117, 56>>} /\ k <= n /\ bs[k] = LP
            THEN ByteElems(bs, k + 1, <<>>)                                    \* #u8( #vu8(
          ELSE IF tok \in {<<HASH, 117, 56>>, <<HASH, 118, 117, 56>>} /\ k <= n THEN
                 (IF SkipTrivia(bs, k) <= n /\ bs[SkipTrivia(bs, k)] = LP THEN Unspec ELSE Rej)
          ELSE LET c == ClassifyToken(tok, ro) IN
               IF c.t = "ok" THEN Ok(c.v, k)
               \* a digit-initial token is a complete symbol when leading-digit symbols are enabled
               ELSE IF k > n /\ c.t \in {"rej", "unspec", "nonum"} /\ Utf8Ok(tok) /\ TokenCut(tok)
                       /\ ~(ro.digits /\ IsDigit(tok[1])) THEN Inc
               ELSE IF k > n /\ ~Utf8Ok(tok) /\ Utf8CutFrom(tok, 1) THEN Inc    \* the input ends inside a multi-byte character
               ELSE c

(***************************************************************************)
(* Whole-input readers.                                                    *)
(***************************************************************************)
\* exactly one datum, then only trivia (lexpr::from_str and friends)
ReadOne(bs, ro) ==
  LET r == ReadDatum(bs, 1, ro) IN
  IF r.t = "ok" THEN
       LET k == SkipTrivia(bs, r.nx) IN
       IF k > Len(bs) THEN [t |-> "ok", v |-> r.v]
       ELSE [t |-> "trailing", v |-> r.v]        \* a datum, then something else
  ELSE IF r.t = "end" THEN Inc                   \* no datum at all: EOF while parsing a value
  ELSE IF r.t = "close" THEN Rej
  ELSE r

\* all data of the input, in order (C12): [t |-> "ok", vs] or the first non-ok outcome
RECURSIVE ReadAllFrom(_, _, _, _)
ReadAllFrom(bs, i, ro, acc) ==
  LET r == ReadDatum(bs, i, ro) IN
  IF r.t = "ok" THEN ReadAllFrom(bs, r.nx, ro, Append(acc, r.v))
  ELSE IF r.t = "end" THEN [t |-> "ok", vs |-> acc]
  ELSE IF r.t = "close" THEN [t |-> "rej", vs |-> acc]
  ELSE [t |-> r.t, vs |-> acc]

ReadAll(bs, ro) == ReadAllFrom(bs, 1, ro, <<>>)
=============================================================================
