------------------------------ MODULE Mutation ------------------------------
(***************************************************************************)
(* Beyond the listed properties: in-place mutation of a Value tree through *)
(* the public API (Cons::set_car / set_cdr / car_mut / cdr_mut,            *)
(* Value::as_cons_mut / as_slice_mut) and independence of clones.          *)
(*                                                                         *)
(* State: the root value and the clones taken so far.  A path addresses a  *)
(* sub-value: "a" = car, "d" = cdr, "e1".."e9" = vector element.           *)
(* Actions:                                                                *)
(*   SetCar(p, v)   the cons cell at p gets car v                          *)
(*   SetCdr(p, v)   the cons cell at p gets cdr v (the list may become     *)
(*                  dotted, shorter, longer)                               *)
(*   SetElem(p, i, v)   element i of the vector at p is overwritten        *)
(*   Snapshot       root.clone() is kept                                   *)
(* After every action the implementation's root must equal the model's,    *)
(* every clone must still equal the model value at the time it was taken   *)
(* (a hand-written iterative Clone must not share cells), and the list     *)
(* accessors must agree with ListOps on the new root.                      *)
(***************************************************************************)
EXTENDS Naturals, Sequences, Sexp, ListOps

ElemIndex(s) == CASE s = "e1" -> 1 [] s = "e2" -> 2 [] s = "e3" -> 3 [] s = "e4" -> 4 [] OTHER -> 0
ElemSteps == {"e1", "e2", "e3", "e4"}

RECURSIVE At(_, _), Put(_, _, _), PathsOf(_, _)

\* the sub-value at path p, or None
At(v, p) ==
  IF p = <<>> THEN v
  ELSE LET s == Head(p) IN
       IF s = "a" THEN (IF v.k = "cons" THEN At(v.car, Tail(p)) ELSE None)
       ELSE IF s = "d" THEN (IF v.k = "cons" THEN At(v.cdr, Tail(p)) ELSE None)
       ELSE IF v.k = "vec" /\ ElemIndex(s) \in DOMAIN v.e THEN At(v.e[ElemIndex(s)], Tail(p)) ELSE None

\* v with the sub-value at p replaced by nv (p must exist)
Put(v, p, nv) ==
  IF p = <<>> THEN nv
  ELSE LET s == Head(p) IN
       IF s = "a" THEN Cons(Put(v.car, Tail(p), nv), v.cdr)
       ELSE IF s = "d" THEN Cons(v.car, Put(v.cdr, Tail(p), nv))
       ELSE Vec([v.e EXCEPT ![ElemIndex(s)] = Put(v.e[ElemIndex(s)], Tail(p), nv)])

\* all paths of length <= n that exist in v
PathsOf(v, n) ==
  {<<>>} \cup
  (IF n = 0 THEN {}
   ELSE IF v.k = "cons" THEN {<<"a">> \o q : q \in PathsOf(v.car, n - 1)} \cup {<<"d">> \o q : q \in PathsOf(v.cdr, n - 1)}
   ELSE IF v.k = "vec" THEN UNION {{<<CHOOSE s \in ElemSteps : ElemIndex(s) = i>> \o q : q \in PathsOf(v.e[i], n - 1)} : i \in DOMAIN v.e}
   ELSE {})

\* effect of one action record on a root
Apply(root, act) ==
  CASE act.op = "setcar" -> Put(root, act.p, Cons(act.v, At(root, act.p).cdr))
    [] act.op = "setcdr" -> Put(root, act.p, Cons(At(root, act.p).car, act.v))
    [] act.op = "setelem" -> Put(root, act.p \o <<act.s>>, act.v)
    [] OTHER -> root            \* snapshot

Enabled(root, act) ==
  CASE act.op \in {"setcar", "setcdr"} -> At(root, act.p).k = "cons"
    [] act.op = "setelem" -> At(root, act.p).k = "vec" /\ ElemIndex(act.s) \in DOMAIN At(root, act.p).e
    [] OTHER -> TRUE

\* what the list accessors of the root must report (ListOps)
Observe(v) ==
  [islist |-> IsProperList(v), isdotted |-> IsDottedList(v), iscons |-> v.k = "cons",
   cars |-> Cars(v), tail |-> TailOf(v), yield |-> YieldAll(v)]
=============================================================================
