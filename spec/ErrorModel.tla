----------------------------- MODULE ErrorModel -----------------------------
(***************************************************************************)
(* The error values of the two crates and the conversions between them.    *)
(*                                                                         *)
(*   lexpr::parse::Error      a code with a location, or a wrapped         *)
(*                            io::Error (no location)                      *)
(*   serde_lexpr::Error       a message (no location), a wrapped io::Error *)
(*                            or a wrapped parse error                     *)
(*   std::io::Error           a kind with a payload: a plain message, or   *)
(*                            one of the two errors above                  *)
(*                                                                         *)
(* One action per conversion the code offers (`From` impls); the observers *)
(* are the public accessors: classify / is_io / is_syntax / is_eof,        *)
(* location, Display, Debug, source, kind.  The listed properties say what *)
(* *which* error a parse raises (C06, C19); this module says what an error *)
(* then looks like to a caller that matches on it, prints it, or passes it *)
(* up through `?` into another error type.                                 *)
(***************************************************************************)
EXTENDS Naturals, Sequences, TLC

\* TRUE: converting a serde_lexpr::Error that wraps a parse error that wraps an io::Error into io::Error hands
\* that io::Error back (the repaired tree).  FALSE: the pinned tree, where that conversion reaches `unreachable!()`.
CONSTANT UnwrapNestedIo

EofCodes == {"EofWhileParsingList", "EofWhileParsingVector", "EofWhileParsingString", "EofWhileParsingValue",
             "EofWhileParsingCharacterConstant"}
SyntaxCodes == {"ExpectedSomeIdent", "MismatchedParenthesis", "ExpectedSomeValue", "ExpectedVector", "ExpectedOctet",
                "InvalidEscape", "InvalidNumber", "InvalidSymbol", "NumberOutOfRange", "InvalidUnicodeCodePoint",
                "InvalidCharacterConstant", "TrailingCharacters", "RecursionLimitExceeded"}
Codes == EofCodes \cup SyntaxCodes

Message(code) ==
  CASE code = "EofWhileParsingList" -> "EOF while parsing a list"
    [] code = "EofWhileParsingVector" -> "EOF while parsing a vector"
    [] code = "EofWhileParsingString" -> "EOF while parsing a string"
    [] code = "EofWhileParsingValue" -> "EOF while parsing a value"
    [] code = "EofWhileParsingCharacterConstant" -> "EOF while parsing a character constant"
    [] code = "ExpectedSomeIdent" -> "expected ident"
    [] code = "ExpectedSomeValue" -> "expected value"
    [] code = "ExpectedVector" -> "expected vector"
    [] code = "ExpectedOctet" -> "expected octet"
    [] code = "InvalidEscape" -> "invalid escape"
    [] code = "InvalidNumber" -> "invalid number"
    [] code = "InvalidSymbol" -> "invalid symbol"
    [] code = "MismatchedParenthesis" -> "mismatched parenthesis"
    [] code = "NumberOutOfRange" -> "number out of range"
    [] code = "InvalidUnicodeCodePoint" -> "invalid unicode code point"
    [] code = "InvalidCharacterConstant" -> "invalid character constant"
    [] code = "TrailingCharacters" -> "trailing characters"
    [] code = "RecursionLimitExceeded" -> "recursion limit exceeded"

\* the io::ErrorKinds a reader or writer in the harness fails with (Debug name = the kind's identifier)
IoKinds == {"Other", "NotFound", "BrokenPipe", "UnexpectedEof", "InvalidData", "TimedOut"}

NoLoc == <<>>

----------------------------------------------------------------------------
\* Error values.  `layer` is the Rust type.

ParseCode(code, line, col) == [layer |-> "parse", src |-> "code", code |-> code, loc |-> <<line, col>>]
ParseIo(io)                == [layer |-> "parse", src |-> "io", io |-> io]
SerdeMsg(text)             == [layer |-> "serde", src |-> "msg", text |-> text]
SerdeIo(io)                == [layer |-> "serde", src |-> "io", io |-> io]
SerdeParse(p)              == [layer |-> "serde", src |-> "parse", inner |-> p]
IoPlain(kind, text)        == [layer |-> "io", kind |-> kind, src |-> "plain", text |-> text]
IoWrap(kind, inner)        == [layer |-> "io", kind |-> kind, src |-> "wrap", inner |-> inner]
Panic                      == [layer |-> "panic", src |-> "panic"]

----------------------------------------------------------------------------
\* Observers

RECURSIVE Display(_)
Display(e) ==
  IF e.layer = "parse" THEN
       (IF e.src = "code" THEN Message(e.code) \o " at line " \o ToString(e.loc[1]) \o " column " \o ToString(e.loc[2])
        ELSE Display(e.io))
  ELSE IF e.layer = "serde" THEN
       (IF e.src = "msg" THEN e.text ELSE IF e.src = "io" THEN Display(e.io) ELSE Display(e.inner))
  ELSE IF e.layer = "panic" THEN "<panic>"
  ELSE (IF e.src = "plain" THEN e.text ELSE Display(e.inner))

\* Rust's {:?} of a str (the messages here need no escaping)
Quoted(s) == "\"" \o s \o "\""

RECURSIVE DebugOf(_)
DebugOf(e) ==
  IF e.layer = "parse" THEN
       (IF e.src = "code"
          THEN "Error(" \o Quoted(Message(e.code)) \o ", line: " \o ToString(e.loc[1]) \o ", column: " \o ToString(e.loc[2]) \o ")"
          ELSE "Error(" \o Quoted(Display(e.io)) \o ")")
  ELSE IF e.layer = "serde" THEN
       (IF e.src = "msg" THEN "Message(" \o Quoted(e.text) \o ", None)"
        ELSE IF e.src = "io" THEN "Io(" \o DebugOf(e.io) \o ")"
        ELSE "Parse(" \o DebugOf(e.inner) \o ")")
  ELSE IF e.layer = "panic" THEN "<panic>"
  ELSE (IF e.src = "plain" THEN "Custom { kind: " \o e.kind \o ", error: " \o Quoted(e.text) \o " }"
        ELSE "Custom { kind: " \o e.kind \o ", error: " \o DebugOf(e.inner) \o " }")

\* parse::error::Category / serde_lexpr::error::Category
RECURSIVE Category(_)
Category(e) ==
  IF e.layer = "parse" THEN (IF e.src = "io" THEN "Io" ELSE IF e.code \in EofCodes THEN "Eof" ELSE "Syntax")
  ELSE IF e.layer = "serde" THEN
       (IF e.src = "msg" THEN "Data" ELSE IF e.src = "io" THEN "Io" ELSE Category(e.inner))
  ELSE "n/a"

RECURSIVE Location(_)
Location(e) ==
  IF e.layer = "parse" THEN (IF e.src = "code" THEN e.loc ELSE NoLoc)
  ELSE IF e.layer = "serde" THEN (IF e.src = "parse" THEN Location(e.inner) ELSE NoLoc)
  ELSE NoLoc

\* std::error::Error::source: the Display of the source, or "none"
Source(e) ==
  IF e.layer = "parse" THEN (IF e.src = "io" THEN Display(e.io) ELSE "none")
  ELSE IF e.layer = "serde" THEN (IF e.src = "msg" THEN "none" ELSE IF e.src = "io" THEN Display(e.io) ELSE Display(e.inner))
  ELSE (IF e.src = "plain" THEN "none" ELSE "inner")   \* io::Error::source of a custom error is the payload's own source; not observed

----------------------------------------------------------------------------
\* Conversions: the `From` impls

\* From<parse::Error> for io::Error and From<serde_lexpr::Error> for io::Error: a wrapped io::Error comes back out
\* as it went in; anything else becomes a custom io::Error whose kind follows the category
KindFor(cat) == IF cat = "Eof" THEN "UnexpectedEof" ELSE "InvalidData"

IntoIo(e) ==
  IF e.src = "io" THEN e.io
  ELSE IF Category(e) = "Io" THEN (IF UnwrapNestedIo THEN e.inner.io ELSE Panic)   \* serde(parse(io))
  ELSE IoWrap(KindFor(Category(e)), e)

\* From<parse::Error> for serde_lexpr::Error, From<io::Error> for serde_lexpr::Error
IntoSerde(e) == IF e.layer = "parse" THEN SerdeParse(e) ELSE SerdeIo(e)

\* how a reader's failure surfaces from the parser
IntoParse(io) == ParseIo(io)

CanIntoIo(e) == e.layer \in {"parse", "serde"}
CanIntoSerde(e) == e.layer \in {"parse", "io"}
CanIntoParse(e) == e.layer = "io"
=============================================================================
