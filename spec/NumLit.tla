------------------------------- MODULE NumLit -------------------------------
(***************************************************************************)
(* Numeric literals (C05, used by RefRead):                                *)
(*      [#b|#o|#d|#x][+|-]digits                                           *)
(*      [+|-]digits[.digits][(e|E)[+|-]digits]                             *)
(* and their exact denotation.  A literal denotes                          *)
(*   [t |-> "int", neg, d]   an integer inside [-2^63, 2^64-1], exactly    *)
(*   [t |-> "big", neg, d]   an integer outside it: the implementation     *)
(*                           must answer with a float approximating d      *)
(*   [t |-> "flt", neg, d, e] the decimal d * 10^e, to be rounded to a     *)
(*                           double (accuracy classes: see Class below)    *)
(*   [t |-> "range"]         magnitude beyond the largest double: an error *)
(*   [t |-> "edge"]          within one ulp of the overflow boundary:      *)
(*                           either answer is accepted                     *)
(***************************************************************************)
EXTENDS Naturals, Integers, Sequences, BigNat, Text

\* index of the first position >= i of tok that is not a digit of radix r
RECURSIVE SkipRadixDigits(_, _, _)
SkipRadixDigits(tok, i, r) ==
  IF i <= Len(tok) /\ IsHexDigit(tok[i]) /\ HexVal(tok[i]) < r
    THEN SkipRadixDigits(tok, i + 1, r) ELSE i

DigitsOf(tok, from, to) == [i \in 1..(to - from) |-> HexVal(tok[from + i - 1])]

IsSign(b) == b = PLUS \/ b = MINUS
IsExpMark(b) == b = 101 \/ b = 69    \* e E

(***************************************************************************)
(* Shape of a decimal token: where the parts are and whether the whole     *)
(* token is a literal of the decimal grammar.                              *)
(***************************************************************************)
DecShape(tok) ==
  LET n  == Len(tok)
      s  == IF n >= 1 /\ IsSign(tok[1]) THEN 2 ELSE 1
      a  == SkipRadixDigits(tok, s, 10)                    \* end of the integer digits
      hf == a <= n /\ tok[a] = DOT
      b  == IF hf THEN SkipRadixDigits(tok, a + 1, 10) ELSE a
      he == b <= n /\ IsExpMark(tok[b])
      es == IF he /\ b + 1 <= n /\ IsSign(tok[b + 1]) THEN b + 2 ELSE b + 1
      c  == IF he THEN SkipRadixDigits(tok, es, 10) ELSE b
  IN [ok      |-> n >= 1 /\ a > s /\ (hf => b > a + 1) /\ (he => c > es) /\ c = n + 1,
      neg     |-> n >= 1 /\ tok[1] = MINUS,
      int     |-> DigitsOf(tok, s, a),
      frac    |-> IF hf THEN DigitsOf(tok, a + 1, b) ELSE <<>>,
      hasFrac |-> hf, hasExp |-> he,
      expNeg  |-> he /\ b + 1 <= n /\ tok[b + 1] = MINUS,
      exp     |-> IF he THEN DigitsOf(tok, es, c) ELSE <<>>,
      \* a proper prefix of a literal that is not itself one: "1." "1e" "1e+" "1.5e-"
      cut     |-> /\ n >= 1 /\ a > s
                  /\ \/ (hf /\ b = a + 1 /\ b = n + 1)
                     \/ ((hf => b > a + 1) /\ he /\ c = es /\ c = n + 1)]

IsDecimalLiteral(tok) == DecShape(tok).ok

RECURSIVE StripTrailingZeros(_)
\* <<digits, count of zeros removed>>
StripTrailingZeros(d) ==
  IF Len(d) > 1 /\ d[Len(d)] = 0
    THEN LET r == StripTrailingZeros(SubSeq(d, 1, Len(d) - 1)) IN <<r[1], r[2] + 1>>
    ELSE <<d, 0>>

\* largest finite double is 1.7976931348623157e308 = 0.17976931348623157e309
DblMaxPrefix == <<1, 7, 9, 7, 6, 9, 3, 1, 3, 4, 8, 6, 2, 3, 1, 5, 7>>
Pad17(d) == [i \in 1..17 |-> IF i <= Len(d) THEN d[i] ELSE 0]

\* the decimal d * 10^e (d normalised, non-zero) against the overflow boundary
Magnitude(d, e) ==
  LET m == Len(d) + e IN      \* value in [10^(m-1), 10^m)
  IF m >= 310 THEN "range"
  ELSE IF m <= 308 THEN "ok"
  ELSE LET c == Cmp(Pad17(d), DblMaxPrefix) IN
       \* up to the largest double: in range.  Beyond it by more than a relative 2^-50 (the accuracy the
       \* documentation promises for a result): out of range.  In between, rounding to the largest double
       \* and rejecting are both acceptable.
       IF c <= 0 THEN "ok"
       ELSE IF Cmp(Pad17(d), AddSmall(DblMaxPrefix, 18)) >= 0 THEN "range" ELSE "edge"

IntegerValue(neg, d0) ==
  LET d == Norm(d0) IN
  IF d = Zero THEN [t |-> "int", neg |-> FALSE, d |-> Zero]
  ELSE IF (~neg /\ Leq(d, U64Max)) \/ (neg /\ Leq(d, I64MaxPlus1))
    THEN [t |-> "int", neg |-> neg, d |-> d]
  \* outside the 64-bit range: a float approximating it - unless it is beyond the largest double
  ELSE LET mg == Magnitude(d, 0) IN
       IF mg = "ok" THEN [t |-> "big", neg |-> neg, d |-> d] ELSE [t |-> mg]

\* exponent digits beyond 6 places cannot matter: +- 10^6 already decides overflow / underflow
ExpValue(ds) == LET d == Norm(ds) IN IF Len(d) > 6 THEN 1000000 ELSE ToNat(d)

\* denotation of a token that satisfies IsDecimalLiteral
DenoteDecimal(tok) ==
  LET sh == DecShape(tok) IN
  IF ~sh.hasFrac /\ ~sh.hasExp THEN IntegerValue(sh.neg, sh.int)
  ELSE LET all == Norm(sh.int \o sh.frac)
           st  == StripTrailingZeros(all)
           x   == ExpValue(sh.exp)
           e   == (IF sh.expNeg THEN 0 - x ELSE x) - Len(sh.frac) + st[2]
       IN IF st[1] = Zero THEN [t |-> "flt", neg |-> sh.neg, d |-> Zero, e |-> 0]
          ELSE LET mg == Magnitude(st[1], e) IN
               IF mg = "ok" THEN [t |-> "flt", neg |-> sh.neg, d |-> st[1], e |-> e]
               ELSE [t |-> mg]

(***************************************************************************)
(* Radix literals: the token without its #b #o #d #x prefix.               *)
(***************************************************************************)
RadixShape(body, r) ==
  LET n == Len(body)
      s == IF n >= 1 /\ IsSign(body[1]) THEN 2 ELSE 1
      a == SkipRadixDigits(body, s, r)
  IN [ok  |-> n >= 1 /\ a > s /\ a = n + 1,
      neg |-> n >= 1 /\ body[1] = MINUS,
      ds  |-> DigitsOf(body, s, a),
      cut |-> a = s /\ a = n + 1]           \* nothing but an optional sign so far

DenoteRadix(body, r) ==
  LET sh == RadixShape(body, r) IN IntegerValue(sh.neg, FromRadix(sh.ds, r))

(***************************************************************************)
(* Accuracy class the documentation promises for a decimal literal with a  *)
(* fraction and/or exponent (C05): "exact" = correctly rounded, whenever   *)
(* the literal's digits (integer and fraction digits as written, leading   *)
(* zeros aside) fit in 2^53 with an effective exponent |e| <= 22, and also *)
(* - built without fast-float-parsing (fast = FALSE) - whenever it has at  *)
(* most 19 such digits; otherwise within relative error 2^-50.             *)
(***************************************************************************)
FitsIn2p53(d) == Leq(d, TwoPow53)

ClassOfDecimal(tok, fast) ==
  LET sh  == DecShape(tok)
      raw == Norm(sh.int \o sh.frac)
      x   == ExpValue(sh.exp)
      re  == (IF sh.expNeg THEN 0 - x ELSE x) - Len(sh.frac)
      den == DenoteDecimal(tok)
  IN IF den.t # "flt" THEN den.t
     ELSE IF den.d = Zero THEN "exact"
     ELSE IF FitsIn2p53(raw) /\ re >= 0 - 22 /\ re <= 22 THEN "exact"
     ELSE IF ~fast /\ Len(raw) <= 19 THEN "exact"
     ELSE "within2^-50"

\* may an implementation result be compared digit for digit with the denotation?  Any decimal of at
\* most 15 significant digits inside the normal range is the shortest form of its nearest double.
DigitComparable(n) ==
  n.t = "flt" /\ (n.d = Zero \/ (Len(n.d) <= 15 /\ Len(n.d) + n.e > 0 - 290 /\ Len(n.d) + n.e < 290))

(***************************************************************************)
(* Two correct shortest-digit algorithms may print the same double with a  *)
(* different 16th / 17th significant digit (both texts read back as that   *)
(* double).  x and y (number records) agree if they are equal, or are      *)
(* floats of the same sign with at least 16 digits each that differ by at  *)
(* most two units in the last place of the longer digit string.            *)
(***************************************************************************)
ZeroPad(k) == [i \in 1..k |-> 0]
FloatAgrees(x, y) ==
  IF x = y THEN TRUE
  ELSE IF x.t # "flt" \/ y.t # "flt" \/ x.neg # y.neg \/ Len(x.d) < 16 \/ Len(y.d) < 16 THEN FALSE
  ELSE LET ex == IF x.e < y.e THEN x.e ELSE y.e
           X == Norm(x.d \o ZeroPad(x.e - ex))
           Y == Norm(y.d \o ZeroPad(y.e - ex))
       IN x.e - ex <= 2 /\ y.e - ex <= 2 /\ Leq(X, AddSmall(Y, 2)) /\ Leq(Y, AddSmall(X, 2))
=============================================================================
