------------------------------ MODULE MacroModel ------------------------------
(***************************************************************************)
(* The sexp! macro (C09).  A program is a tree of lexemes of the syntax    *)
(* the macro documents; for each program the model gives                   *)
(*   ValueOf(p)   the value the documentation says the macro builds,       *)
(*   Render(p)    the equivalent S-expression text (for the parser),       *)
(*   Source(p)    the Rust source text of the macro invocation's argument. *)
(* Lexemes (records tagged by t):                                          *)
(*   int(neg, d)  flt(neg, d, e)  str(s)  chr(c)  true  false  nil         *)
(*   fle(neg, d, e, xneg, x)   a float in exponent form: 1e3  2.5e-3       *)
(*   id(s)     a Rust identifier used as a symbol                          *)
(*   qsym(s)   #"..." symbol        psym(s)  punctuation-only symbol       *)
(*   kw(style, s)  style: "octo" #:name | "colon" :name | "quoted" #:"..."  *)
(*   unq(which)    ,expr for one of four fixed Rust expressions            *)
(*   list(es, tail)  tail = [t |-> "none"] or a lexeme (dotted)            *)
(*   vec(es)                                                               *)
(* Rendering rule (DESIGN.md C09): lexemes are separated by one space in   *)
(* both texts; a minus sign is attached to its number; multi-character     *)
(* punctuation symbols are contiguous.                                     *)
(***************************************************************************)
EXTENDS Naturals, Integers, Sequences, Text, BigNat, Sexp

NoTail == [t |-> "none"]

\* the unquoted Rust expressions available in the generated code (one per From impl of Value and a few expression
\* forms), their source, the value Value::from gives them and its text:
\*   n = 42i32   s = "str"   (n + 1)   (v.clone()) with v = Value::symbol("sym")   (n > 1)   ch = 'λ'   fl = 2.5f64
\*   String::from("own")   vec![1u8, 2u8]   (1, "x")   vec![Value::from(1), Value::from(2)]   7u64   -7i8
UnqKinds == {"n", "s", "e", "v", "b", "c", "f", "o", "y", "p", "w", "u", "i"}
UnqValue(w) ==
  CASE w = "n" -> IntV(FALSE, <<4, 2>>)
    [] w = "s" -> Str(<<115, 116, 114>>)
    [] w = "e" -> IntV(FALSE, <<4, 3>>)
    [] w = "v" -> Sym(<<115, 121, 109>>)
    [] w = "b" -> Bool(TRUE)
    [] w = "c" -> Char(955)
    [] w = "f" -> FltV(FALSE, <<2, 5>>, 0 - 1)
    [] w = "o" -> Str(<<111, 119, 110>>)
    [] w = "y" -> Bytes(<<1, 2>>)
    [] w = "p" -> Cons(IntV(FALSE, <<1>>), Str(<<120>>))
    [] w = "w" -> Vec(<<IntV(FALSE, <<1>>), IntV(FALSE, <<2>>)>>)
    [] w = "u" -> IntV(FALSE, <<7>>)
    [] OTHER -> IntV(TRUE, <<7>>)
UnqSource(w) ==
  CASE w = "n" -> <<44, 110>>
    [] w = "s" -> <<44, 115>>
    [] w = "e" -> <<44, 40, 110, 32, 43, 32, 49, 41>>
    [] w = "v" -> <<44, 40, 118, 46, 99, 108, 111, 110, 101, 40, 41, 41>>
    [] w = "b" -> <<44, 40, 110, 32, 62, 32, 49, 41>>
    [] w = "c" -> <<44, 99, 104>>
    [] w = "f" -> <<44, 102, 108>>
    [] w = "o" -> <<44, 40, 83, 116, 114, 105, 110, 103, 58, 58, 102, 114, 111, 109, 40, 34, 111, 119, 110, 34, 41, 41>>
    [] w = "y" -> <<44, 40, 118, 101, 99, 33, 91, 49, 117, 56, 44, 32, 50, 117, 56, 93, 41>>
    [] w = "p" -> <<44, 40, 40, 49, 44, 32, 34, 120, 34, 41, 41>>
    [] w = "w" -> <<44, 40, 118, 101, 99, 33, 91, 86, 97, 108, 117, 101, 58, 58, 102, 114, 111, 109, 40, 49, 41, 44, 32, 86, 97, 108, 117, 101, 58, 58, 102, 114, 111, 109, 40, 50, 41, 93, 41>>
    [] w = "u" -> <<44, 40, 55, 117, 54, 52, 41>>
    [] OTHER -> <<44, 40, 45, 55, 105, 56, 41>>
UnqRender(w) ==
  CASE w = "n" -> <<52, 50>>
    [] w = "s" -> <<34, 115, 116, 114, 34>>
    [] w = "e" -> <<52, 51>>
    [] w = "v" -> <<115, 121, 109>>
    [] w = "b" -> <<35, 116>>
    [] w = "c" -> <<35, 92, 206, 187>>
    [] w = "f" -> <<50, 46, 53>>
    [] w = "o" -> <<34, 111, 119, 110, 34>>
    [] w = "y" -> <<35, 117, 56, 40, 49, 32, 50, 41>>
    [] w = "p" -> <<40, 49, 32, 46, 32, 34, 120, 34, 41>>
    [] w = "w" -> <<35, 40, 49, 32, 50, 41>>
    [] w = "u" -> <<55>>
    [] OTHER -> <<45, 55>>

DigitChars(d) == [i \in 1..Len(d) |-> 48 + d[i]]
SignedDigits(neg, d) == (IF neg THEN <<MINUS>> ELSE <<>>) \o DigitChars(d)

\* a float lexeme is written <digits>.<digits>: d are all digits, e (<= 0) the position of the point
FloatText(neg, d, e) ==
  LET k == 0 - e IN
  (IF neg THEN <<MINUS>> ELSE <<>>) \o DigitChars(SubSeq(d, 1, Len(d) - k)) \o <<DOT>> \o DigitChars(SubSeq(d, Len(d) - k + 1, Len(d)))

\* exponent form: the digits (with a point if e < 0), "e", the signed exponent
ExpFloatText(neg, d, e, xneg, x) ==
  (IF e = 0 THEN SignedDigits(neg, d) ELSE FloatText(neg, d, e)) \o <<101>> \o (IF xneg THEN <<MINUS>> ELSE <<>>) \o DigitChars(x)

RECURSIVE StripTrailingZeros2(_)
StripTrailingZeros2(d) == IF Len(d) > 1 /\ d[Len(d)] = 0 THEN StripTrailingZeros2(SubSeq(d, 1, Len(d) - 1)) ELSE d
\* value of the float lexeme: normalised decimal
FloatValue(neg, d, e) ==
  LET nz == Norm(d)
      st == StripTrailingZeros2(nz)
  IN IF nz = Zero THEN FltV(neg, Zero, 0) ELSE FltV(neg, st, e + (Len(nz) - Len(st)))

\* simple string / char escapes that mean the same in Rust and in R6RS syntax
StrChar(c) == CASE c = DQ -> <<BSL, DQ>> [] c = BSL -> <<BSL, BSL>> [] c = 10 -> <<BSL, 110>> [] OTHER -> EncodeCp(c)
StrText(s) == <<DQ>> \o Flatten([i \in DOMAIN s |-> StrChar(s[i])]) \o <<DQ>>

RECURSIVE ValueOf(_), Render(_), Source(_), JoinWith(_, _)

JoinWith(ts, sep) == IF ts = <<>> THEN <<>> ELSE IF Len(ts) = 1 THEN ts[1] ELSE ts[1] \o sep \o JoinWith(Tail(ts), sep)

ValueOf(p) ==
  CASE p.t = "int" -> LET d == Norm(p.d) IN IntV(p.neg /\ d # Zero, d)
    [] p.t = "flt" -> FloatValue(p.neg, p.d, p.e)
    [] p.t = "fle" -> FloatValue(p.neg, p.d, p.e + (IF p.xneg THEN 0 - ToNat(Norm(p.x)) ELSE ToNat(Norm(p.x))))
    [] p.t = "str" -> Str(p.s)
    [] p.t = "chr" -> Char(p.c)
    [] p.t = "true" -> Bool(TRUE) [] p.t = "false" -> Bool(FALSE) [] p.t = "nil" -> Nil
    [] p.t \in {"id", "qsym", "psym"} -> Sym(p.s)
    [] p.t = "kw" -> Kw(p.s)
    [] p.t = "unq" -> UnqValue(p.w)
    [] p.t = "list" ->
         LET vs == [i \in DOMAIN p.es |-> ValueOf(p.es[i])] IN
         IF p.tail.t = "none" THEN List(vs) ELSE ListWithTail(vs, ValueOf(p.tail))      \* a list tail merges into the chain
    [] OTHER -> Vec([i \in DOMAIN p.es |-> ValueOf(p.es[i])])

\* the equivalent S-expression text
Render(p) ==
  CASE p.t = "int" -> SignedDigits(p.neg, p.d)
    [] p.t = "flt" -> FloatText(p.neg, p.d, p.e)
    [] p.t = "fle" -> ExpFloatText(p.neg, p.d, p.e, p.xneg, p.x)
    [] p.t = "str" -> StrText(p.s)
    [] p.t = "chr" -> <<HASH, BSL>> \o EncodeCp(p.c)
    [] p.t = "true" -> <<HASH, 116>> [] p.t = "false" -> <<HASH, 102>> [] p.t = "nil" -> <<HASH, 110, 105, 108>>
    [] p.t \in {"id", "qsym", "psym"} -> Encode(p.s)
    [] p.t = "kw" -> <<HASH, COLON>> \o Encode(p.s)
    [] p.t = "unq" -> UnqRender(p.w)
    [] p.t = "list" ->
         <<LP>> \o JoinWith([i \in DOMAIN p.es |-> Render(p.es[i])], <<SP>>)
         \o (IF p.tail.t = "none" THEN <<>> ELSE <<SP, DOT, SP>> \o Render(p.tail)) \o <<RP>>
    [] OTHER -> <<HASH, LP>> \o JoinWith([i \in DOMAIN p.es |-> Render(p.es[i])], <<SP>>) \o <<RP>>

\* the Rust source of the macro argument
Source(p) ==
  CASE p.t = "int" -> SignedDigits(p.neg, p.d)
    [] p.t = "flt" -> FloatText(p.neg, p.d, p.e)
    [] p.t = "fle" -> ExpFloatText(p.neg, p.d, p.e, p.xneg, p.x)
    [] p.t = "str" -> StrText(p.s)
    [] p.t = "chr" -> <<SQ>> \o (IF p.c = SQ THEN <<BSL, SQ>> ELSE IF p.c = BSL THEN <<BSL, BSL>> ELSE EncodeCp(p.c)) \o <<SQ>>
    [] p.t = "true" -> <<HASH, 116>> [] p.t = "false" -> <<HASH, 102>> [] p.t = "nil" -> <<HASH, 110, 105, 108>>
    [] p.t \in {"id", "psym"} -> Encode(p.s)
    [] p.t = "qsym" -> <<HASH>> \o StrText(p.s)
    [] p.t = "kw" ->
         (CASE p.style = "octo" -> <<HASH, COLON>> \o Encode(p.s)
            [] p.style = "colon" -> <<COLON>> \o Encode(p.s)
            [] OTHER -> <<HASH, COLON>> \o StrText(p.s))
    [] p.t = "unq" -> UnqSource(p.w)
    [] p.t = "list" ->
         <<LP>> \o JoinWith([i \in DOMAIN p.es |-> Source(p.es[i])], <<SP>>)
         \o (IF p.tail.t = "none" THEN <<>> ELSE <<SP, DOT, SP>> \o Source(p.tail)) \o <<RP>>
    [] OTHER -> <<HASH, LP>> \o JoinWith([i \in DOMAIN p.es |-> Source(p.es[i])], <<SP>>) \o <<RP>>

(***************************************************************************)
(* The macro as built: a parser over Rust token trees.  The Rust lexer     *)
(* turns the source into                                                   *)
(*   punct(c, joint, adj)  one punctuation character; joint = immediately  *)
(*                         followed by another punctuation character (all  *)
(*                         a procedural macro can see); adj = immediately  *)
(*                         followed by anything (what the source says, and *)
(*                         the macro cannot see)                           *)
(*   lit(lex)   an unsigned number, string or character literal            *)
(*   ident(s)   an identifier          rust(w)  an opaque Rust expression  *)
(*   group(ts)  a parenthesised token sequence                             *)
(* and MacroRead follows lexpr-macros/src/parser.rs rule by rule.  The     *)
(* constants name the places where the parser as built departs from the    *)
(* documented meaning.                                                     *)
(***************************************************************************)
CONSTANTS MinusFusion,     \* TRUE: "-" before a literal token negates it even when they are apart in the source
          ColonFusion,     \* TRUE: ":" before an identifier or string token makes a keyword even when they are apart
          FuseAnyLiteral,  \* TRUE: the minus also fuses with string and character literals (Value::from(-"a") does not
                           \* compile) and the colon with number and character literals ("expected string literal")
          RawStringNames,  \* TRUE: the name given as a string literal (#"..", #:"..", : "..") is the literal's source text
                           \* between the quotes, escapes not interpreted (parser.rs string_literal)
          DotAlways        \* TRUE: every "." at the start of a list element is the pair dot, also the first of "..."

Punct(c, joint, adj) == [k |-> "punct", c |-> c, joint |-> joint, adj |-> adj]
Lit(lex) == [k |-> "lit", lex |-> lex]
Ident(s) == [k |-> "ident", s |-> s]
RustExpr(w) == [k |-> "rust", w |-> w]
Group(ts) == [k |-> "group", ts |-> ts]

IsRustIdentName(s) == s # <<>> /\ \A i \in DOMAIN s : IsLetter(s[i]) \/ s[i] = USC \/ s[i] > 127 \/ (i > 1 /\ IsDigit(s[i]))

PunctRun(s) == [i \in DOMAIN s |-> Punct(s[i], i < Len(s), i < Len(s))]
NameTokens(s) == IF IsRustIdentName(s) THEN <<Ident(s)>> ELSE PunctRun(s)

RECURSIVE Tokenize(_)
Tokenize(p) ==
  CASE p.t \in {"int", "flt", "fle"} ->
         (IF p.neg THEN <<Punct(MINUS, FALSE, TRUE)>> ELSE <<>>) \o <<Lit([p EXCEPT !.neg = FALSE])>>
    [] p.t \in {"str", "chr"} -> <<Lit(p)>>
    [] p.t = "true" -> <<Punct(HASH, FALSE, TRUE), Ident(<<116>>)>>
    [] p.t = "false" -> <<Punct(HASH, FALSE, TRUE), Ident(<<102>>)>>
    [] p.t = "nil" -> <<Punct(HASH, FALSE, TRUE), Ident(<<110, 105, 108>>)>>
    [] p.t = "id" -> <<Ident(p.s)>>
    [] p.t = "qsym" -> <<Punct(HASH, FALSE, TRUE), Lit([t |-> "str", s |-> p.s])>>
    [] p.t = "psym" -> PunctRun(p.s)
    [] p.t = "kw" ->
         (CASE p.style = "octo" -> <<Punct(HASH, TRUE, TRUE), Punct(COLON, ~IsRustIdentName(p.s), TRUE)>> \o NameTokens(p.s)
            [] p.style = "colon" -> <<Punct(COLON, FALSE, TRUE), Ident(p.s)>>
            [] OTHER -> <<Punct(HASH, TRUE, TRUE), Punct(COLON, FALSE, TRUE), Lit([t |-> "str", s |-> p.s])>>)
    [] p.t = "unq" -> <<Punct(COMMA, FALSE, TRUE), RustExpr(p.w)>>
    [] p.t = "list" ->
         <<Group(Flatten([i \in DOMAIN p.es |-> Tokenize(p.es[i])])
                 \o (IF p.tail.t = "none" THEN <<>> ELSE <<Punct(DOT, FALSE, FALSE)>> \o Tokenize(p.tail)))>>
    [] OTHER -> <<Punct(HASH, FALSE, TRUE), Group(Flatten([i \in DOMAIN p.es |-> Tokenize(p.es[i])]))>>

\* parser.rs: the characters that start / continue a punctuation identifier
IdentStart == {BANG, DOLLAR, PCT, AMP, STAR, PLUS, MINUS, DOT, SLASH, COLON, LT, EQ, GT, QM, AT, CARET, USC, TILDE}
IdentCont == IdentStart \ {USC}

\* the name a string literal gives to a symbol or keyword
NameOfLit(x) ==
  IF RawStringNames
    THEN Flatten([i \in DOMAIN x |-> CASE x[i] = DQ -> <<BSL, DQ>> [] x[i] = BSL -> <<BSL, BSL>> [] x[i] = 10 -> <<BSL, 110>> [] OTHER -> <<x[i]>>])
    ELSE x

MOk(v, i) == [ok |-> TRUE, v |-> v, i |-> i]
MErr(i) == [ok |-> FALSE, v |-> Nil, i |-> i]

RECURSIVE MParse(_, _), MIdent(_, _, _), MOcto(_, _), MListLoop(_, _, _, _, _), MVecLoop(_, _, _)

\* parse_identifier: <<name, next index>>
MIdent(ts, i, acc) ==
  IF i > Len(ts) THEN <<acc, i>>
  ELSE LET t == ts[i] IN
       IF t.k = "punct" /\ t.c \in IdentCont
         THEN (IF t.joint THEN MIdent(ts, i + 1, Append(acc, t.c)) ELSE <<Append(acc, t.c), i + 1>>)
       ELSE IF t.k = "ident" THEN <<acc \o t.s, i + 1>>
       ELSE <<acc, i>>

MParse(ts, i) ==
  IF i > Len(ts) THEN MErr(i)
  ELSE LET t == ts[i]
           more == i + 1 <= Len(ts) IN
  CASE t.k = "punct" ->
         (IF t.c = HASH THEN MOcto(ts, i + 1)
          ELSE IF t.c = COMMA THEN
            (IF more /\ ts[i + 1].k = "rust" THEN MOk(UnqValue(ts[i + 1].w), i + 2) ELSE MErr(i))
          ELSE IF t.c \in IdentStart THEN
            (IF t.joint THEN LET r == MIdent(ts, i + 1, <<t.c>>) IN MOk(Sym(r[1]), r[2])
             ELSE IF t.c = MINUS /\ more /\ ts[i + 1].k = "lit" /\ (MinusFusion \/ t.adj)
                     /\ (FuseAnyLiteral \/ ts[i + 1].lex.t \in {"int", "flt", "fle"}) THEN
                    (IF ts[i + 1].lex.t \in {"int", "flt", "fle"}
                       THEN MOk(ValueOf([ts[i + 1].lex EXCEPT !.neg = TRUE]), i + 2)
                       ELSE MErr(i))                           \* the generated Rust does not compile
             ELSE IF t.c = COLON /\ more /\ ts[i + 1].k = "lit" /\ (ColonFusion \/ t.adj)
                     /\ (FuseAnyLiteral \/ ts[i + 1].lex.t = "str") THEN
                    (IF ts[i + 1].lex.t = "str" THEN MOk(Kw(NameOfLit(ts[i + 1].lex.s)), i + 2) ELSE MErr(i))   \* "expected string literal"
             ELSE IF t.c = COLON /\ more /\ ts[i + 1].k = "ident" /\ (ColonFusion \/ t.adj) THEN
                    MOk(Kw(ts[i + 1].s), i + 2)
             ELSE MOk(Sym(<<t.c>>), i + 1))
          ELSE MErr(i))
    [] t.k = "lit" -> MOk(ValueOf(t.lex), i + 1)
    [] t.k = "ident" -> MOk(Sym(t.s), i + 1)
    [] t.k = "group" -> LET r == MListLoop(t.ts, 1, <<>>, FALSE, Nil) IN IF r.ok THEN MOk(r.v, i + 1) ELSE MErr(i)
    [] OTHER -> MErr(i)

MOcto(ts, i) ==
  IF i > Len(ts) THEN MErr(i)
  ELSE LET t == ts[i] IN
  CASE t.k = "punct" ->
         (IF t.c # COLON THEN MErr(i)
          ELSE IF i + 1 > Len(ts) THEN MErr(i)
          ELSE IF ts[i + 1].k = "lit" THEN
                 (IF ts[i + 1].lex.t = "str" THEN MOk(Kw(NameOfLit(ts[i + 1].lex.s)), i + 2) ELSE MErr(i))
          ELSE LET r == MIdent(ts, i + 1, <<>>) IN MOk(Kw(r[1]), r[2]))
    [] t.k = "lit" -> IF t.lex.t = "str" THEN MOk(Sym(NameOfLit(t.lex.s)), i + 1) ELSE MErr(i)
    [] t.k = "ident" ->
         (IF t.s = <<116>> THEN MOk(Bool(TRUE), i + 1)
          ELSE IF t.s = <<102>> THEN MOk(Bool(FALSE), i + 1)
          ELSE IF t.s = <<110, 105, 108>> THEN MOk(Nil, i + 1)
          ELSE MErr(i))
    [] t.k = "group" -> LET r == MVecLoop(t.ts, 1, <<>>) IN IF r.ok THEN MOk(r.v, i + 1) ELSE MErr(i)
    [] OTHER -> MErr(i)

\* parse_list: is the "." at position i the pair dot?
IsPairDot(ts, i) ==
  DotAlways \/ ~(ts[i].joint /\ i + 1 <= Len(ts) /\ ts[i + 1].k = "punct" /\ ts[i + 1].c \in IdentCont)

MListLoop(ts, i, es, hasTail, tail) ==
  IF i > Len(ts) THEN MOk(IF hasTail THEN ListWithTail(es, tail) ELSE List(es), i)
  ELSE IF ts[i].k = "punct" /\ ts[i].c = DOT /\ IsPairDot(ts, i) THEN
         (IF hasTail THEN MErr(i)
          ELSE LET r == MParse(ts, i + 1) IN IF r.ok THEN MListLoop(ts, r.i, es, TRUE, r.v) ELSE MErr(i))
  ELSE LET r == MParse(ts, i) IN IF r.ok THEN MListLoop(ts, r.i, Append(es, r.v), hasTail, tail) ELSE MErr(i)

MVecLoop(ts, i, es) ==
  IF i > Len(ts) THEN MOk(Vec(es), i)
  ELSE LET r == MParse(ts, i) IN IF r.ok THEN MVecLoop(ts, r.i, Append(es, r.v)) ELSE MErr(i)

\* the macro's result for a program: a value, or no program at all (macro error / does not compile)
MacroRead(p) ==
  LET ts == Tokenize(p)
      r == MParse(ts, 1)
  IN IF r.ok /\ r.i = Len(ts) + 1 THEN [t |-> "ok", v |-> r.v] ELSE [t |-> "error"]

\* the places where the source text separates what the token stream cannot tell apart
RECURSIVE FusionSites(_)
AdjacentSites(es) ==
  {<<"minus", 0>> : i \in {j \in 1..(Len(es) - 1) : es[j].t = "psym" /\ es[j].s = <<MINUS>>
                              /\ \/ (es[j + 1].t \in {"int", "flt", "fle"} /\ ~es[j + 1].neg)
                                 \/ (FuseAnyLiteral /\ es[j + 1].t \in {"str", "chr"})}}
  \cup {<<"colon", 0>> : i \in {j \in 1..(Len(es) - 1) : es[j].t = "psym" /\ es[j].s = <<COLON>>
                              /\ \/ es[j + 1].t \in {"id", "str"}
                                 \/ (FuseAnyLiteral /\ (es[j + 1].t = "chr" \/ (es[j + 1].t \in {"int", "flt", "fle"} /\ ~es[j + 1].neg)))}}
FusionSites(p) ==
  IF p.t = "list" THEN
       LET all == IF p.tail.t = "none" THEN p.es ELSE Append(p.es, p.tail) IN
       AdjacentSites(p.es) \cup UNION {FusionSites(all[i]) : i \in DOMAIN all}
       \* "- . 1" cannot fuse: the dot is between them
  ELSE IF p.t = "vec" THEN AdjacentSites(p.es) \cup UNION {FusionSites(p.es[i]) : i \in DOMAIN p.es}
  ELSE {}
=============================================================================
