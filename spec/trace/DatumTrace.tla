----------------------------- MODULE DatumTrace -----------------------------
(***************************************************************************)
(* Trace validation for C10 and C11.                                       *)
(*                                                                         *)
(* walk(text, ro, v, dwalk, vwalk): the structure of a parsed datum as     *)
(*   exposed by the datum accessors (list_iter / vector_iter / as_pair on  *)
(*   Ref) and by the value's own accessors.  Both must equal the walk the  *)
(*   specification derives from the value (ListOps), and the reference     *)
(*   reader must read text as a stream containing v.                       *)
(* spans(text, ro, src, trees): the span tree of every datum of the input. *)
(*   Checked: inside the input, non-empty, contained in the parent,        *)
(*   siblings in order without overlap, and the covered text - read on its *)
(*   own by the reference reader - is the sub-datum (the head of a quote   *)
(*   shorthand covers exactly the shorthand characters).                   *)
(***************************************************************************)
EXTENDS Naturals, Integers, Sequences, TLC, Json, IOUtils, RefRead, ListOps

Rec == ndJsonDeserialize(IOEnv.TRACE)
VARIABLE l
Bad(what) == PrintT(<<"BAD", l, what>>)

\* ------------------------------------------------------------------ the walk the specification expects
RECURSIVE WalkOf(_, _), WalkElems(_, _, _)
WalkElems(xs, p, i) ==
  IF i > Len(xs) THEN <<>> ELSE WalkOf(xs[i], Append(p, i - 1)) \o WalkElems(xs, p, i + 1)

WalkOf(v, p) ==
  IF v.k = "null" THEN
       << [p |-> p, k |-> "list-begin", peek |-> None, empty |-> TRUE], [p |-> p, k |-> "none", empty |-> TRUE] >>
  ELSE IF v.k = "cons" THEN
       LET xs == Cars(v) t == TailOf(v) IN
       << [p |-> p, k |-> "list-begin", peek |-> xs[1], empty |-> FALSE] >>
       \o WalkElems(xs, p, 1)
       \o (IF t.k = "null" THEN << [p |-> p, k |-> "none", empty |-> TRUE] >>
           ELSE << [p |-> p, k |-> "none", empty |-> FALSE] >> \o WalkOf(t, Append(p, Len(xs)))
                \o << [p |-> p, k |-> "none", empty |-> TRUE] >>)
       \o << [p |-> p, k |-> "pair", car |-> v.car, cdr |-> v.cdr] >>
  ELSE IF v.k = "vec" THEN
       << [p |-> p, k |-> "vec-begin", n |-> Len(v.e)] >> \o WalkElems(v.e, p, 1) \o << [p |-> p, k |-> "vec-end"] >>
  ELSE << [p |-> p, k |-> "atom", v |-> v] >>

\* ------------------------------------------------------------------ spans
RECURSIVE NoFloatIn(_)
NoFloatIn(v) ==
  CASE v.k = "num" -> v.n.t = "int"
    [] v.k = "cons" -> NoFloatIn(v.car) /\ NoFloatIn(v.cdr)
    [] v.k = "vec" -> \A i \in DOMAIN v.e : NoFloatIn(v.e[i])
    [] OTHER -> TRUE

Shorthands == { <<SQ>>, <<BQ>>, <<COMMA>>, <<COMMA, AT>> }
\* the shorthand characters that stand for the head symbol v (C11: "the head's span covers just the shorthand characters")
ShorthandFor(v) ==
  IF v.k # "sym" THEN <<>>
  ELSE CASE v.s = QuoteName("quote") -> <<SQ>>
         [] v.s = QuoteName("quasiquote") -> <<BQ>>
         [] v.s = QuoteName("unquote") -> <<COMMA>>
         [] v.s = QuoteName("unquote-splicing") -> <<COMMA, AT>>
         [] OTHER -> <<>>

RECURSIVE TreeComplaints(_, _, _, _, _), KidsComplaints(_, _, _, _, _, _, _)

Off(text, line, col) == OffsetOf(text, line, col)

\* complaints about node t whose parent covers [ps, pe); head = this is the head of a quote shorthand
TreeComplaints(text, ro, t, par, head) ==
  LET s == Off(text, t.span[1], t.span[2])
      e == Off(text, t.span[3], t.span[4])
      n == Len(text)
  IN IF t.span[1] < 1 \/ t.span[3] < 1 \/ s > n \/ e > n THEN << <<"span outside the input", t.span>> >>
     \* a position names a place on its line: the column does not exceed the length of that line
     ELSE IF t.span[2] > LineLen(text, t.span[1]) \/ t.span[4] > LineLen(text, t.span[3]) THEN << <<"span position beyond the end of its line", t.span>> >>
     ELSE IF e <= s THEN << <<"empty span", t.span>> >>
     ELSE LET slice == SubSeq(text, s + 1, e)
              r == ReadOne(slice, ro)
              short == t.kind = "list" /\ \E h \in Shorthands : StartsWith(slice, h)
          IN (IF par[1] >= 0 /\ (s < par[1] \/ e > par[2]) THEN << <<"span not contained in the parent's span", t.span>> >> ELSE <<>>)
             \o (IF head THEN (IF slice \in Shorthands /\ slice = ShorthandFor(t.v) THEN <<>> ELSE << <<"head of a quote shorthand covers", slice>> >>)
                 \* a shorthand in a dotted tail, (a . 'x) = (a quote x): its head is an element of the enclosing list
                 ELSE IF slice \in Shorthands /\ slice = ShorthandFor(t.v) THEN <<>>
                 ELSE IF r.t = "ok" /\ r.v # t.v /\ NoFloatIn(t.v) THEN << <<"covered text reads as a different datum", slice>> >>
                 ELSE IF r.t \in {"rej", "inc", "trailing"} THEN << <<"covered text is not one datum", slice, r.t>> >>
                 ELSE <<>>)
             \o KidsComplaints(text, ro, t.kids, 1, s, <<s, e>>, short)
             \o (IF t.tail.kind # "none"
                   THEN LET ke == IF t.kids = <<>> THEN s ELSE Off(text, t.kids[Len(t.kids)].span[3], t.kids[Len(t.kids)].span[4]) IN
                        TreeComplaints(text, ro, t.tail, <<s, e>>, FALSE)
                        \o (IF Off(text, t.tail.span[1], t.tail.span[2]) < ke THEN << <<"dotted tail overlaps the last element">> >> ELSE <<>>)
                   ELSE <<>>)

KidsComplaints(text, ro, kids, i, prevEnd, par, short) ==
  IF i > Len(kids) THEN <<>>
  ELSE LET k == kids[i]
           ks == Off(text, k.span[1], k.span[2])
           ke == Off(text, k.span[3], k.span[4])
       IN TreeComplaints(text, ro, k, par, short /\ i = 1)
          \o (IF ks < prevEnd THEN << <<"element overlaps its preceding sibling", i>> >> ELSE <<>>)
          \o KidsComplaints(text, ro, kids, i + 1, IF ke > prevEnd THEN ke ELSE prevEnd, par, short)

Init == l = 1
Next ==
  /\ l <= Len(Rec)
  /\ LET e == Rec[l] IN
     CASE e.ev = "walk" ->
            LET w == WalkOf(e.v, <<>>) IN
            /\ IF e.dwalk # e.vwalk THEN Bad("datum accessors and value accessors expose different structures") ELSE TRUE
            /\ IF e.dwalk # w THEN Bad("datum walk differs from the walk the list model derives from the value") ELSE TRUE
       [] e.ev = "spans" ->
            LET c == KidsComplaints(e.text, e.ro, e.trees, 1, 0, <<0 - 1, 0 - 1>>, FALSE) IN
            IF c # <<>> THEN Bad(c[1]) ELSE TRUE
       [] OTHER -> Bad("unknown event")
  /\ l' = l + 1
Spec == Init /\ [][Next]_l
Accepted == IF TLCGet("stats").diameter - 1 = Len(Rec) THEN TRUE ELSE Bad("trace not consumed")
=============================================================================
