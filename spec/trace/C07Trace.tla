----------------------------- MODULE C07Trace -----------------------------
(***************************************************************************)
(* Trace validation for C07: a log of write calls recorded from the real   *)
(* printer driving an instrumented io::Write is checked, call by call,     *)
(* against the sink machine of Sink.tla.                                   *)
(*                                                                         *)
(* Events:  begin(text)  write(buf, resp)  end(result)                     *)
(* The printer's chunking (Sink!emitQ) is not logged: a write call issued  *)
(* while no chunk is in progress starts a chunk of the logged length       *)
(* (StartChunk composed with WriteCall).  Every step is taken even when it *)
(* is not a step of the specification; the deviation is reported as a BAD  *)
(* line and the state re-synchronised from the log, so the rest of the     *)
(* trace is still checked.                                                 *)
(***************************************************************************)
EXTENDS Naturals, Sequences, TLC, Json, IOUtils

Rec == ndJsonDeserialize(IOEnv.TRACE)

VARIABLES l,        \* next event
          text,     \* the String the same value prints to (the oracle of C07)
          dl,       \* number of bytes the sink has accepted
          cur,      \* chunk in progress, as in Sink
          faulted,  \* a Fail / Zero response was consumed
          injected, \* some non-accepting response was consumed (Fail, Zero, Intr)
          errd      \* the specification says the call has ended with an error

Prefix(k) == [i \in 1..k |-> i]

S == INSTANCE Sink WITH MaxN <- 0, MaxCalls <- 0, WriteAllEverywhere <- TRUE,
                        n <- Len(text), emitQ <- <<>>, delivered <- Prefix(dl),
                        result <- IF errd THEN "err" ELSE "run", hist <- <<>>

tvars == <<l, text, dl, cur, faulted, injected, errd>>

Bad(what) == PrintT(<<"BAD", l, what>>)

Init == /\ l = 1 /\ text = <<>> /\ dl = 0 /\ cur = S!NoBuf
        /\ faulted = FALSE /\ injected = FALSE /\ errd = FALSE

Begin ==
  LET e == Rec[l] IN
  /\ e.ev = "begin"
  /\ text' = e.text /\ dl' = 0 /\ cur' = S!NoBuf
  /\ faulted' = FALSE /\ injected' = FALSE /\ errd' = FALSE

\* the slice of the text a buffer of length len starting at the cut must carry
Expect(len) == IF dl + len <= Len(text) THEN SubSeq(text, dl + 1, dl + len) ELSE <<"beyond end of text">>

Write ==
  LET e   == Rec[l]
      len == Len(e.buf)
      \* chunk boundaries are not logged: a call outside a chunk starts one of this length
      c   == IF cur = S!NoBuf THEN [pos |-> dl + 1, len |-> len, all |-> TRUE] ELSE cur
      eff == S!Effect(c, e.resp)
  IN
  /\ e.ev = "write"
  \* the call must be a WriteCall of the specification on exactly the pending bytes
  /\ IF errd THEN Bad("write call after the print call must have failed") ELSE TRUE
  /\ IF c.len # len \/ c.pos # dl + 1 THEN Bad("buffer is not the pending rest of the chunk") ELSE TRUE
  /\ IF e.buf # Expect(len) THEN Bad("buffer does not carry the text from the first undelivered byte on") ELSE TRUE
  /\ dl' = dl + S!Accepted(e.resp, len)
  /\ cur' = IF c.len = len THEN eff.cur ELSE S!NoBuf
  /\ errd' = (errd \/ eff.err)
  /\ faulted' = (faulted \/ eff.fault)
  /\ injected' = (injected \/ e.resp.t \in {"fail", "zero", "intr"})
  /\ UNCHANGED text

End ==
  LET e == Rec[l] IN
  /\ e.ev = "end"
  /\ IF e.result = "ok" /\ dl # Len(text) THEN Bad("Ok returned but the sink did not receive the whole text") ELSE TRUE
  /\ IF e.result = "ok" /\ (faulted \/ errd) THEN Bad("Ok returned although the sink failed or stopped accepting") ELSE TRUE
  /\ IF e.result = "ok" /\ cur # S!NoBuf THEN Bad("Ok returned inside a chunk") ELSE TRUE
  /\ IF e.result = "err" /\ ~injected THEN Bad("error returned although the sink accepted everything") ELSE TRUE
  /\ UNCHANGED <<text, dl, cur, faulted, injected, errd>>

Next == /\ l <= Len(Rec)
        /\ l' = l + 1
        /\ (Begin \/ Write \/ End)

Spec == Init /\ [][Next]_tvars

\* safety of the model state itself, evaluated in every state of the trace
DeliveredWithinText == dl <= Len(text) \/ Bad("more bytes delivered than the text has")

\* the whole trace was consumed: one state per event plus the initial state
Accepted == TLCGet("stats").diameter - 1 = Len(Rec) \/ Bad("trace not consumed")
=============================================================================
