----------------------------- MODULE C06Trace -----------------------------
(***************************************************************************)
(* Trace validation for C06.                                               *)
(*                                                                         *)
(* reader(data, faultAt, calls): a sequence of Read-trait calls on a real  *)
(*   IoRead over an instrumented io::Read and on SliceRead (and StrRead).  *)
(*   calls[k] = [op, io, sl, off, line, col, sline, scol] - the returned   *)
(*   byte (256 = end of input, 257 = I/O error), byte_offset() and the     *)
(*   position() of both machines after the call.  Each call must be a step *)
(*   of the source machine of Source.tla.                                  *)
(* run(...): one parse of some bytes from one source under one schedule,   *)
(*   related to the fault-free parse of the same bytes from a slice:       *)
(*     same     the result projection (value | category + message) equals  *)
(*              the fault-free one                                         *)
(*     fault    a hard error was scheduled; invoked = the failing read was *)
(*              really made; kind / carries = the result is the I/O error  *)
(*              category carrying that very error; prefixSyntax = the      *)
(*              delivered prefix parsed on its own is a syntax error       *)
(***************************************************************************)
EXTENDS Naturals, Integers, Sequences, TLC, Json, IOUtils, RefRead

Rec == ndJsonDeserialize(IOEnv.TRACE)
VARIABLE l
Bad(what) == PrintT(<<"BAD", l, what>>)

NoByte == 256
IoErr == 257

\* replay of the reader calls through the source machine: state = <<cursor, peeked, failed>>
RECURSIVE WalkReader(_, _, _, _, _)
WalkReader(e, k, cur, peeked, failed) ==
  IF k > Len(e.calls) THEN <<>>
  ELSE LET c == e.calls[k]
           n == Len(e.data)
           \* what the machine returns for next / peek at cursor cur
           avail == IF cur < n THEN e.data[cur + 1] ELSE NoByte
           \* a fetch is needed unless a byte is peeked; it fails iff the fault offset is reached
           hitsFault == ~peeked /\ e.faultAt <= n /\ cur >= e.faultAt
           want == IF failed THEN IoErr ELSE IF hitsFault THEN IoErr ELSE avail
           cur2 == IF c.op = "next" /\ want < 256 THEN cur + 1 ELSE IF c.op = "discard" THEN cur + 1 ELSE cur
           peeked2 == IF c.op = "peek" THEN want < 256 ELSE FALSE
           failed2 == failed \/ (c.op \in {"next", "peek"} /\ want = IoErr)
           pos == PosOf(e.data, cur2)
           here ==
             (IF c.op \in {"next", "peek"} /\ c.io # want THEN << <<k, "IoRead returns a different byte / outcome than the source machine", c.io, want>> >> ELSE <<>>)
             \o (IF ~failed2 /\ c.op \in {"next", "peek"} /\ c.sl # avail THEN << <<k, "slice cursor returns a different byte", c.sl, avail>> >> ELSE <<>>)
             \o (IF ~failed2 /\ c.off # cur2 THEN << <<k, "byte_offset differs from the cursor", c.off, cur2>> >> ELSE <<>>)
             \o (IF ~failed2 /\ (c.line # pos.line \/ c.col # pos.col) THEN << <<k, "IoRead position differs from the position of the cursor", c.line, c.col>> >> ELSE <<>>)
             \o (IF ~failed2 /\ (c.sline # pos.line \/ c.scol # pos.col) THEN << <<k, "slice position differs from the position of the cursor">> >> ELSE <<>>)
       IN here \o WalkReader(e, k + 1, cur2, peeked2, failed2)

\* If the delivered prefix ends inside a multi-byte character, the character is completed (with the smallest
\* continuation bytes that keep it well-formed): whatever the missing bytes are, the token goes on with one more
\* character - so if the reference calls the completed prefix malformed, the delivered bytes had determined the outcome.
CutStart(p) ==
  LET n == Len(p)
      cands == {i \in 1..n : i >= n - 2 /\ Utf8Len(p[i]) > 1 /\ i + Utf8Len(p[i]) - 1 > n /\ \A k \in (i + 1)..n : IsCont(p[k])}
  IN IF cands = {} THEN 0 ELSE CHOOSE i \in cands : \A j \in cands : i <= j
CompleteCut(p) ==
  LET i == CutStart(p) IN
  IF i = 0 THEN p
  ELSE LET b == p[i]
           have == Len(p) - i                       \* continuation bytes already there
           need == Utf8Len(b) - 1 - have
           first == IF have > 0 THEN 128 ELSE IF b = 224 THEN 160 ELSE IF b = 240 THEN 144 ELSE 128
       IN p \o [k \in 1..need |-> IF k = 1 THEN first ELSE 128]

JudgeRun(e) ==
  IF e.fault < 0 THEN (IF e.same THEN "ok" ELSE "result depends on the source or on how the stream delivers the bytes")
  ELSE IF ~e.invoked THEN (IF e.same THEN "ok" ELSE "a read error that was never reached changed the result")
  ELSE IF e.kind = "io" THEN (IF e.carries THEN "ok" ELSE "I/O-category error does not carry the reader's error")
  ELSE IF e.kind = "ok" THEN "read failure swallowed into a successful parse"
  ELSE IF e.kind \in {"syntax", "eof"} THEN
       \* The failing read was made but a parse error is reported instead.  Acceptable only if the bytes
       \* delivered before the failure already determined the outcome: the reference reader calls the
       \* delivered prefix malformed (DESIGN.md C06, Interpretation).  If it calls the prefix incomplete or
       \* well-formed, the read failure was treated as end of input / swallowed.
       LET r == ReadOne(e.prefix, e.ro)
           rc == IF CutStart(e.prefix) = 0 THEN r ELSE ReadOne(CompleteCut(e.prefix), e.ro)
       IN
       IF r.t \in {"rej", "trailing", "nonum"} THEN "ok"
       ELSE IF e.kind = "syntax" /\ rc.t \in {"rej", "trailing", "nonum"} THEN "ok"
       ELSE IF r.t = "unspec" /\ e.kind = "syntax" /\ e.prefixSyntax THEN "ok"
       \* second witness, independent of the reference: every continuation of the delivered prefix gives the very result
       \* of this run (logged as determined) - a failure taken for the end of input would not survive a continuation
       ELSE IF e.determined THEN "ok"
       ELSE IF e.kind = "eof" THEN "read failure treated as end of input"
       ELSE "read failure not reported as an I/O error"
  ELSE "read failure not reported as an I/O error"

Init == l = 1
Next ==
  /\ l <= Len(Rec)
  /\ LET e == Rec[l] IN
     CASE e.ev = "reader" -> LET w == WalkReader(e, 1, 0, FALSE, FALSE) IN IF w # <<>> THEN Bad(w[1]) ELSE TRUE
       [] e.ev = "run" -> LET j == JudgeRun(e) IN IF j = "ok" THEN TRUE ELSE Bad(j)
       [] OTHER -> Bad("unknown event")
  /\ l' = l + 1
Spec == Init /\ [][Next]_l
Accepted == IF TLCGet("stats").diameter - 1 = Len(Rec) THEN TRUE ELSE Bad("trace not consumed")
=============================================================================
