----------------------------- MODULE ReadTrace -----------------------------
(***************************************************************************)
(* Trace validation against the reference reader (C01, C02, C08, C17).     *)
(* Every event carries a text, a parser option record and what the         *)
(* implementation made of it; the reference reader judges it.              *)
(*                                                                         *)
(*  printed(text, ro, exp)   text printed by the implementation for a      *)
(*                           value; exp = that value after the documented  *)
(*                           folding.  The independent reader must read    *)
(*                           text as exp.                                  *)
(*  parsed(text, ro, res)    res = the implementation's result for text    *)
(*                           ([r |-> "ok", v] or [r |-> "err", cat ..]).   *)
(*                           Must agree with the reference wherever the    *)
(*                           documentation determines the answer.          *)
(* One state per event; a deviation prints a BAD line and the run goes on. *)
(***************************************************************************)
EXTENDS Naturals, Sequences, TLC, Json, IOUtils, RefRead

Rec == ndJsonDeserialize(IOEnv.TRACE)

VARIABLES l, nUnspec
tvars == <<l, nUnspec>>

Bad(what) == PrintT(<<"BAD", l, what>>)

\* a float the reader produced may only be compared digit for digit when the decimal is short
RECURSIVE Comparable(_)
Comparable(v) ==
  CASE v.k = "num" -> v.n.t = "int" \/ (v.n.t = "flt" /\ DigitComparable(v.n))
    [] v.k = "cons" -> Comparable(v.car) /\ Comparable(v.cdr)
    [] v.k = "vec" -> \A i \in DOMAIN v.e : Comparable(v.e[i])
    [] OTHER -> TRUE

\* does the implementation result res agree with the reference outcome r for one whole input
JudgeParsed(r, res) ==
  CASE r.t = "ok" ->
         IF res.r # "ok" THEN "reference reads a value, implementation fails"
         ELSE IF ~Comparable(r.v) THEN "skip"
         ELSE IF res.v = r.v THEN "agree" ELSE "implementation reads a different value"
    [] r.t = "rej" -> IF res.r = "err" THEN "agree" ELSE "malformed per documentation, accepted by the implementation"
    [] r.t = "trailing" -> IF res.r = "err" THEN "agree" ELSE "trailing data accepted"
    [] r.t = "inc" -> IF res.r = "err" THEN "agree" ELSE "incomplete input accepted"
    [] r.t = "nonum" ->
         IF res.r = "ok" /\ res.v.k = "num" THEN "token that is not a numeric literal read as a number" ELSE "agree"
    [] OTHER -> "skip"

Init == l = 1 /\ nUnspec = 0

\* Two correct shortest-digit algorithms may print the same double with a different 16th / 17th digit; a datum read
\* back from such a text equals the original up to two units in the last place of the longer digit string.
RECURSIVE SameDatum(_, _)
SameDatum(a, b) ==
  IF a = b THEN TRUE
  ELSE IF a.k # b.k THEN FALSE
  ELSE CASE a.k = "num" -> FloatAgrees(a.n, b.n)
         [] a.k = "cons" -> SameDatum(a.car, b.car) /\ SameDatum(a.cdr, b.cdr)
         [] a.k = "vec" -> Len(a.e) = Len(b.e) /\ \A i \in DOMAIN a.e : SameDatum(a.e[i], b.e[i])
         [] OTHER -> FALSE

Step ==
  LET e == Rec[l] IN
  CASE e.ev = "printed" ->
         LET r == ReadOne(e.text, e.ro) IN
         IF r.t = "ok" THEN
              /\ (IF SameDatum(r.v, e.exp) THEN TRUE ELSE Bad("independent reader reads the printed text as a different datum"))
              /\ nUnspec' = nUnspec
         ELSE IF r.t = "unspec" THEN nUnspec' = nUnspec + 1
         \* a token the reference cannot place (sign-initial non-numbers such as -i): not an oracle, unless the
         \* printed value is itself a number
         ELSE IF r.t = "nonum" /\ e.exp.k # "num" THEN nUnspec' = nUnspec + 1
         ELSE /\ Bad(<<"independent reader cannot read the printed text", r.t>>)
              /\ nUnspec' = nUnspec
    [] e.ev = "parsed" ->
         LET j == JudgeParsed(ReadOne(e.text, e.ro), e.res) IN
         IF j = "agree" THEN nUnspec' = nUnspec
         ELSE IF j = "skip" THEN nUnspec' = nUnspec + 1
         ELSE Bad(j) /\ nUnspec' = nUnspec
    [] e.ev = "stream" ->
         \* a concatenation of printed values with trivia: the reference reads exactly exp, then the end
         LET r == ReadAll(e.text, e.ro) IN
         IF r.t = "ok" THEN
              /\ (IF Len(r.vs) = Len(e.exp) /\ \A i \in DOMAIN r.vs : SameDatum(r.vs[i], e.exp[i]) THEN TRUE
                  ELSE Bad("independent reader reads a different sequence of data"))
              /\ nUnspec' = nUnspec
         \* nonum: a sign-initial token the reference cannot place (-i, +inf.0 ...): not an oracle for a whole stream
         ELSE IF r.t \in {"unspec", "nonum"} THEN nUnspec' = nUnspec + 1
         ELSE Bad(<<"independent reader cannot read the stream", r.t>>) /\ nUnspec' = nUnspec
    [] e.ev = "parsedall" ->
         \* the implementation's reading of a whole input as a stream of data: res = "ok" (all of vs, then
         \* the end of input) or "err" (vs, then an error)
         LET r == ReadAll(e.text, e.ro) IN
         IF r.t = "ok" THEN
              /\ (IF e.res # "ok" THEN Bad("reference reads the stream, implementation fails")
                  ELSE IF (\A i \in DOMAIN r.vs : Comparable(r.vs[i])) /\ e.vs # r.vs THEN Bad("implementation reads different data")
                  ELSE TRUE)
              /\ nUnspec' = nUnspec
         ELSE IF r.t \in {"rej", "inc"} THEN
              /\ (IF e.res = "ok" THEN Bad(<<"input must be rejected", r.t>>) ELSE TRUE)
              /\ nUnspec' = nUnspec
         ELSE nUnspec' = nUnspec + 1
    [] OTHER -> Bad("unknown event") /\ nUnspec' = nUnspec

Next == l <= Len(Rec) /\ Step /\ l' = l + 1

Spec == Init /\ [][Next]_tvars

Done == l = Len(Rec) + 1 => PrintT(<<"NOTE", "unspecified", nUnspec>>)
Accepted == TLCGet("stats").diameter - 1 = Len(Rec) \/ Bad("trace not consumed")
=============================================================================
