----------------------------- MODULE EvalTrace -----------------------------
(* Development aid: evaluates the reference reader / printer on the events of
   a trace file and prints the results as JSON (lib/tlaeval.py). *)
EXTENDS Naturals, Sequences, RefRead, RefPrint, TLC, Json, IOUtils

Rec == ndJsonDeserialize(IOEnv.TRACE)
VARIABLE l
Init == l = 1
Eval(e) ==
  CASE e.ev = "read" -> ReadOne(e.text, e.ro)
    [] e.ev = "readall" -> ReadAll(e.text, e.ro)
    [] e.ev = "print" -> [text |-> PrintDatum(e.v, e.po)]
    [] OTHER -> [t |-> "?"]
Next == /\ l <= Len(Rec)
        /\ PrintT(<<"NOTE", l, ToJson(Eval(Rec[l]))>>)
        /\ l' = l + 1
Spec == Init /\ [][Next]_l
=============================================================================
