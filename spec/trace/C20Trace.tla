----------------------------- MODULE C20Trace -----------------------------
(***************************************************************************)
(* Trace validation for C20 against the number model of spec/mc/C20.tla:   *)
(*  num(k, kind, isi64, isu64, isf64, asi64, asu64): accessor results of    *)
(*      the value built by constructor call k;                             *)
(*  cmp(k, p, lr, rl, asi64, asu64): value == p and p == value for the      *)
(*      integer primitive p, with the accessor results - the relation of   *)
(*      the property is evaluated on the logged accessor results.          *)
(***************************************************************************)
EXTENDS Naturals, Integers, Sequences, FiniteSets, TLC, Json, IOUtils, BigNat

Rec == ndJsonDeserialize(IOEnv.TRACE)
VARIABLE l
Bad(what) == PrintT(<<"BAD", l, what>>)

M == INSTANCE C20 WITH k <- [c |-> "nil"]

JudgeNum(e) ==
  LET r == M!Repr(e.k) IN
  IF e.kind # M!Kind(e.k) THEN "wrong kind"
  ELSE IF e.isi64 # M!IsI64(r) \/ e.isu64 # M!IsU64(r) \/ e.isf64 # M!IsF64(r) THEN "integer / float predicates differ from the number model"
  ELSE IF e.asi64 # M!AsI64(r) \/ e.asu64 # M!AsU64(r) THEN "as_i64 / as_u64 differ from the number model"
  ELSE IF e.visit # M!Visit(r) THEN "Number::visit dispatches to another method, or with another payload, than the number model"
  ELSE "ok"

JudgeCmp(e) ==
  LET pn == e.p.neg /\ e.p.d # Zero
      acc == IF M!Signed(e.p.w) THEN e.asi64 ELSE e.asu64
      want == acc = [t |-> "some", neg |-> pn, d |-> e.p.d]
  IN IF e.lr # want \/ e.rl # want THEN "comparison with a primitive differs from comparing with the accessor result" ELSE "ok"

Init == l = 1
Next ==
  /\ l <= Len(Rec)
  /\ LET e == Rec[l]
         j == IF e.ev = "num" THEN JudgeNum(e) ELSE IF e.ev = "cmp" THEN JudgeCmp(e) ELSE "unknown event"
     IN IF j = "ok" THEN TRUE ELSE Bad(j)
  /\ l' = l + 1
Spec == Init /\ [][Next]_l
Accepted == IF TLCGet("stats").diameter - 1 = Len(Rec) THEN TRUE ELSE Bad("trace not consumed")
=============================================================================
