SPECIFICATION Spec
INVARIANT DeliveredWithinText
POSTCONDITION Accepted
CHECK_DEADLOCK FALSE
