----------------------------- MODULE C19Trace -----------------------------
(***************************************************************************)
(* Trace validation for C19.  One event per parse error observed on the    *)
(* implementation:                                                         *)
(*   err(text, cat, line, col, iokind, trunc)                              *)
(* trunc = the text is a proper prefix of a text the implementation parses *)
(* as a single datum.  The location bounds are computed with Text.tla.     *)
(***************************************************************************)
EXTENDS Naturals, Integers, Sequences, TLC, Json, IOUtils, Text

Rec == ndJsonDeserialize(IOEnv.TRACE)
VARIABLE l
Bad(what) == PrintT(<<"BAD", l, what>>)

LocationOk(e) ==
  /\ e.line >= 1 /\ e.line <= NumLines(e.text) + 1
  /\ e.col >= 0 /\ e.col <= LineLen(e.text, e.line) + 1

KindOk(e) ==
  CASE e.cat = "syntax" -> e.iokind = "InvalidData"
    [] e.cat = "eof" -> e.iokind = "UnexpectedEof"
    [] OTHER -> TRUE

Init == l = 1
Next ==
  /\ l <= Len(Rec)
  /\ LET e == Rec[l] IN
     /\ IF e.cat # "io" /\ ~LocationOk(e) THEN Bad("error location outside the input") ELSE TRUE
     /\ IF ~KindOk(e) THEN Bad("io::Error kind does not match the error category") ELSE TRUE
     /\ IF e.trunc /\ e.cat # "eof" THEN Bad("truncated input not reported as EOF") ELSE TRUE
  /\ l' = l + 1
Spec == Init /\ [][Next]_l
Accepted == IF TLCGet("stats").diameter - 1 = Len(Rec) THEN TRUE ELSE Bad("trace not consumed")
=============================================================================
