---------------------------- MODULE SessionTrace ----------------------------
(***************************************************************************)
(* Trace validation of parser sessions against Session.tla (C03 depth and  *)
(* budget clauses, C10 same reader for value and datum API, C12 iteration). *)
(* One event = one session on one input:                                   *)
(*   session(toks, limit, calls)  with calls[k] =                          *)
(*     [api, kind, off, boff0, boff1, depth, high]                         *)
(* off = tokens fully consumed after the call, boff0/boff1 = byte offsets  *)
(* before/after, depth = nesting budget after, high = deepest recursion of *)
(* parser activations during the call (hook).  The calls of a session are  *)
(* replayed through the session machine: each call must be a ReadCall /    *)
(* ExpectEnd step from the state the previous calls led to.  How far a     *)
(* failing call consumes is taken from the log (see Session!ErrOffsets).   *)
(***************************************************************************)
EXTENDS Naturals, Sequences, TLC, Json, IOUtils

Rec == ndJsonDeserialize(IOEnv.TRACE)

VARIABLE l
Bad(what) == PrintT(<<"BAD", l, what>>)

\* the machine, with the constants of the intended design; toks etc. are bound per event below
S(lim) == INSTANCE Session WITH Limit <- lim, QuoteCharged <- TRUE, RefundOnLimitError <- TRUE,
                                ErrorsMakeProgress <- TRUE,
                                toks <- <<>>, off <- 0, depth <- lim, last <- "-", high <- 0

IsRead(api) == api \in {"next_value", "next_datum", "value_iter", "datum_iter", "parser_iter"}

\* judge call k of event e starting from `off` tokens consumed; returns a sequence of complaints
RECURSIVE Walk(_, _, _)
Walk(e, k, off) ==
  IF k > Len(e.calls) THEN <<>>
  ELSE LET c == e.calls[k]
           n == Len(e.toks)
       IN IF IsRead(c.api) THEN
            LET r == S(e.limit)!Value(e.toks, off + 1, e.limit, 1)
                here ==
                  (IF c.kind # r.r THEN << <<k, "outcome differs from the session machine", c.kind, r.r>> >> ELSE <<>>)
                  \o (IF c.kind = r.r /\ r.r \in {"ok", "none"} /\ c.off # r.i - 1
                        THEN << <<k, "cursor after the datum differs", c.off, r.i - 1>> >> ELSE <<>>)
                  \o (IF c.kind = "ok" /\ r.r = "ok" /\ c.high # r.hi
                        THEN << <<k, "recursion depth differs from the nesting structure", c.high, r.hi>> >> ELSE <<>>)
                  \o (IF c.high > e.limit THEN << <<k, "recursion deeper than the limit", c.high>> >> ELSE <<>>)
                  \o (IF c.depth # e.limit THEN << <<k, "nesting budget not restored", c.depth>> >> ELSE <<>>)
                  \o (IF c.kind = "ok" /\ c.boff1 <= c.boff0 THEN << <<k, "successful item consumed nothing">> >> ELSE <<>>)
                  \o (IF c.kind = "err" /\ c.boff1 <= c.boff0 /\ c.boff0 < e.textlen
                        THEN << <<k, "failed item consumed nothing">> >> ELSE <<>>)
                  \o (IF c.off < off THEN << <<k, "cursor moved backwards">> >> ELSE <<>>)
            IN here \o Walk(e, k + 1, c.off)
          ELSE \* expect_end
            LET want == IF off = n THEN "end-ok" ELSE "end-err"
                here == (IF c.kind # want THEN << <<k, "expect_end outcome differs", c.kind, want>> >> ELSE <<>>)
                        \o (IF c.depth # e.limit THEN << <<k, "nesting budget not restored", c.depth>> >> ELSE <<>>)
                        \o (IF c.off # off THEN << <<k, "expect_end consumed a token">> >> ELSE <<>>)
            IN here \o Walk(e, k + 1, c.off)

\* raw(limit, textlen, iter, calls): a session on arbitrary bytes - no token structure to compare,
\* only the budget, the recursion bound and progress
RawComplaints(e) ==
  LET bads == {k \in DOMAIN e.calls :
                 LET c == e.calls[k] IN
                 \/ c.depth # e.limit \/ c.high > e.limit
                 \/ (e.iter /\ c.kind # "none" /\ c.boff1 <= c.boff0 /\ c.boff0 < e.textlen)}
  IN bads

\* shape(total, closed, expect, high, kinds): a pathological nesting shape run in a child process
ShapeOk(e) ==
  /\ e.high <= 128
  /\ (e.expect = "ok" => \A i \in DOMAIN e.kinds : e.kinds[i] = "ok")
  /\ (e.expect = "err" => \A i \in DOMAIN e.kinds : e.kinds[i] = "err")
  /\ (e.total > 128 => \A i \in DOMAIN e.kinds : e.kinds[i] = "err")

Init == l = 1
Next ==
  /\ l <= Len(Rec)
  /\ LET e == Rec[l] IN
     CASE e.ev = "session" ->
            LET w == Walk(e, 1, 0)
                lastc == IF Len(e.calls) = 0 THEN "none" ELSE e.calls[Len(e.calls)].kind
            IN /\ IF w # <<>> THEN Bad(w[1]) ELSE TRUE
               /\ IF e.iter /\ lastc # "none" THEN Bad("iteration did not terminate") ELSE TRUE
       [] e.ev = "raw" ->
            LET lastc == IF Len(e.calls) = 0 THEN "none" ELSE e.calls[Len(e.calls)].kind IN
            /\ IF RawComplaints(e) # {} THEN Bad(<<"budget / recursion / progress violated at call", CHOOSE k \in RawComplaints(e) : TRUE>>) ELSE TRUE
            /\ IF e.iter /\ lastc # "none" THEN Bad("iteration did not terminate") ELSE TRUE
       [] e.ev = "shape" -> IF ShapeOk(e) THEN TRUE ELSE Bad("nesting shape handled against the documented limit")
       [] OTHER -> Bad("unknown event")
  /\ l' = l + 1
Spec == Init /\ [][Next]_l
Accepted == IF TLCGet("stats").diameter - 1 = Len(Rec) THEN TRUE ELSE Bad("trace not consumed")
=============================================================================
