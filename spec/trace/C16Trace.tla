----------------------------- MODULE C16Trace -----------------------------
(***************************************************************************)
(* C16: the observed matrix.  One event per executed cell:                 *)
(*   cell(op, shape, builder, n, profile, outcome)                         *)
(* Every cell of the matrix of StackModel must have been executed for the  *)
(* list length of the run and must have survived on the 2 MiB stack.       *)
(***************************************************************************)
EXTENDS Naturals, Sequences, FiniteSets, TLC, Json, IOUtils

Rec == ndJsonDeserialize(IOEnv.TRACE)
VARIABLE l
Bad(what) == PrintT(<<"BAD", l, what>>)

M == INSTANCE StackModel WITH MaxN <- 1, MaxD <- 1, CdrRecursive <- {}, op <- "print", n <- 0, d <- 1, stack <- <<>>, high <- 0

Init == l = 1
Next ==
  /\ l <= Len(Rec)
  /\ LET e == Rec[l] IN
     /\ IF e.op \notin M!Ops \/ e.shape \notin M!Shapes \/ e.builder \notin M!Builders THEN Bad("cell outside the matrix") ELSE TRUE
     /\ IF e.outcome # "ok" THEN Bad(<<"operation did not survive on a fixed 2 MiB stack", e.op, e.shape, e.builder, e.n, e.profile>>) ELSE TRUE
  /\ l' = l + 1
Spec == Init /\ [][Next]_l

\* the whole matrix was covered
Covered == LET cells == {<<Rec[i].op, Rec[i].shape, Rec[i].builder>> : i \in DOMAIN Rec} IN
           Cardinality(cells) = Cardinality(M!Ops) * Cardinality(M!Shapes) * Cardinality(M!Builders)
Accepted == /\ (IF TLCGet("stats").diameter - 1 = Len(Rec) THEN TRUE ELSE Bad("trace not consumed"))
            /\ (IF Covered THEN TRUE ELSE Bad("matrix not covered"))
=============================================================================
