----------------------------- MODULE C09Trace -----------------------------
(***************************************************************************)
(* Trace validation for C09.  One event per compiled macro invocation:     *)
(*   prog(p, src, text, built, eq, mv, pr)                                 *)
(*     p      the program as a lexeme tree (spec/MacroModel.tla)           *)
(*     src    the Rust source of the macro argument that was compiled      *)
(*     text   the S-expression text handed to the default parser           *)
(*     built  FALSE if rustc rejected the invocation                       *)
(*     eq     the property's relation: sexp!(src) == from_slice(text)      *)
(*     mv pr  the macro's value and the parser's result                    *)
(* The binding is checked first: src and text must be Source(p) and        *)
(* Render(p).  A program that was compiled and has eq = TRUE is accepted.  *)
(* Otherwise the event is a violation - except at the recorded departure   *)
(* of the macro's token grammar (a lone - or : apart from the literal or   *)
(* name that follows it), recognised by FusionSites(p) together with       *)
(* mv = the value MacroRead(p) predicts for the grammar as built.          *)
(***************************************************************************)
EXTENDS Naturals, Integers, Sequences, FiniteSets, TLC, Json, IOUtils, RefRead

Rec == ndJsonDeserialize(IOEnv.TRACE)
VARIABLE l
Bad(what) == PrintT(<<"BAD", l, what>>)

M == INSTANCE MacroModel WITH MinusFusion <- TRUE, ColonFusion <- TRUE, FuseAnyLiteral <- FALSE, RawStringNames <- TRUE, DotAlways <- FALSE

SiteNames(p) == {s[1] : s \in M!FusionSites(p)}

Judge(e) ==
  LET p == e.p IN
  IF e.src # M!Source(p) THEN "binding: the compiled source is not Source(p)"
  ELSE IF e.text # M!Render(p) THEN "binding: the parsed text is not Render(p)"
  ELSE IF e.built /\ e.eq THEN "ok"
  ELSE LET pred == M!MacroRead(p)
           sites == SiteNames(p)
           ref == ReadOne(e.text, DefaultParse)
       IN IF sites # {} /\ e.built /\ e.mv = pred /\ e.pr.t = "ok" /\ e.pr.v = M!ValueOf(p)
            THEN (IF sites = {"minus"} THEN "finding: minus" ELSE IF sites = {"colon"} THEN "finding: colon" ELSE "finding: minus colon")
          ELSE IF ~e.built THEN "the macro invocation does not compile"
          ELSE IF e.mv.t # "ok" THEN "the macro's code panicked"
          ELSE IF e.pr.t # "ok" THEN "the parser rejects the equivalent text"
          ELSE IF ref.t = "ok" /\ ref.v = e.pr.v THEN "the macro's value differs from the parser's (the parser agrees with the reference reader)"
          ELSE "the macro's value differs from the parser's"

Init == l = 1
Next ==
  /\ l <= Len(Rec)
  /\ LET j == Judge(Rec[l]) IN IF j = "ok" THEN TRUE ELSE Bad(j)
  /\ l' = l + 1
Spec == Init /\ [][Next]_l
Accepted == IF TLCGet("stats").diameter - 1 = Len(Rec) THEN TRUE ELSE Bad("trace not consumed")
=============================================================================
