----------------------------- MODULE C13Trace -----------------------------
(***************************************************************************)
(* Trace validation for C13.  One event per text the implementation        *)
(* accepted:  fix(text, ro, po, v, t1, v2, t2, exact)  with                *)
(*   v = parse(text), t1 = print(v), v2 = parse(t1), t2 = print(v2)        *)
(* exact = v2 equals the folding of v bit for bit (floats included).       *)
(* The relation of the property is evaluated with the specification's      *)
(* Fold; in addition the reference reader must read the printed text t1    *)
(* as the folded value wherever the documentation determines its reading.  *)
(***************************************************************************)
EXTENDS Naturals, Integers, Sequences, TLC, Json, IOUtils, RefRead

Rec == ndJsonDeserialize(IOEnv.TRACE)
VARIABLES l, nUnspec
Bad(what) == PrintT(<<"BAD", l, what>>)

RECURSIVE NoFloat(_)
NoFloat(v) ==
  CASE v.k = "num" -> v.n.t = "int"
    [] v.k = "cons" -> NoFloat(v.car) /\ NoFloat(v.cdr)
    [] v.k = "vec" -> \A i \in DOMAIN v.e : NoFloat(v.e[i])
    [] OTHER -> TRUE

Init == l = 1 /\ nUnspec = 0
Next ==
  /\ l <= Len(Rec)
  /\ LET e == Rec[l]
         f == Fold(e.v, e.po, e.ro)
         r == ReadOne(e.t1, e.ro)
     IN /\ IF (e.exact \/ NoFloat(f)) /\ e.v2 # f
             THEN Bad("re-read value is not the documented folding of the first value") ELSE TRUE
        /\ IF e.exact /\ f = e.v /\ e.t2 # e.t1 THEN Bad("printing the re-read value gives a different text") ELSE TRUE
        /\ IF r.t = "ok" /\ NoFloat(f) /\ r.v # f
             THEN Bad("independent reader reads the printed text as something else") ELSE TRUE
        /\ IF r.t \in {"rej", "inc", "trailing"} \/ (r.t = "nonum" /\ f.k = "num")
             THEN Bad(<<"independent reader cannot read the printed text", r.t>>) ELSE TRUE
        /\ nUnspec' = nUnspec + (IF r.t = "unspec" THEN 1 ELSE 0)
  /\ l' = l + 1
Spec == Init /\ [][Next]_<<l, nUnspec>>
Done == l = Len(Rec) + 1 => PrintT(<<"NOTE", "unspecified", nUnspec>>)
Accepted == IF TLCGet("stats").diameter - 1 = Len(Rec) THEN TRUE ELSE Bad("trace not consumed")
=============================================================================
