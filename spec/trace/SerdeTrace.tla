----------------------------- MODULE SerdeTrace -----------------------------
(***************************************************************************)
(* Trace validation for C04 / C14 / C18.                                   *)
(*  ser(ti, x, v):  to_value of the Rust value x of family type ti gave v. *)
(*                  v must be the documented shape RefSer(T, x), and the   *)
(*                  documented reading of v must give x back.              *)
(*  de(ti, v, res): from_value::<T>(v) gave res = ok x | err cat | panic.  *)
(*                  Must agree with the type-directed reference RefDe      *)
(*                  wherever the documentation determines the answer; an   *)
(*                  error must be a data error; never a panic.             *)
(* Abstract values arrive as JSON: sets and maps as arrays; FromJson       *)
(* rebuilds the model's representation guided by the type.                 *)
(***************************************************************************)
EXTENDS Naturals, Integers, Sequences, FiniteSets, TLC, Json, IOUtils, SerdeModel

Rec == ndJsonDeserialize(IOEnv.TRACE)
VARIABLE l
Bad(what) == PrintT(<<"BAD", l, what>>)

RangeOfSeq(s) == {s[i] : i \in DOMAIN s}

RECURSIVE FromJson(_, _)
FromJson(T0, x) ==
  LET T == Resolve(T0) IN
  CASE T.c = "opt" -> IF x.a = "none" THEN x ELSE ASome(FromJson(T.t, x.x))
    [] T.c = "seq" -> ASeq([i \in DOMAIN x.xs |-> FromJson(T.t, x.xs[i])])
    [] T.c = "set" -> ASet({FromJson(T.t, x.xs[i]) : i \in DOMAIN x.xs})
    [] T.c \in {"tuple", "tstruct"} -> ASeq([i \in DOMAIN x.xs |-> FromJson(T.ts[i], x.xs[i])])
    [] T.c = "newtype" -> ANt(FromJson(T.t, x.x))
    [] T.c = "map" -> AMap({<<FromJson(T.kt, x.es[i][1]), FromJson(T.vt, x.es[i][2])>> : i \in DOMAIN x.es})
    [] T.c = "struct" -> ARec([i \in DOMAIN x.fs |-> FromJson(T.fs[i].t, x.fs[i])])
    [] T.c = "enum" ->
         LET vd == T.vs[x.i] IN
         AVar(x.i, CASE vd.kind = "unit" -> AUnit
                     [] vd.kind = "newtype" -> FromJson(vd.t, x.x)
                     [] vd.kind = "tuple" -> ASeq([j \in DOMAIN x.x.xs |-> FromJson(vd.ts[j], x.x.xs[j])])
                     [] OTHER -> ARec([j \in DOMAIN x.x.fs |-> FromJson(vd.fs[j].t, x.x.fs[j])]))
    [] OTHER -> x

JudgeSer(e) ==
  LET T == Family[e.ti + 1]
      x == FromJson(T, e.x)
  IN IF RefSer(T, x) # e.v THEN "serialization does not produce the documented shape"
     ELSE IF RefDe(T, e.v) # DOk(x) THEN "the documented reading of the serialized value is not the original value"
     ELSE "ok"

JudgeDe(e) ==
  LET T == Family[e.ti + 1]
      r == RefDe(T, e.v)
  IN IF e.res.r = "panic" THEN "deserialization panicked"
     ELSE IF e.res.r = "err" /\ e.res.cat # "data" THEN "deserialization error is not a data error"
     ELSE IF r.t = "ok" THEN
            (IF e.res.r # "ok" THEN "documented as accepted, rejected by the implementation"
             ELSE IF FromJson(T, e.res.x) # r.x THEN "accepted encoding read as a different value"
             ELSE "ok")
     ELSE IF r.t = "err" THEN (IF e.res.r = "err" THEN "ok" ELSE "documented as a data error, accepted by the implementation")
     ELSE \* undetermined: whatever was accepted must be normalised (serialise and read back as itself)
          IF e.res.r = "ok" /\ RefDe(T, RefSer(T, FromJson(T, e.res.x))) # DOk(FromJson(T, e.res.x))
            THEN "accepted value does not survive its own round trip" ELSE "ok"

Init == l = 1
Next ==
  /\ l <= Len(Rec)
  /\ LET e == Rec[l]
         j == IF e.ev = "ser" THEN JudgeSer(e) ELSE IF e.ev = "de" THEN JudgeDe(e) ELSE "unknown event"
     IN IF j = "ok" THEN TRUE ELSE Bad(j)
  /\ l' = l + 1
Spec == Init /\ [][Next]_l
Accepted == IF TLCGet("stats").diameter - 1 = Len(Rec) THEN TRUE ELSE Bad("trace not consumed")
=============================================================================
