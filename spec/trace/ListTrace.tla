----------------------------- MODULE ListTrace -----------------------------
(***************************************************************************)
(* Trace validation for C15.                                               *)
(*  iter(kind, v, calls): a call sequence on one of the three list         *)
(*     iterators of value v - the element iterator (next / peek /          *)
(*     is_empty), the cell iterator and the consuming iterator (next /     *)
(*     peek) - replayed through the iterator machines of ListOps.          *)
(*  long(n, dotted, ...): accessor results on a list of n elements whose   *)
(*     i-th element is the integer 3i+1, checked without materialising it. *)
(***************************************************************************)
EXTENDS Naturals, Integers, Sequences, TLC, Json, IOUtils, ListOps

Rec == ndJsonDeserialize(IOEnv.TRACE)
VARIABLE l
Bad(what) == PrintT(<<"BAD", l, what>>)

\* element iterator
RECURSIVE WalkListIter(_, _, _, _)
WalkListIter(v, calls, k, st) ==
  IF k > Len(calls) THEN <<>>
  ELSE LET c == calls[k] IN
       IF c.op = "next" THEN
            LET r == LINext(v, st) IN
            (IF c.out # r[1] THEN << <<k, "next yields something else than the iterator machine", c.out, r[1]>> >> ELSE <<>>)
            \o WalkListIter(v, calls, k + 1, r[2])
       ELSE IF c.op = "peek" THEN
            (IF c.out # LIPeek(v, st) THEN << <<k, "peek differs from the iterator machine", c.out>> >> ELSE <<>>)
            \o WalkListIter(v, calls, k + 1, st)
       ELSE (IF c.out # LIIsEmpty(st) THEN << <<k, "is_empty differs from the iterator machine", c.out>> >> ELSE <<>>)
            \o WalkListIter(v, calls, k + 1, st)

\* cell iterator / consuming iterator: the cursor is the index of the next cell (0 = finished)
CellAt(v, i) == LET xs == Cars(v) IN
  IF i = 0 \/ i > Len(xs) THEN None
  ELSE [car |-> xs[i], cdr |-> ListWithTail(SubSeq(xs, i + 1, Len(xs)), TailOf(v))]
IntoItemAt(v, i) == LET xs == Cars(v) IN
  IF i = 0 \/ i > Len(xs) THEN None
  ELSE [car |-> xs[i], rest |-> IF i = Len(xs) THEN TailOf(v) ELSE None]

RECURSIVE WalkCells(_, _, _, _, _)
WalkCells(v, calls, k, i, into) ==
  IF k > Len(calls) THEN <<>>
  ELSE LET c == calls[k]
           n == Len(Cars(v))
           cur == IF i > n THEN 0 ELSE i
       IN IF c.op = "next" THEN
               (IF c.out # (IF into THEN IntoItemAt(v, cur) ELSE CellAt(v, cur))
                  THEN << <<k, "next yields something else than the cell sequence of the list model", c.out>> >> ELSE <<>>)
               \o WalkCells(v, calls, k + 1, IF cur = 0 THEN 0 ELSE cur + 1, into)
          ELSE (IF c.out # CellAt(v, cur) THEN << <<k, "peek differs from the cell at the cursor", c.out>> >> ELSE <<>>)
               \o WalkCells(v, calls, k + 1, cur, into)

F(i) == IntV(FALSE, OfNat(3 * i + 1))

LongComplaints(e) ==
  (IF \E p \in 1..Len(e.probes) :
        LET i == e.probes[p].i got == e.probes[p].got IN
        got # (IF i >= 0 /\ i < e.n THEN F(i) ELSE None)
     THEN << "positional index differs from the element function" >> ELSE <<>>)
  \o (IF e.veclen # e.n THEN << "vector conversion has the wrong length" >> ELSE <<>>)
  \o (IF e.cells # e.n THEN << "cell iteration visits the wrong number of cells" >> ELSE <<>>)
  \o (IF e.yieldcount # e.n + (IF e.dotted /\ e.n > 0 THEN 1 ELSE 0) THEN << "element iterator yields the wrong number of items" >> ELSE <<>>)
  \o (IF e.proper # (~e.dotted \/ e.n = 0) \/ e.isdotted # ~e.proper \/ e.tovec_some # e.proper
        THEN << "proper/dotted predicates or Value::to_vec disagree with the shape" >> ELSE <<>>)

Init == l = 1
Next ==
  /\ l <= Len(Rec)
  /\ LET e == Rec[l] IN
     CASE e.ev = "iter" ->
            LET w == IF e.kind = "list_iter" THEN WalkListIter(e.v, e.calls, 1, LIInit(e.v))
                     ELSE WalkCells(e.v, e.calls, 1, 1, e.kind = "into_iter")
            IN IF w # <<>> THEN Bad(w[1]) ELSE TRUE
       [] e.ev = "long" -> LET c == LongComplaints(e) IN IF c # <<>> THEN Bad(c[1]) ELSE TRUE
       [] OTHER -> Bad("unknown event")
  /\ l' = l + 1
Spec == Init /\ [][Next]_l
Accepted == IF TLCGet("stats").diameter - 1 = Len(Rec) THEN TRUE ELSE Bad("trace not consumed")
=============================================================================
