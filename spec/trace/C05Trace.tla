----------------------------- MODULE C05Trace -----------------------------
(***************************************************************************)
(* Trace validation for C05.                                               *)
(*  lit(text, res, ach, fast): the implementation's reading of a numeric   *)
(*      literal; ach is the accuracy the harness measured against the      *)
(*      exact value ("exact" = the correctly rounded double, "w50" =       *)
(*      within relative error 2^-50, "bad", "na" = not a float).  TLC      *)
(*      recomputes the denotation and the required class from the text.    *)
(*  printed-num(text, n): the text the printer emitted for number n: it    *)
(*      must be a literal of the grammar denoting n.                       *)
(***************************************************************************)
EXTENDS Naturals, Integers, Sequences, TLC, Json, IOUtils, NumLit

Rec == ndJsonDeserialize(IOEnv.TRACE)
VARIABLE l
Bad(what) == PrintT(<<"BAD", l, what>>)

IsRadixLit(t) == Len(t) >= 2 /\ t[1] = HASH /\ t[2] \in {98, 111, 100, 120}
RadixOf(t) == CASE t[2] = 98 -> 2 [] t[2] = 111 -> 8 [] t[2] = 100 -> 10 [] OTHER -> 16

\* [ok |-> is a literal of the grammar, den |-> denotation]
Denote(t) ==
  IF IsRadixLit(t) THEN [ok |-> RadixShape(Rest(t, 3), RadixOf(t)).ok, den |-> DenoteRadix(Rest(t, 3), RadixOf(t))]
  ELSE [ok |-> IsDecimalLiteral(t), den |-> DenoteDecimal(t)]

JudgeLit(e) ==
  LET dn == Denote(e.text) d == dn.den IN
  IF ~dn.ok THEN "harness produced a non-literal"
  ELSE CASE d.t = "int" ->
              IF e.res.r = "ok" /\ e.res.n = [t |-> "int", neg |-> d.neg, d |-> d.d] THEN "ok"
              ELSE "integer literal not read as exactly that integer"
         [] d.t = "big" ->
              IF e.res.r = "ok" /\ e.res.n.t = "flt" /\ e.ach \in {"exact", "w50"} THEN "ok"
              ELSE "out-of-range integer literal not read as a float approximating it"
         [] d.t = "flt" ->
              IF e.res.r # "ok" \/ e.res.n.t # "flt" THEN "decimal literal not read as a float"
              ELSE IF e.ach \notin {"exact", "w50"} THEN "float further than 2^-50 from the true value"
              ELSE IF ClassOfDecimal(e.text, e.fast) = "exact" /\ e.ach # "exact" THEN "literal not correctly rounded where the documentation promises it"
              ELSE IF d.d = Zero /\ e.res.n.neg # d.neg THEN "sign of zero lost"
              \* independent of the harness's accuracy measurement: a literal of at most 15 significant digits in the
              \* normal range is the shortest decimal form of its own (correctly rounded) double
              ELSE IF e.ach = "exact" /\ d.d # Zero /\ DigitComparable([t |-> "flt", d |-> d.d, e |-> d.e])
                      /\ e.res.n # [t |-> "flt", neg |-> d.neg, d |-> d.d, e |-> d.e]
                   THEN "the float read is reported as correctly rounded but its shortest digits are not the literal's"
              ELSE "ok"
         [] d.t = "range" -> IF e.res.r = "err" THEN "ok" ELSE "magnitude beyond the largest double accepted"
         [] OTHER -> "ok"

JudgePrinted(e) ==
  LET dn == Denote(e.text) d == dn.den IN
  IF ~dn.ok THEN "printed number is not a literal of the grammar"
  ELSE IF e.n.t = "int" THEN (IF d = e.n THEN "ok" ELSE "printed integer denotes a different number")
  \* the text denotes the number - up to the last digit two shortest-digit algorithms may disagree on (NumLit!FloatAgrees);
  \* that it reads back as the very same double is checked bit for bit by the harness
  ELSE IF d.t = "flt" /\ FloatAgrees([t |-> "flt", neg |-> d.neg, d |-> d.d, e |-> d.e], e.n) THEN "ok"
  ELSE "printed float does not denote the number"

Init == l = 1
Next ==
  /\ l <= Len(Rec)
  /\ LET e == Rec[l]
         j == IF e.ev = "lit" THEN JudgeLit(e) ELSE IF e.ev = "printed-num" THEN JudgePrinted(e) ELSE "unknown event"
     IN IF j = "ok" THEN TRUE ELSE Bad(j)
  /\ l' = l + 1
Spec == Init /\ [][Next]_l
Accepted == IF TLCGet("stats").diameter - 1 = Len(Rec) THEN TRUE ELSE Bad("trace not consumed")
=============================================================================
