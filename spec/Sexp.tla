-------------------------------- MODULE Sexp --------------------------------
(***************************************************************************)
(* The value universe of lexpr (11 kinds), the option records of parser    *)
(* and printer, and the documented dialect folding (C02).                  *)
(*                                                                         *)
(* A value is a record tagged by k:                                        *)
(*   nil | null | bool(b) | num(n) | char(c) | str(s) | sym(s) | kw(s)     *)
(*   | bytes(b) | cons(car, cdr) | vec(e)                                  *)
(* names and strings are sequences of code points, bytes sequences of      *)
(* byte values, numbers records                                            *)
(*   [t |-> "int", neg, d]        exact integer, d decimal digits          *)
(*   [t |-> "flt", neg, d, e]     the decimal d * 10^e (d without trailing *)
(*                                zeros; zero is d = <<0>>, e = 0)         *)
(* The same shapes are used in JSON between TLC and the harness.           *)
(***************************************************************************)
EXTENDS Naturals, Sequences, BigNat

Nil == [k |-> "nil"]
Null == [k |-> "null"]
Bool(b) == [k |-> "bool", b |-> b]
Num(n) == [k |-> "num", n |-> n]
Char(c) == [k |-> "char", c |-> c]
Str(s) == [k |-> "str", s |-> s]
Sym(s) == [k |-> "sym", s |-> s]
Kw(s) == [k |-> "kw", s |-> s]
Bytes(b) == [k |-> "bytes", bv |-> b]
Cons(a, d) == [k |-> "cons", car |-> a, cdr |-> d]
Vec(es) == [k |-> "vec", e |-> es]

IntV(neg, d) == Num([t |-> "int", neg |-> neg, d |-> d])
FltV(neg, d, e) == Num([t |-> "flt", neg |-> neg, d |-> d, e |-> e])
NatV(n) == IntV(FALSE, OfNat(n))

\* the list (xs . tail)
RECURSIVE ListWithTail(_, _)
ListWithTail(xs, tail) == IF xs = <<>> THEN tail ELSE Cons(Head(xs), ListWithTail(Tail(xs), tail))
List(xs) == ListWithTail(xs, Null)

\* ------------------------------------------------------------------ option records
\* parser: kw = <<octothorpe, colon-prefix, colon-postfix>> enabled flags
ParseOptionSets ==
  [kw : [1..3 -> BOOLEAN], nil : {"sym", "null", "special"}, t : {"sym", "true"},
   br : {"list", "vec"}, str : {"r6rs", "elisp"}, chr : {"r6rs", "elisp"},
   racket : BOOLEAN, digits : BOOLEAN]

PrintOptionSets ==
  [kw : {"octo", "prefix", "postfix"}, nil : {"sym", "token", "null", "false"},
   bool : {"token", "sym"}, vec : {"octo", "br"}, bytes : {"r6rs", "r7rs", "elisp"},
   str : {"r6rs", "elisp"}, chr : {"r6rs", "elisp"}]

DefaultParse == [kw |-> <<TRUE, FALSE, FALSE>>, nil |-> "sym", t |-> "sym", br |-> "list",
                 str |-> "r6rs", chr |-> "r6rs", racket |-> FALSE, digits |-> FALSE]
ElispParse   == [kw |-> <<FALSE, TRUE, FALSE>>, nil |-> "null", t |-> "sym", br |-> "vec",
                 str |-> "elisp", chr |-> "elisp", racket |-> FALSE, digits |-> TRUE]
DefaultPrint == [kw |-> "octo", nil |-> "token", bool |-> "token", vec |-> "octo",
                 bytes |-> "r7rs", str |-> "r6rs", chr |-> "r6rs"]
ElispPrint   == [kw |-> "prefix", nil |-> "sym", bool |-> "sym", vec |-> "br",
                 bytes |-> "elisp", str |-> "elisp", chr |-> "elisp"]

KwIndex(k) == CASE k = "octo" -> 1 [] k = "prefix" -> 2 [] OTHER -> 3

(***************************************************************************)
(* Compatible(po, ro): the parser option set recognises what the printer   *)
(* emits (C02): its keyword spelling is enabled, brackets mean vectors if  *)
(* the printer writes vectors with brackets, same string and character     *)
(* syntax, and a unibyte-string rendering of byte vectors is only readable *)
(* with Emacs string syntax.                                               *)
(***************************************************************************)
Compatible(po, ro) ==
  /\ ro.kw[KwIndex(po.kw)]
  /\ (po.vec = "br" => ro.br = "vec")
  /\ po.str = ro.str
  /\ po.chr = ro.chr
  /\ (po.bytes = "elisp" => ro.str = "elisp")

(***************************************************************************)
(* The documented dialect folding: what value v reads back as when printed *)
(* with po and parsed with a compatible ro.                                *)
(***************************************************************************)
NilTokenReadsAs(ro) ==      \* the token nil under ro
  CASE ro.nil = "sym" -> Sym(<<110, 105, 108>>)
    [] ro.nil = "null" -> Null
    [] OTHER -> Nil
TTokenReadsAs(ro) == IF ro.t = "sym" THEN Sym(<<116>>) ELSE Bool(TRUE)

FoldBool(b, po, ro) ==
  IF po.bool = "token" THEN Bool(b)
  ELSE IF b THEN TTokenReadsAs(ro) ELSE NilTokenReadsAs(ro)

RECURSIVE Fold(_, _, _)
Fold(v, po, ro) ==
  CASE v.k = "nil" ->
         (CASE po.nil = "sym" -> NilTokenReadsAs(ro)
            [] po.nil = "token" -> Nil
            [] po.nil = "null" -> Null
            [] OTHER -> FoldBool(FALSE, po, ro))
    [] v.k = "bool" -> FoldBool(v.b, po, ro)
    [] v.k = "bytes" -> IF po.bytes = "elisp" /\ v.bv = <<>> THEN Str(<<>>) ELSE v
    [] v.k = "cons" -> Cons(Fold(v.car, po, ro), Fold(v.cdr, po, ro))
    [] v.k = "vec" -> Vec([i \in DOMAIN v.e |-> Fold(v.e[i], po, ro)])
    [] OTHER -> v

\* the names nil / t must not be used as symbols where the dialect gives them a meaning (C02)
RECURSIVE Kinds(_)
Kinds(v) ==
  CASE v.k = "cons" -> {"cons"} \cup Kinds(v.car) \cup Kinds(v.cdr)
    [] v.k = "vec" -> {"vec"} \cup UNION {Kinds(v.e[i]) : i \in DOMAIN v.e}
    [] OTHER -> {v.k}
=============================================================================
