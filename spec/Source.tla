------------------------------- MODULE Source -------------------------------
(***************************************************************************)
(* Byte sources of the parser (C06, and the root of C11's "same spans from *)
(* every source"):                                                         *)
(*   - the slice cursor (SliceRead / StrRead): an index into the bytes;    *)
(*   - IoRead: a one-byte look-ahead slot `ch` in front of a line/column   *)
(*     counting iterator over io::Bytes, which asks the underlying         *)
(*     io::Read for one byte per call and retries Interrupted.             *)
(* The environment (the io::Read) answers each read call with the next     *)
(* byte, Interrupted, or a hard error (from offset `faultAt` on).          *)
(* Parser-facing actions are the methods of the Read trait.  Both machines *)
(* run side by side on the same bytes and must give the same answers       *)
(* (refinement of one abstract cursor).                                    *)
(***************************************************************************)
EXTENDS Naturals, Integers, Sequences, Text

CONSTANTS Data,       \* set of byte sequences to read
          MaxIntr,    \* bound on consecutive Interrupted answers
          PositionBeforePeek   \* TRUE (intended): position() is the one in front of a peeked byte;
                               \* FALSE (as found): the iterator's position, which is past it

VARIABLES data,       \* the bytes
          faultAt,    \* reads of the byte at offset faultAt (0-based) and beyond fail; Len+1 = never
          \* IoRead
          handed,     \* bytes the iterator has taken from the io::Read
          ch,         \* look-ahead slot: a byte or NoByte
          chLine, chCol,   \* position in front of the peeked byte
          line, col,  \* LineColIterator: position after the last byte taken
          failed,     \* the io::Read has reported the hard error to the parser
          intr,       \* consecutive Interrupted answers so far
          \* slice cursor
          idx,        \* index of the next byte
          \* last call, for the invariants
          last

vars == <<data, faultAt, handed, ch, chLine, chCol, line, col, failed, intr, idx, last>>

NoByte == 256

Init ==
  /\ data \in Data
  /\ faultAt \in 0..(Len(data) + 1)
  /\ handed = 0 /\ ch = NoByte /\ chLine = 1 /\ chCol = 0 /\ line = 1 /\ col = 0
  /\ failed = FALSE /\ intr = 0 /\ idx = 0
  /\ last = [op |-> "-", io |-> NoByte, sl |-> NoByte]

\* the abstract cursor both machines implement: number of bytes consumed by the parser
Cursor == handed - (IF ch = NoByte THEN 0 ELSE 1)

(***************************************************************************)
(* One fetch from the iterator: the environment may first interrupt (the   *)
(* iterator retries - a stuttering step for the parser), then delivers the *)
(* byte, fails, or reports the end.  Result: [k |-> "byte"|"eof"|"err", b] *)
(***************************************************************************)
Interrupt == /\ intr < MaxIntr /\ intr' = intr + 1
             /\ UNCHANGED <<data, faultAt, handed, ch, chLine, chCol, line, col, failed, idx, last>>

Fetch ==
  IF handed >= faultAt /\ handed <= Len(data) /\ faultAt <= Len(data) THEN [k |-> "err", b |-> NoByte]
  ELSE IF handed >= Len(data) THEN [k |-> "eof", b |-> NoByte]
  ELSE [k |-> "byte", b |-> data[handed + 1]]

\* effect of taking byte b on the line/column counters
Advance(b) ==
  /\ handed' = handed + 1
  /\ IF b = LF THEN line' = line + 1 /\ col' = 0 ELSE line' = line /\ col' = col + 1

SliceNext == IF idx < Len(data) THEN data[idx + 1] ELSE NoByte

\* Read::next
Next_ ==
  /\ ~failed
  /\ intr' = 0
  /\ IF ch # NoByte THEN
        /\ last' = [op |-> "next", io |-> ch, sl |-> SliceNext]
        /\ ch' = NoByte /\ UNCHANGED <<handed, line, col, chLine, chCol, failed>>
     ELSE LET f == Fetch IN
        /\ last' = [op |-> "next", io |-> IF f.k = "byte" THEN f.b ELSE IF f.k = "err" THEN 257 ELSE NoByte, sl |-> SliceNext]
        /\ IF f.k = "byte" THEN Advance(f.b) ELSE UNCHANGED <<handed, line, col>>
        /\ failed' = (f.k = "err")
        /\ UNCHANGED <<ch, chLine, chCol>>
  /\ idx' = IF idx < Len(data) THEN idx + 1 ELSE idx
  /\ UNCHANGED <<data, faultAt>>

\* Read::peek
Peek ==
  /\ ~failed
  /\ intr' = 0
  /\ IF ch # NoByte THEN
        /\ last' = [op |-> "peek", io |-> ch, sl |-> SliceNext]
        /\ UNCHANGED <<ch, handed, line, col, chLine, chCol, failed>>
     ELSE LET f == Fetch IN
        /\ last' = [op |-> "peek", io |-> IF f.k = "byte" THEN f.b ELSE IF f.k = "err" THEN 257 ELSE NoByte, sl |-> SliceNext]
        /\ IF f.k = "byte"
             THEN Advance(f.b) /\ ch' = f.b /\ chLine' = line /\ chCol' = col
             ELSE UNCHANGED <<handed, line, col, ch, chLine, chCol>>
        /\ failed' = (f.k = "err")
  /\ UNCHANGED <<data, faultAt, idx>>

\* Read::discard (only valid after a peek that returned a byte)
Discard ==
  /\ ~failed /\ last.op = "peek" /\ last.io < 256
  /\ ch' = NoByte /\ idx' = idx + 1
  /\ last' = [op |-> "discard", io |-> NoByte, sl |-> NoByte]
  /\ UNCHANGED <<data, faultAt, handed, chLine, chCol, line, col, failed, intr>>

Step == Next_ \/ Peek \/ Discard \/ Interrupt
Spec == Init /\ [][Step]_vars

(***************************************************************************)
(* Observations of the two machines.                                       *)
(***************************************************************************)
IoByteOffset == Cursor
IoPosition == IF ch # NoByte /\ PositionBeforePeek THEN [line |-> chLine, col |-> chCol] ELSE [line |-> line, col |-> col]
SlicePosition == PosOf(data, idx)

(***************************************************************************)
(* Invariants.                                                             *)
(***************************************************************************)
\* as long as the io::Read has not failed, both machines have consumed the same bytes ...
SameCursor == ~failed => Cursor = idx
\* ... return the same byte (or end of input) from every call that did not hit the fault ...
SameByte == (last.op \in {"next", "peek"} /\ last.io # 257) => last.io = last.sl
\* ... and report the same position
SamePosition == ~failed => IoPosition = SlicePosition
\* no byte is delivered twice or skipped: what has been taken is a prefix of the data
NoSkip == handed <= Len(data) /\ (ch # NoByte => ch = data[handed])
\* an error is only ever reported when the read at the fault offset was really attempted
FaultOnlyWhenReached == failed => (faultAt <= Len(data) /\ handed = faultAt)
\* and a fault is never turned into end of input: a call that reached the fault offset reports it
FaultSurfaces == (last.op \in {"next", "peek"} /\ last.io = NoByte /\ ~failed) => handed = Len(data)
=============================================================================
