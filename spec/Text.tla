-------------------------------- MODULE Text --------------------------------
(***************************************************************************)
(* Bytes, byte classes, UTF-8 and line/column arithmetic.                  *)
(*                                                                         *)
(* Text is a sequence of byte values 0..255.  TLA+ has no character        *)
(* literals, so the ASCII bytes the grammar mentions are named here.       *)
(***************************************************************************)
EXTENDS Naturals, Sequences

\* ------------------------------------------------------------------ ASCII
TAB == 9      LF == 10     VT == 11     FF == 12     CR == 13     ESC == 27
SP == 32      BANG == 33   DQ == 34     HASH == 35   DOLLAR == 36 PCT == 37
AMP == 38     SQ == 39     LP == 40     RP == 41     STAR == 42   PLUS == 43
COMMA == 44   MINUS == 45  DOT == 46    SLASH == 47  COLON == 58  SEMI == 59
LT == 60      EQ == 61     GT == 62     QM == 63     AT == 64     LB == 91
BSL == 92     RB == 93     CARET == 94  USC == 95    BQ == 96     LC == 123
PIPE == 124   RC == 125    TILDE == 126 DEL == 127

IsDigit(b)    == b >= 48 /\ b <= 57
IsUpper(b)    == b >= 65 /\ b <= 90
IsLower(b)    == b >= 97 /\ b <= 122
IsLetter(b)   == IsUpper(b) \/ IsLower(b)
IsOctDigit(b) == b >= 48 /\ b <= 55
IsHexDigit(b) == IsDigit(b) \/ (b >= 65 /\ b <= 70) \/ (b >= 97 /\ b <= 102)
HexVal(b)     == IF IsDigit(b) THEN b - 48 ELSE IF b >= 97 THEN b - 87 ELSE b - 55
DigitVal(b)   == b - 48
Lower(b)      == IF IsUpper(b) THEN b + 32 ELSE b

\* whitespace the documentation calls trivia; ';' starts a line comment
IsTrivia(b) == b \in {SP, TAB, CR, LF, FF}
\* bytes that end a bare token (besides end of input): the R7RS delimiters and the brackets
IsTokEnd(b) == IsTrivia(b) \/ b \in {LP, RP, LB, RB, SEMI, DQ, PIPE}

\* ------------------------------------------------------------------ small sequence helpers
LastOf(s) == s[Len(s)]
FrontOf(s) == SubSeq(s, 1, Len(s) - 1)
StartsWith(s, p) == Len(s) >= Len(p) /\ SubSeq(s, 1, Len(p)) = p
IsProperPrefix(p, s) == Len(p) < Len(s) /\ SubSeq(s, 1, Len(p)) = p
RangeOf(s) == {s[i] : i \in DOMAIN s}
AllOf(s, P(_)) == \A i \in DOMAIN s : P(s[i])
Rest(s, i) == SubSeq(s, i, Len(s))        \* s from position i on

RECURSIVE Flatten(_)
Flatten(ss) == IF ss = <<>> THEN <<>> ELSE Head(ss) \o Flatten(Tail(ss))

\* ------------------------------------------------------------------ UTF-8 (RFC 3629)
\* number of bytes of the sequence introduced by lead byte b; 0 = not a lead byte
Utf8Len(b) ==
  IF b < 128 THEN 1
  ELSE IF b >= 194 /\ b <= 223 THEN 2
  ELSE IF b >= 224 /\ b <= 239 THEN 3
  ELSE IF b >= 240 /\ b <= 244 THEN 4
  ELSE 0

IsCont(b) == b >= 128 /\ b <= 191

\* is bs[i..] the start of one well-formed sequence of the length its lead byte announces
WellFormedAt(bs, i) ==
  LET b == bs[i] n == Utf8Len(b) IN
  /\ n > 0
  /\ i + n - 1 <= Len(bs)
  /\ \A k \in 1..(n - 1) : IsCont(bs[i + k])
  /\ (b = 224 => bs[i + 1] >= 160)          \* no overlong 3-byte forms
  /\ (b = 237 => bs[i + 1] <= 159)          \* no surrogates
  /\ (b = 240 => bs[i + 1] >= 144)          \* no overlong 4-byte forms
  /\ (b = 244 => bs[i + 1] <= 143)          \* not above U+10FFFF

RECURSIVE Utf8OkFrom(_, _)
Utf8OkFrom(bs, i) ==
  IF i > Len(bs) THEN TRUE
  ELSE WellFormedAt(bs, i) /\ Utf8OkFrom(bs, i + Utf8Len(bs[i]))

Utf8Ok(bs) == Utf8OkFrom(bs, 1)

\* bs[i..] is well-formed except that it ends inside a (so far well-formed) multi-byte sequence
RECURSIVE Utf8CutFrom(_, _)
Utf8CutFrom(bs, i) ==
  IF i > Len(bs) THEN FALSE
  ELSE LET b == bs[i] n == Utf8Len(b) IN
       IF n = 0 THEN FALSE
       ELSE IF i + n - 1 <= Len(bs) THEN WellFormedAt(bs, i) /\ Utf8CutFrom(bs, i + n)
       ELSE /\ \A k \in (i + 1)..Len(bs) : IsCont(bs[k])
            /\ (i + 1 <= Len(bs) =>
                  /\ (b = 224 => bs[i + 1] >= 160) /\ (b = 237 => bs[i + 1] <= 159)
                  /\ (b = 240 => bs[i + 1] >= 144) /\ (b = 244 => bs[i + 1] <= 143))

\* code point of the well-formed sequence at bs[i]
CpAt(bs, i) ==
  LET b == bs[i] n == Utf8Len(b) IN
  CASE n = 1 -> b
    [] n = 2 -> (b - 192) * 64 + (bs[i + 1] - 128)
    [] n = 3 -> (b - 224) * 4096 + (bs[i + 1] - 128) * 64 + (bs[i + 2] - 128)
    [] OTHER -> (b - 240) * 262144 + (bs[i + 1] - 128) * 4096 + (bs[i + 2] - 128) * 64 + (bs[i + 3] - 128)

RECURSIVE DecodeFrom(_, _)
DecodeFrom(bs, i) ==
  IF i > Len(bs) THEN <<>> ELSE <<CpAt(bs, i)>> \o DecodeFrom(bs, i + Utf8Len(bs[i]))

\* bytes -> code points; only for Utf8Ok(bs)
Decode(bs) == DecodeFrom(bs, 1)

IsScalar(cp) == cp <= 1114111 /\ ~(cp >= 55296 /\ cp <= 57343)

EncodeCp(cp) ==
  IF cp < 128 THEN <<cp>>
  ELSE IF cp < 2048 THEN <<192 + (cp \div 64), 128 + (cp % 64)>>
  ELSE IF cp < 65536 THEN <<224 + (cp \div 4096), 128 + ((cp \div 64) % 64), 128 + (cp % 64)>>
  ELSE <<240 + (cp \div 262144), 128 + ((cp \div 4096) % 64), 128 + ((cp \div 64) % 64), 128 + (cp % 64)>>

RECURSIVE Encode(_)
Encode(cps) == IF cps = <<>> THEN <<>> ELSE EncodeCp(Head(cps)) \o Encode(Tail(cps))

(***************************************************************************)
(* Non-ASCII code points.  TLA+ has no Unicode tables; a fixed table of    *)
(* representatives is shared with the harness generators (gen.rs).         *)
(***************************************************************************)
NonAsciiAlpha == {233, 955, 1078, 20013, 119964}      \* e-acute, lambda, zhe, zhong, U+1D49C
\* not alphabetic but allowed as R7RS <subsequent>: arrow (Sm), euro (Sc), combining acute (Mn),
\* arabic-indic digit three (Nd), grinning face (So)
NonAsciiSubseq == {8594, 8364, 769, 1635, 128512}

\* ------------------------------------------------------------------ lines and columns
\* 1-based line / 0-based byte column of byte offset off (0..Len): the position *before* byte off+1
RECURSIVE PosFrom(_, _, _, _, _)
PosFrom(bs, i, off, line, col) ==
  IF i > off THEN [line |-> line, col |-> col]
  ELSE IF bs[i] = LF THEN PosFrom(bs, i + 1, off, line + 1, 0)
  ELSE PosFrom(bs, i + 1, off, line, col + 1)

PosOf(bs, off) == PosFrom(bs, 1, off, 1, 0)

NumLF(bs) == Len(SelectSeq(bs, LAMBDA b : b = LF))
\* number of lines: a final line without LF counts, as does the empty line after a final LF
NumLines(bs) == NumLF(bs) + 1

\* length in bytes (without LF) of 1-based line ln; 0 for lines beyond the last
RECURSIVE LineLenFrom(_, _, _, _)
LineLenFrom(bs, i, ln, acc) ==
  IF i > Len(bs) THEN (IF ln = 1 THEN acc ELSE 0)
  ELSE IF bs[i] = LF THEN (IF ln = 1 THEN acc ELSE LineLenFrom(bs, i + 1, ln - 1, 0))
  ELSE LineLenFrom(bs, i + 1, ln, IF ln = 1 THEN acc + 1 ELSE 0)

LineLen(bs, ln) == LineLenFrom(bs, 1, ln, 0)

\* offset of a (line, col) position; Len(bs)+1 (out of range marker) if it does not exist
RECURSIVE OffsetFrom(_, _, _, _)
OffsetFrom(bs, i, line, col) ==
  IF line = 1 THEN (IF i - 1 + col <= Len(bs) THEN i - 1 + col ELSE Len(bs) + 1)
  ELSE IF i > Len(bs) THEN Len(bs) + 1
  ELSE IF bs[i] = LF THEN OffsetFrom(bs, i + 1, line - 1, col)
  ELSE OffsetFrom(bs, i + 1, line, col)

OffsetOf(bs, line, col) == OffsetFrom(bs, 1, line, col)
=============================================================================
