------------------------------ MODULE StackModel ------------------------------
(***************************************************************************)
(* C16: stack use of the list-walking operations.  A native stack is not a *)
(* TLA+ state; what is modelled is the recursion structure of a traversal: *)
(* an operation walks a list of n elements, each nested d levels deep, with *)
(* an explicit stack; it ITERATES along the cdr chain and RECURSES into the *)
(* car - unless it is in CdrRecursive, the set of operations that (as      *)
(* found in the pinned implementation: the derived Clone / PartialEq of    *)
(* Cons, the nested span information of datums) recurse along the cdr as   *)
(* well.  Property: the deepest stack is bounded by the nesting depth,     *)
(* independently of n.  The model also yields the operation x shape x      *)
(* builder matrix that is executed in child processes.                     *)
(***************************************************************************)
EXTENDS Naturals, Sequences, FiniteSets

CONSTANTS MaxN, MaxD, CdrRecursive

Ops == {"parse_value", "parse_datum", "print", "display", "cons_to_vec", "cons_to_ref_vec", "cons_into_vec", "value_to_vec",
        "list_iter", "cell_iter", "into_iter", "index_last", "index_str", "is_list", "is_dotted_list", "clone", "eq", "drop",
        "datum_clone", "datum_eq", "datum_drop", "datum_walk", "serde_to_value", "serde_from_value",
        \* the other ways Serde walks a list: skipping it (unknown field, IgnoredAny), as a map, through the text entry points
        "parse_dotted_chain", "eq_differing", "drop_in_unwind", "serde_from_ignored_field", "serde_ignored_any", "serde_from_map", "serde_to_value_map", "serde_from_str", "serde_to_string",
        \* a specialised Clone::clone_from; a long list as the offending value of a Serde type mismatch (the error describes it)
        "clone_from", "serde_type_mismatch"}
Shapes == {"proper", "dotted"}
Builders == {"parser", "constructors", "serde"}

VARIABLES op, n, d,      \* the operation and the list: n elements, nesting d
          stack,         \* explicit stack: frames <<remaining elements at this level, level>>
          high           \* deepest stack seen

vars == <<op, n, d, stack, high>>

Init == /\ op \in Ops /\ n \in 0..MaxN /\ d \in 1..MaxD
        /\ stack = << <<n, d>> >> /\ high = 1

Max(a, b) == IF a > b THEN a ELSE b

\* one step of the traversal
Step ==
  /\ stack # <<>>
  /\ LET top == stack[Len(stack)]
         rest == SubSeq(stack, 1, Len(stack) - 1)
     IN IF top[1] = 0 THEN stack' = rest                                     \* level finished: return
        ELSE IF top[2] > 1 THEN                                              \* the car is a nested list: recurse into it,
             \* then continue with the cdr - in the same frame (iteration) or in a new one (recursion)
             stack' = (IF op \in CdrRecursive THEN rest \o << <<0, top[2]>>, <<top[1] - 1, top[2]>>, <<1, top[2] - 1>> >>
                                              ELSE rest \o << <<top[1] - 1, top[2]>>, <<1, top[2] - 1>> >>)
        ELSE stack' = (IF op \in CdrRecursive THEN rest \o << <<0, top[2]>>, <<top[1] - 1, top[2]>> >>
                                             ELSE rest \o << <<top[1] - 1, top[2]>> >>)
  /\ high' = Max(high, Len(stack'))
  /\ UNCHANGED <<op, n, d>>

Spec == Init /\ [][Step]_vars

\* stack depth is bounded by the nesting depth, whatever the number of elements
StackIndependentOfLength == high <= 2 * d + 1
=============================================================================
