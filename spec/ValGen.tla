------------------------------- MODULE ValGen -------------------------------
(***************************************************************************)
(* Bounded universes of values for the model-checking modules: atoms of    *)
(* every kind from the corpus tables, and lists / dotted lists / vectors   *)
(* nested to depth 2 over a representative subset.                         *)
(***************************************************************************)
EXTENDS Naturals, Integers, Sequences, FiniteSets, BigNat, Sexp, Corpus

Specials == {Nil, Null, Bool(TRUE), Bool(FALSE)}

IntCorpus ==
  {IntV(FALSE, Zero), IntV(FALSE, One), IntV(TRUE, One), IntV(FALSE, <<2, 5, 5>>), IntV(FALSE, <<1, 2, 3, 4, 5>>),
   IntV(FALSE, I64Max), IntV(FALSE, I64MaxPlus1), IntV(FALSE, U64Max), IntV(TRUE, I64MaxPlus1), IntV(TRUE, I64Max)}

\* doubles by their shortest decimal form d * 10^e
FloatCorpus ==
  {FltV(FALSE, <<1, 5>>, -1), FltV(TRUE, Zero, 0), FltV(FALSE, Zero, 0), FltV(FALSE, <<1>>, -1),
   FltV(FALSE, <<1>>, 21), FltV(FALSE, <<1>>, 22), FltV(FALSE, <<5>>, -324),
   FltV(FALSE, <<1, 7, 9, 7, 6, 9, 3, 1, 3, 4, 8, 6, 2, 3, 1, 5, 7>>, 292),
   FltV(FALSE, <<1, 2, 3, 4, 5, 6, 7, 8, 9, 0, 1, 2, 3, 4, 5, 6, 8>>, 1),
   FltV(FALSE, <<1>>, -7), FltV(TRUE, <<2, 5>>, -1), FltV(FALSE, <<1, 2, 3, 4, 5, 6, 7, 8, 9>>, -3),
   FltV(FALSE, <<1>>, 16), FltV(FALSE, <<1>>, 15), FltV(FALSE, <<1>>, -5), FltV(FALSE, <<1>>, -6)}

Chars == {Char(c) : c \in CharTable}
SeqsUpTo(S, n) == UNION {[1..k -> S] : k \in 0..n}
Strs == {Str(s) : s \in SeqsUpTo(StrAlphabet, 2)}
ByteVs == {Bytes(b) : b \in ByteVecCorpus}

Atoms(ids) == Specials \cup IntCorpus \cup FloatCorpus \cup Chars \cup Strs \cup ByteVs
              \cup {Sym(s) : s \in ids} \cup {Kw(s) : s \in ids}

\* representatives used inside composite values
Rep ==
  {Nil, Null, Bool(TRUE), IntV(TRUE, One), FltV(FALSE, <<1, 5>>, -1), Char(40), Char(955), Char(32),
   Str(<<34, 955>>), Str(<<>>), Sym(<<43>>), Sym(<<46, 46, 46>>), Sym(<<97>>), Sym(<<955>>), Sym(<<45>>),
   Kw(<<97>>), Bytes(<<0, 127, 128>>), Bytes(<<>>)}

RepSmall == {Null, IntV(TRUE, One), Char(40), Str(<<34, 955>>), Sym(<<43>>), Sym(<<97>>), Kw(<<97>>), Bytes(<<1>>)}

NonEmptySeqs(S, n) == UNION {[1..k -> S] : k \in 1..n}

Level1(W) ==
  {List(xs) : xs \in SeqsUpTo(Rep, W)} \cup {Vec(xs) : xs \in SeqsUpTo(Rep, W)}
  \cup {ListWithTail(xs, t) : xs \in NonEmptySeqs(RepSmall, W - 1), t \in (RepSmall \ {Null}) \cup {Vec(<<Sym(<<97>>)>>)}}

\* hand-picked composites that go one level deeper
Rep2 ==
  {List(<<Sym(<<97>>), IntV(FALSE, One)>>), Vec(<<>>), Vec(<<Sym(<<43>>)>>), Vec(<<Sym(<<97>>), Sym(<<45>>)>>),
   ListWithTail(<<Sym(<<97>>)>>, Sym(<<98>>)), List(<<Vec(<<Char(40)>>)>>),
   Vec(<<ListWithTail(<<IntV(FALSE, One)>>, IntV(FALSE, <<2>>))>>), Null, Sym(<<46, 46, 46>>), Str(<<92>>),
   Bytes(<<255>>), Char(41), Nil, Kw(<<955>>)}

Level2 ==
  {List(xs) : xs \in NonEmptySeqs(Rep2, 2)} \cup {Vec(xs) : xs \in NonEmptySeqs(Rep2, 2)}
  \cup {ListWithTail(xs, t) : xs \in NonEmptySeqs(Rep2, 2), t \in {Vec(<<Sym(<<43>>)>>), Sym(<<45>>), IntV(TRUE, One), Str(<<>>)}}

Universe(ids, W) == Atoms(ids) \cup Level1(W) \cup Level2

(***************************************************************************)
(* Probe values for the dialect pairings of C02: every kind, names that    *)
(* are plain under every option set, and the shapes that interact with the *)
(* option dimensions (sign symbols before a closing bracket, dotted pairs  *)
(* inside vectors, vectors as tails, empty / non-empty byte vectors,       *)
(* strings mixing controls and non-ASCII text, every character class).     *)
(***************************************************************************)
ProbeNames == {<<97>>, <<43>>, <<45>>, <<46, 46, 46>>, <<955>>, <<102, 111, 111, 45, 98, 97, 114>>, <<97, 49>>,
               <<60, 61>>, <<97, 46, 98>>, <<233, 97>>, <<101>>, <<110, 105, 108, 120>>} \cap PortableIdents

ProbeC02 ==
  Specials
  \cup {IntV(FALSE, Zero), IntV(TRUE, One), IntV(FALSE, U64Max), IntV(TRUE, I64MaxPlus1)}
  \cup {FltV(FALSE, <<1, 5>>, -1), FltV(TRUE, Zero, 0), FltV(FALSE, <<1>>, 21), FltV(FALSE, <<5>>, -324)}
  \cup Chars
  \cup {Str(<<>>), Str(<<97>>), Str(<<34, 92>>), Str(<<7, 10, 955>>), Str(<<0, 127, 233, 128512>>), Str(<<27, 9, 13, 8>>),
        Str(<<955, 1, 955>>), Str(<<92, 120, 52, 49>>), Str(<<35, 59, 40>>)}
  \cup {Sym(s) : s \in ProbeNames} \cup {Kw(s) : s \in ProbeNames}
  \cup ByteVs
  \cup {Vec(<<>>), Vec(<<Sym(<<97>>), Sym(<<43>>)>>), Vec(<<Sym(<<97>>), Sym(<<45>>)>>), Vec(<<Sym(<<46, 46, 46>>)>>),
        Vec(<<ListWithTail(<<Sym(<<97>>)>>, Sym(<<98>>))>>), ListWithTail(<<Sym(<<97>>)>>, Vec(<<IntV(FALSE, One)>>)),
        List(<<Sym(<<97>>), Sym(<<43>>)>>), List(<<Nil, Bool(FALSE), Bool(TRUE), Null>>),
        ListWithTail(<<IntV(FALSE, One), IntV(FALSE, <<2>>)>>, IntV(FALSE, <<3>>)),
        ListWithTail(<<Kw(<<97>>)>>, Kw(<<98>>)), Vec(<<Bytes(<<>>), Bytes(<<1, 255>>), Char(955), Str(<<>>)>>),
        List(<<List(<<Sym(<<97>>)>>), Vec(<<Vec(<<>>)>>), Null>>), List(<<Char(41), Char(93), Char(59), Char(32)>>),
        Vec(<<Kw(<<43>>), Sym(<<45>>)>>), ListWithTail(<<Nil>>, Nil), ListWithTail(<<Bool(TRUE)>>, Bool(FALSE))}
=============================================================================
