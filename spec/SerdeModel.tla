----------------------------- MODULE SerdeModel -----------------------------
(***************************************************************************)
(* The Serde integration (C04, C14, C18): the documented S-expression      *)
(* shape of every Rust value of a type built from the Serde data model     *)
(* (RefSer), and the documented, type-directed reading of S-expression     *)
(* values back into Rust values (RefDe).                                   *)
(*                                                                         *)
(* Types are descriptors (SerdeTypes.tla, generated from gen/types.py).    *)
(* Rust values are abstract records tagged by a:                           *)
(*   bool(b) int(neg,d) flt(neg,d,e) char(c) str(s) bytes(bv) unit         *)
(*   none  some(x)  seq(xs) - sequences, tuples, tuple structs -            *)
(*   set(xs) - a set of integers, as a TLA+ set -  nt(x) newtype struct     *)
(*   map(es) - a set of <<key, value>> pairs -  rec(fs) - struct, fields in *)
(*   declaration order -  var(i, x) - variant number i with payload x       *)
(***************************************************************************)
EXTENDS Naturals, Integers, Sequences, FiniteSets, TLC, BigNat, Sexp, SerdeTypes

ABool(b) == [a |-> "bool", b |-> b]
AInt(neg, d) == [a |-> "int", neg |-> neg, d |-> d]
AFlt(neg, d, e) == [a |-> "flt", neg |-> neg, d |-> d, e |-> e]
AChar(c) == [a |-> "char", c |-> c]
AStr(s) == [a |-> "str", s |-> s]
ABytes(b) == [a |-> "bytes", bv |-> b]
AUnit == [a |-> "unit"]
ANone == [a |-> "none"]
ASome(x) == [a |-> "some", x |-> x]
ASeq(xs) == [a |-> "seq", xs |-> xs]
ASet(S) == [a |-> "set", xs |-> S]
ANt(x) == [a |-> "nt", x |-> x]
AMap(es) == [a |-> "map", es |-> es]
ARec(fs) == [a |-> "rec", fs |-> fs]
AVar(i, x) == [a |-> "var", i |-> i, x |-> x]

Resolve(T) == IF T.c = "ref" THEN TypeDef(T.name) ELSE T

\* number of cars of a (possibly improper) chain
RECURSIVE CarsOf(_)
CarsOf(v) == IF v.k = "cons" THEN <<v.car>> \o CarsOf(v.cdr) ELSE <<>>

\* ------------------------------------------------------------------ integer widths
MinMag(w) ==   \* magnitude of the minimum
  CASE w = "i8" -> <<1, 2, 8>> [] w = "i16" -> <<3, 2, 7, 6, 8>> [] w = "i32" -> <<2, 1, 4, 7, 4, 8, 3, 6, 4, 8>>
    [] w = "i64" -> I64MaxPlus1 [] OTHER -> Zero
MaxMag(w) ==
  CASE w = "i8" -> <<1, 2, 7>> [] w = "i16" -> <<3, 2, 7, 6, 7>> [] w = "i32" -> <<2, 1, 4, 7, 4, 8, 3, 6, 4, 7>> [] w = "i64" -> I64Max
    [] w = "u8" -> <<2, 5, 5>> [] w = "u16" -> <<6, 5, 5, 3, 5>> [] w = "u32" -> <<4, 2, 9, 4, 9, 6, 7, 2, 9, 5>> [] OTHER -> U64Max
InWidth(neg, d, w) == IF neg THEN Leq(d, MinMag(w)) ELSE Leq(d, MaxMag(w))

(***************************************************************************)
(* Sets and maps of the family are BTreeSet / BTreeMap: they serialise     *)
(* their entries in ascending key order (integers numerically, characters  *)
(* by code point, strings lexicographically by code point).                *)
(***************************************************************************)
RECURSIVE SeqLess(_, _)
SeqLess(a, b) ==
  IF b = <<>> THEN FALSE ELSE IF a = <<>> THEN TRUE
  ELSE IF Head(a) # Head(b) THEN Head(a) < Head(b) ELSE SeqLess(Tail(a), Tail(b))

KeyLess(a, b) ==
  CASE a.a = "int" ->
         (IF a.neg /\ ~b.neg THEN TRUE ELSE IF ~a.neg /\ b.neg THEN FALSE
          ELSE IF a.neg THEN Cmp(a.d, b.d) > 0 ELSE Cmp(a.d, b.d) < 0)
    [] a.a = "char" -> a.c < b.c
    [] a.a = "str" -> SeqLess(a.s, b.s)
    [] OTHER -> FALSE

RECURSIVE AsSeq(_)
AsSeq(S) == IF S = {} THEN <<>> ELSE LET e == CHOOSE e \in S : TRUE IN <<e>> \o AsSeq(S \ {e})
Sorted(S) == SortSeq(AsSeq(S), KeyLess)

(***************************************************************************)
(* RefSer: the documented shapes (crate documentation of serde-lexpr).     *)
(***************************************************************************)
RECURSIVE RefSer(_, _), SerFields(_, _, _)

\* association list of (name . value) cells for struct fields i..
SerFields(fs, xs, i) ==
  IF i > Len(fs) THEN <<>>
  ELSE <<Cons(Sym(fs[i].name), RefSer(fs[i].t, xs[i]))>> \o SerFields(fs, xs, i + 1)

RefSer(T0, x) ==
  LET T == Resolve(T0) IN
  CASE T.c = "bool" -> Bool(x.b)
    [] T.c = "int" -> IntV(x.neg, x.d)                        \* every integer as the integer of the same value
    [] T.c \in {"f32", "f64"} -> FltV(x.neg, x.d, x.e)
    [] T.c = "char" -> Char(x.c)
    [] T.c = "str" -> Str(x.s)
    [] T.c = "bytes" -> Bytes(x.bv)
    [] T.c \in {"unit", "ustruct"} -> Null
    [] T.c = "opt" -> IF x.a = "none" THEN Null ELSE List(<<RefSer(T.t, x.x)>>)
    [] T.c = "seq" -> List([i \in DOMAIN x.xs |-> RefSer(T.t, x.xs[i])])
    [] T.c = "tuple" \/ T.c = "tstruct" -> Vec([i \in DOMAIN x.xs |-> RefSer(T.ts[i], x.xs[i])])
    [] T.c = "newtype" -> RefSer(T.t, x.x)
    [] T.c = "struct" -> List(SerFields(T.fs, x.fs, 1))
    [] T.c = "enum" ->
         LET v == T.vs[x.i] IN
         (CASE v.kind = "unit" -> Sym(v.name)
            [] v.kind = "newtype" -> Cons(Sym(v.name), RefSer(v.t, x.x))
            [] v.kind = "tuple" -> Cons(Sym(v.name), List([i \in DOMAIN x.x.xs |-> RefSer(v.ts[i], x.x.xs[i])]))
            [] OTHER -> Cons(Sym(v.name), List(SerFields(v.fs, x.x.fs, 1))))
    [] T.c = "set" -> LET es == Sorted(x.xs) IN List([i \in DOMAIN es |-> RefSer(T.t, es[i])])
    [] OTHER ->       \* map: an association list of (key . value) cells
         LET ks == Sorted({e[1] : e \in x.es}) IN
         List([i \in DOMAIN ks |-> Cons(RefSer(T.kt, ks[i]), RefSer(T.vt, (CHOOSE e \in x.es : e[1] = ks[i])[2]))])

(***************************************************************************)
(* RefDe: [t |-> "ok", x] | [t |-> "err"] (a data error) | [t |-> "unspec"] *)
(***************************************************************************)
DOk(x) == [t |-> "ok", x |-> x]
DErr == [t |-> "err"]
DUnspec == [t |-> "unspec"]

\* is v a proper list (the empty list included)
RECURSIVE IsProperV(_)
IsProperV(v) == v.k = "null" \/ (v.k = "cons" /\ IsProperV(v.cdr))
\* the elements of a proper list
ProperElems(v) == CarsOf(v)

AllOk(rs) == \A i \in DOMAIN rs : rs[i].t = "ok"
AnyErr(rs) == \E i \in DOMAIN rs : rs[i].t = "err"
Combine(rs, mk(_)) == IF AllOk(rs) THEN DOk(mk([i \in DOMAIN rs |-> rs[i].x])) ELSE IF AnyErr(rs) THEN DErr ELSE DUnspec

RECURSIVE RefDe(_, _), DeFields(_, _)

\* a struct / struct variant from an association list: exactly the declared fields, in any order
DeFields(fs, v) ==
  LET es == ProperElems(v) IN
  IF ~IsProperV(v) THEN DErr
  ELSE IF \E i \in DOMAIN es : es[i].k # "cons" THEN DErr
  ELSE IF \E i \in DOMAIN es : es[i].car.k # "sym" THEN DErr                  \* field names are symbols
  ELSE LET names == [i \in DOMAIN es |-> es[i].car.s]
           declared == {fs[j].name : j \in DOMAIN fs}
       IN IF \E i, j \in DOMAIN es : i # j /\ names[i] = names[j] /\ names[i] \in declared THEN DErr     \* duplicate field
          ELSE IF \E i \in DOMAIN es : names[i] \notin declared THEN DUnspec                              \* unknown fields
          ELSE IF \E j \in DOMAIN fs : ~\E i \in DOMAIN es : names[i] = fs[j].name THEN
                 \* a missing field: an error, except that serde fills in None for Option fields
                 (IF \E j \in DOMAIN fs : (~\E i \in DOMAIN es : names[i] = fs[j].name) /\ Resolve(fs[j].t).c # "opt" THEN DErr ELSE DUnspec)
          ELSE Combine([j \in DOMAIN fs |-> RefDe(fs[j].t, es[CHOOSE i \in DOMAIN es : names[i] = fs[j].name].cdr)], ARec)

RefDe(T0, v) ==
  LET T == Resolve(T0) IN
  CASE T.c = "bool" -> IF v.k = "bool" THEN DOk(ABool(v.b)) ELSE DErr
    [] T.c = "int" ->
         IF v.k = "num" /\ v.n.t = "int" THEN (IF InWidth(v.n.neg, v.n.d, T.w) THEN DOk(AInt(v.n.neg, v.n.d)) ELSE DErr)
         ELSE DErr
    [] T.c \in {"f32", "f64"} ->
         IF v.k # "num" THEN DErr
         \* (an f32 rounds; the floats of the model are exactly representable in an f32)
         ELSE IF v.n.t = "flt" THEN DOk(AFlt(v.n.neg, v.n.d, v.n.e))
         ELSE DUnspec                                                                                  \* an integer converts
    [] T.c = "char" -> IF v.k = "char" THEN DOk(AChar(v.c)) ELSE DErr
    [] T.c = "str" -> IF v.k = "str" THEN DOk(AStr(v.s)) ELSE DErr
    [] T.c = "bytes" -> IF v.k = "bytes" THEN DOk(ABytes(v.bv)) ELSE DErr
    [] T.c \in {"unit", "ustruct"} -> IF v.k \in {"null", "nil"} THEN DOk(AUnit) ELSE DErr
    [] T.c = "opt" ->
         IF v.k = "null" THEN DOk(ANone)
         ELSE IF v.k = "cons" /\ v.cdr.k = "null" THEN
              LET r == RefDe(T.t, v.car) IN IF r.t = "ok" THEN DOk(ASome(r.x)) ELSE r
         ELSE DErr
    [] T.c \in {"seq", "set"} ->
         \* a proper list, or additionally a vector; improper lists and other kinds are data errors
         LET es == IF v.k = "vec" THEN v.e ELSE ProperElems(v) IN
         IF v.k \notin {"null", "cons", "vec"} \/ (v.k = "cons" /\ ~IsProperV(v)) THEN DErr
         ELSE IF T.c = "seq" THEN Combine([i \in DOMAIN es |-> RefDe(T.t, es[i])], ASeq)
         ELSE LET rs == [i \in DOMAIN es |-> RefDe(T.t, es[i])] IN
              IF AllOk(rs) THEN DOk(ASet({rs[i].x : i \in DOMAIN rs})) ELSE IF AnyErr(rs) THEN DErr ELSE DUnspec
    [] T.c \in {"tuple", "tstruct"} ->
         \* a vector, or additionally a proper list, of exactly the arity
         LET es == IF v.k = "vec" THEN v.e ELSE ProperElems(v) IN
         IF v.k \notin {"cons", "vec"} THEN DErr
         ELSE IF v.k = "cons" /\ ~IsProperV(v) THEN (IF Len(CarsOf(v)) <= Len(T.ts) THEN DErr ELSE DUnspec)
         ELSE IF Len(es) < Len(T.ts) THEN DErr
         ELSE IF Len(es) > Len(T.ts) THEN DUnspec             \* surplus elements: the documentation is silent
         ELSE Combine([i \in DOMAIN es |-> RefDe(T.ts[i], es[i])], ASeq)
    [] T.c = "newtype" -> LET r == RefDe(T.t, v) IN IF r.t = "ok" THEN DOk(ANt(r.x)) ELSE r
    [] T.c = "map" ->
         LET es == ProperElems(v) IN
         IF v.k \notin {"null", "cons"} \/ ~IsProperV(v) THEN DErr
         ELSE IF \E i \in DOMAIN es : es[i].k # "cons" THEN DErr
         ELSE LET ks == [i \in DOMAIN es |-> RefDe(T.kt, es[i].car)]
                  vs == [i \in DOMAIN es |-> RefDe(T.vt, es[i].cdr)]
              IN IF AllOk(ks) /\ AllOk(vs) THEN
                      \* a later entry replaces an earlier one with the same key
                      DOk(AMap({<<ks[i].x, vs[i].x>> : i \in {j \in DOMAIN es : ~\E m \in DOMAIN es : m > j /\ ks[m].x = ks[j].x}}))
                 ELSE IF AnyErr(ks) \/ AnyErr(vs) THEN DErr ELSE DUnspec
    [] T.c = "struct" -> DeFields(T.fs, v)
    [] T.c = "enum" ->
         IF v.k = "sym" THEN
              LET hit == {i \in DOMAIN T.vs : T.vs[i].name = v.s} IN
              IF hit = {} THEN DErr
              ELSE LET i == CHOOSE i \in hit : TRUE IN IF T.vs[i].kind = "unit" THEN DOk(AVar(i, AUnit)) ELSE DErr
         ELSE IF v.k = "cons" /\ v.car.k = "sym" THEN
              LET hit == {i \in DOMAIN T.vs : T.vs[i].name = v.car.s} IN
              IF hit = {} THEN DErr
              ELSE LET i == CHOOSE i \in hit : TRUE
                       vd == T.vs[i]
                   IN CASE vd.kind = "unit" -> DUnspec          \* (name . anything) for a unit variant
                        [] vd.kind = "newtype" -> LET r == RefDe(vd.t, v.cdr) IN IF r.t = "ok" THEN DOk(AVar(i, r.x)) ELSE r
                        [] vd.kind = "tuple" ->
                             LET es == IF v.cdr.k = "vec" THEN v.cdr.e ELSE ProperElems(v.cdr) IN
                             IF v.cdr.k \notin {"null", "cons", "vec"} THEN DErr
                             ELSE IF v.cdr.k = "cons" /\ ~IsProperV(v.cdr) THEN (IF Len(CarsOf(v.cdr)) <= Len(vd.ts) THEN DErr ELSE DUnspec)
                             ELSE IF Len(es) < Len(vd.ts) THEN DErr
                             ELSE IF Len(es) > Len(vd.ts) THEN DUnspec
                             ELSE LET r == Combine([j \in DOMAIN es |-> RefDe(vd.ts[j], es[j])], ASeq) IN
                                  IF r.t = "ok" THEN DOk(AVar(i, r.x)) ELSE r
                        [] OTHER -> LET r == DeFields(vd.fs, v.cdr) IN IF r.t = "ok" THEN DOk(AVar(i, r.x)) ELSE r
         ELSE DErr
    [] OTHER -> DUnspec

=============================================================================
