SPECIFICATION Spec
CONSTANT MaxSteps = 4
INVARIANTS NoHiddenState Emit
PROPERTIES FinishedStaysFinished
