SPECIFICATION Spec
CONSTANT MaxSteps = 3
INVARIANTS NoHiddenState Emit
PROPERTIES FinishedStaysFinished
