-------------------------------- MODULE X02 --------------------------------
(***************************************************************************)
(* The Formatter protocol on the specification: for every value of the     *)
(* bounded universe (spec/ValGen.tla) the callback sequence is accepted by *)
(* the protocol's stack machine, string fragments are maximal, and         *)
(* rendering the events with the default formatter's texts gives exactly   *)
(* the documented printer's text (refinement of RefPrint).  The values are *)
(* emitted for replay through a logging formatter.                         *)
(***************************************************************************)
EXTENDS Naturals, Sequences, FiniteSets, Formatter, ValGen, Json, TLC

CONSTANT W

VARIABLES v
Values == Universe(IdentCorpus, W)
Init == v \in Values
Next == UNCHANGED v
Spec == Init /\ [][Next]_v

ProtocolAccepted == WellFormed(Events(v))
Maximal == FragmentsMaximal(Events(v))
RefinesRefPrint == RenderAll(Events(v)) = PrintDatum(v, DefaultPrint)
Emit == PrintT(<<"REPLAY", ToJson([v |-> v])>>)
=============================================================================
