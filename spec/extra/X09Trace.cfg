SPECIFICATION Spec
CONSTANT UnwrapNestedIo = TRUE
POSTCONDITION Accepted
CHECK_DEADLOCK FALSE
