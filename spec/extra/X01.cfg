SPECIFICATION Spec
CONSTANTS
  MaxSteps = 2
  MaxPath = 3
INVARIANTS ChainWellFormed Complementary Emit
PROPERTIES FrameStep SnapshotsAreFrozen
