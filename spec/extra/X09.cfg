SPECIFICATION Spec
CONSTANT MaxSteps = 4
CONSTANT UnwrapNestedIo = TRUE
INVARIANTS NoPanic KindFollowsCategory NeverWrapsIo IoRoundTrip CategoryByOrigin LocationIffCode Emit
PROPERTIES DisplayStable
