-------------------------------- MODULE X05 --------------------------------
(***************************************************************************)
(* The option builders as a machine: a constructor followed by up to       *)
(* MaxCalls builder calls.  Checked on the specification: the result is an *)
(* option set of the documented space (TypeOK), a builder changes only its *)
(* own dimension (Frame), repeating a call changes nothing (Idempotent),   *)
(* every option set is reachable from each constructor (the builders span  *)
(* the space; checked by counting distinct records).  The behaviours are   *)
(* emitted for replay; for printer options, with the documented text of a  *)
(* probe set under the resulting options.                                  *)
(***************************************************************************)
EXTENDS Naturals, Sequences, FiniteSets, OptionsAlgebra, RefPrint, Json, TLC

CONSTANT MaxCalls

VARIABLES side, calls, opts
vars == <<side, calls, opts>>

Init == \/ /\ side = "parse" /\ \E c \in {Call("default", "-"), Call("new", "-"), Call("elisp", "-")} : calls = <<c>> /\ opts = ApplyParse(DefaultParse, c)
        \/ /\ side = "print" /\ \E c \in {Call("default", "-"), Call("elisp", "-")} : calls = <<c>> /\ opts = ApplyPrint(DefaultPrint, c)

Next ==
  /\ Len(calls) <= MaxCalls
  /\ IF side = "parse"
       THEN \E c \in {x \in ParseCalls : ~IsCtor(x)} : calls' = Append(calls, c) /\ opts' = ApplyParse(opts, c)
       ELSE \E c \in {x \in PrintCalls : ~IsCtor(x)} : calls' = Append(calls, c) /\ opts' = ApplyPrint(opts, c)
  /\ side' = side

Spec == Init /\ [][Next]_vars

TypeOK == IF side = "parse" THEN opts \in ParseOptionSets ELSE opts \in PrintOptionSets

Dim(c) == IF c.m \in {"kw", "kws"} THEN "kw" ELSE c.m
FieldsP == {"kw", "nil", "t", "br", "str", "chr", "racket", "digits"}
FieldsQ == {"kw", "nil", "bool", "vec", "bytes", "str", "chr"}
Get(o, f) ==
  CASE f = "kw" -> o.kw [] f = "nil" -> o.nil [] f = "t" -> o.t [] f = "br" -> o.br [] f = "str" -> o.str [] f = "chr" -> o.chr
    [] f = "racket" -> o.racket [] f = "digits" -> o.digits [] f = "bool" -> o.bool [] f = "vec" -> o.vec [] OTHER -> o.bytes

\* a builder call changes nothing but its own dimension
Frame ==
  [][\A f \in (IF side = "parse" THEN FieldsP ELSE FieldsQ) :
       f # Dim(calls'[Len(calls')]) => Get(opts', f) = Get(opts, f)]_vars

\* repeating the last call changes nothing
Idempotent ==
  Len(calls) >= 2 =>
    LET c == calls[Len(calls)] IN
    (IF side = "parse" THEN ApplyParse(opts, c) ELSE ApplyPrint(opts, c)) = opts

\* the probe values whose text depends on every printer dimension
Probes == <<
  Nil, Bool(TRUE), Bool(FALSE), Kw(<<107>>), Vec(<<Sym(<<97>>), Nil>>), Vec(<<>>), Bytes(<<0, 65, 255>>), Bytes(<<>>),
  Str(<<34, 92, 7, 10, 27, 955, 127>>), Char(97), Char(40), Char(10), Char(955), Char(32),
  List(<<Kw(<<107>>), Bool(FALSE), Vec(<<Bytes(<<1>>)>>), Str(<<0>>)>>), ListWithTail(<<Sym(<<97>>)>>, Nil) >>

Emit ==
  PrintT(<<"REPLAY", ToJson([side |-> side, calls |-> calls, opts |-> opts,
                              probes |-> IF Len(calls) = 1 THEN Probes ELSE <<>>,
                              texts |-> IF side = "print" THEN [i \in DOMAIN Probes |-> PrintDatum(Probes[i], opts)] ELSE <<>>])>>)
=============================================================================
