-------------------------------- MODULE X07 --------------------------------
(***************************************************************************)
(* Beyond the listed properties: the consuming iterator of a cons chain    *)
(* (cons::IntoIter) as a machine, including mutation of the part not yet   *)
(* consumed through peek_mut.                                              *)
(*   rem    the chain still to be consumed (a cons cell) or Done           *)
(*   Next   yields (car, tail) where tail is given only by the last cell   *)
(*          (None = the chain goes on); after the last cell: Done, and     *)
(*          every further Next yields nothing                              *)
(*   SetCar(v) SetCdr(v)   through peek_mut(): change the current cell;    *)
(*          SetCdr may cut the chain short, extend it, or make it dotted   *)
(* Checked on the specification: whatever is done through peek_mut, the    *)
(* items yielded from a state on are exactly those of a fresh iterator     *)
(* over the current remainder (the iterator holds no other state), and a   *)
(* finished iterator stays finished.  Behaviours are emitted for replay.   *)
(***************************************************************************)
EXTENDS Naturals, Sequences, FiniteSets, Sexp, ListOps, Json, TLC

CONSTANT MaxSteps

Done == [k |-> "done"]
NoneV == [k |-> "-"]

VARIABLES start, rem, hist
vars == <<start, rem, hist>>

A(n) == NatV(n)
Roots == { List(<<A(1), A(2), A(3)>>), ListWithTail(<<A(1), A(2)>>, Sym(<<116>>)), List(<<A(1)>>), Cons(A(1), A(2)),
           List(<<List(<<A(1)>>), Vec(<<A(2)>>)>>) }
Pool == { A(0), Null, List(<<A(8), A(9)>>), Sym(<<120>>), Cons(A(7), Sym(<<121>>)) }

\* what Next yields in state r, and the state after it
Yield(r) ==
  IF r = Done THEN [item |-> NoneV, tail |-> NoneV, has |-> FALSE]
  ELSE [item |-> r.car, tail |-> IF r.cdr.k = "cons" THEN NoneV ELSE r.cdr, has |-> TRUE]
After(r) == IF r = Done THEN Done ELSE IF r.cdr.k = "cons" THEN r.cdr ELSE Done

Step(r, act) ==
  CASE act.op = "next" -> After(r)
    [] act.op = "setcar" -> Cons(act.v, r.cdr)
    [] act.op = "setcdr" -> Cons(r.car, act.v)
    [] OTHER -> r

Actions(r) ==
  {[op |-> "next", v |-> Null]}
  \cup (IF r = Done THEN {} ELSE {[op |-> "setcar", v |-> v] : v \in Pool} \cup {[op |-> "setcdr", v |-> v] : v \in Pool})

Init == rem \in Roots /\ start = rem /\ hist = <<>>
Next ==
  /\ Len(hist) < MaxSteps
  /\ \E act \in Actions(rem) :
       /\ rem' = Step(rem, act)
       /\ start' = start
       /\ hist' = Append(hist, [act |-> act, yield |-> IF act.op = "next" THEN Yield(rem) ELSE Yield(Done),
                                peek |-> IF Step(rem, act) = Done THEN NoneV ELSE Step(rem, act)])
Spec == Init /\ [][Next]_vars

\* everything a fresh iterator over r yields when driven to the end: <<cars, final tail>>
RECURSIVE Drain(_)
Drain(r) == IF r = Done THEN <<>> ELSE <<Yield(r)>> \o Drain(After(r))

\* the iterator has no state besides the remainder: draining from here gives the elements and the tail of the remainder
NoHiddenState ==
  rem # Done =>
    LET d == Drain(rem) IN
    /\ [i \in DOMAIN d |-> d[i].item] = Cars(rem)
    /\ d[Len(d)].tail = TailOf(rem)
    /\ \A i \in 1..(Len(d) - 1) : d[i].tail = NoneV
FinishedStaysFinished == [][rem = Done => rem' = Done]_vars

Emit ==
  Len(hist) = MaxSteps => PrintT(<<"REPLAY", ToJson([init |-> start, steps |-> hist])>>)
=============================================================================
