SPECIFICATION Spec
CONSTANT W = 2
INVARIANTS ProtocolAccepted Maximal RefinesRefPrint Emit
