SPECIFICATION Spec
CONSTANTS
  MaxSteps = 3
  MaxPath = 3
INVARIANTS ChainWellFormed Complementary Emit
PROPERTIES FrameStep SnapshotsAreFrozen
