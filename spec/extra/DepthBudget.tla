---------------------------- MODULE DepthBudget ----------------------------
(***************************************************************************)
(* The nesting budget of a parser session as a small-step counter machine, *)
(* for an unbounded argument (Apalache, inductive invariant) that          *)
(* complements the bounded exploration of spec/Session.tla by TLC:         *)
(* for EVERY limit L and EVERY nesting depth, the budget never reaches 0   *)
(* (no u8 underflow), the recursion never exceeds L - 1 frames, and the    *)
(* budget is L again whenever no frame is open - also on every error path. *)
(*                                                                         *)
(*   frames  open next_value activations that charged the budget           *)
(*           (lists, vectors, quote shorthands)                            *)
(*   budget  Parser::remaining_depth                                       *)
(*   mode    "run" (parsing) | "unwind" (an error is propagating outwards) *)
(*                                                                         *)
(* Refund = FALSE is the pinned implementation (the charge made just       *)
(* before the limit error was never returned): Apalache then refutes       *)
(* Balanced.                                                               *)
(***************************************************************************)
EXTENDS Integers

CONSTANTS
  \* @type: Int;
  L,
  \* @type: Bool;
  Refund

VARIABLES
  \* @type: Int;
  frames,
  \* @type: Int;
  budget,
  \* @type: Str;
  mode

ConstInit == L \in 1..255 /\ Refund = TRUE
ConstInitAsFound == L \in 1..255 /\ Refund = FALSE

Init == frames = 0 /\ budget = L /\ mode = "run"

\* "(" "[" "#(" or a quote shorthand with budget to spare
Open == mode = "run" /\ budget > 1 /\ budget' = budget - 1 /\ frames' = frames + 1 /\ mode' = "run"
\* the same at the limit: the charge is made, the limit error raised, and (Refund) the charge returned
OpenAtLimit ==
  /\ mode = "run" /\ budget = 1
  /\ budget' = IF Refund THEN budget ELSE budget - 1
  /\ frames' = frames /\ mode' = "unwind"
\* the matching close: the frame returns normally and gives its charge back
Close == mode = "run" /\ frames > 0 /\ frames' = frames - 1 /\ budget' = budget + 1 /\ mode' = "run"
\* any other failure inside a frame (or at top level)
Fail == mode = "run" /\ mode' = "unwind" /\ UNCHANGED <<frames, budget>>
\* the error passes through one frame, which gives its charge back before propagating
Unwind == mode = "unwind" /\ frames > 0 /\ frames' = frames - 1 /\ budget' = budget + 1 /\ mode' = "unwind"
\* the public call returns the error; the session can be used again
Return == mode = "unwind" /\ frames = 0 /\ mode' = "run" /\ UNCHANGED <<frames, budget>>
\* atoms and trivia change nothing
Stutter == UNCHANGED <<frames, budget, mode>>

Next == Open \/ OpenAtLimit \/ Close \/ Fail \/ Unwind \/ Return \/ Stutter

\* the inductive invariant
Balanced == budget + frames = L
TypeOK == frames >= 0 /\ mode \in {"run", "unwind"} /\ L >= 1 /\ L <= 255
NoUnderflow == budget >= 1
IndInv == TypeOK /\ Balanced /\ NoUnderflow

\* consequences
BoundedRecursion == frames <= L - 1
RestoredBetweenCalls == frames = 0 => budget = L

\* for the induction step: any state satisfying the invariant
IndInit == frames \in 0..300 /\ budget \in (0 - 300)..300 /\ mode \in {"run", "unwind"} /\ IndInv
=============================================================================
