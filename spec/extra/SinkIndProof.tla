--------------------------- MODULE SinkIndProof ---------------------------
(***************************************************************************)
(* A machine-checked proof (TLAPS) of the write-discipline invariant of    *)
(* spec/extra/SinkInd.tla: for every text length, chunking and sequence of *)
(* sink answers, Spec => []IndInv; IndInv implies the three clauses of C07.*)
(* Apalache checks the same induction symbolically (./check X04).          *)
(***************************************************************************)
EXTENDS SinkInd, TLAPS

ASSUME NNat == N \in Nat
ASSUME Disciplined == WriteAll = TRUE

vars == <<emitted, pos, len, dl, prefix, result, faulted, k>>
Spec == Init /\ [][Next]_vars

Inv == IndInv /\ emitted \in Int /\ pos \in Int /\ len \in Int /\ dl \in Int /\ prefix \in BOOLEAN /\ faulted \in BOOLEAN

THEOREM InitInv == Init => Inv
  BY NNat DEF Init, Inv, IndInv, TypeOK, DeliveredIsPrefix, OkMeansComplete, Aligned

THEOREM NextInv == Inv /\ [Next]_vars => Inv'
  <1> SUFFICES ASSUME Inv, [Next]_vars PROVE Inv'
    OBVIOUS
  <1> USE NNat, Disciplined DEF Inv, IndInv, TypeOK, DeliveredIsPrefix, OkMeansComplete, Aligned
  <1>1. CASE StartChunk BY <1>1 DEF StartChunk
  <1>2. CASE WriteAccept BY <1>2 DEF WriteAccept
  <1>3. CASE WritePlain BY <1>3 DEF WritePlain
  <1>4. CASE WriteRefused BY <1>4 DEF WriteRefused
  <1>5. CASE WriteInterrupted BY <1>5 DEF WriteInterrupted
  <1>6. CASE Finish BY <1>6 DEF Finish
  <1>7. CASE Done BY <1>7 DEF Done
  <1>8. CASE UNCHANGED vars BY <1>8 DEF vars
  <1> QED BY <1>1, <1>2, <1>3, <1>4, <1>5, <1>6, <1>7, <1>8 DEF Next

THEOREM Invariance == Spec => []Inv
  BY InitInv, NextInv, PTL DEF Spec

THEOREM Consequences == Inv => DeliveredIsPrefix /\ OkMeansComplete /\ FaultSurfaces
  BY DEF Inv, IndInv, FaultSurfaces
=============================================================================
