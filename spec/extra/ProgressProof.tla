---------------------------- MODULE ProgressProof ----------------------------
(***************************************************************************)
(* A machine-checked proof (TLAPS) that a parser session over an input of  *)
(* N bytes (spec/extra/Progress.tla) answers at most N + 1 calls before    *)
(* and including "end of input", for every N.  Apalache checks the same    *)
(* induction symbolically (./check X10).                                   *)
(***************************************************************************)
EXTENDS Progress, TLAPS

ASSUME NRange == N \in Nat
ASSUME Consuming == ErrorsConsume = TRUE

vars == <<off, calls, ended>>
Spec == Init /\ [][Next]_vars

Inv == IndInv /\ off \in Int /\ calls \in Int /\ ended \in BOOLEAN

THEOREM InitInv == Init => Inv
  BY NRange DEF Init, Inv, IndInv, TypeOK, CallsBoundedByOffset

THEOREM NextInv == Inv /\ [Next]_vars => Inv'
  <1> SUFFICES ASSUME Inv, [Next]_vars PROVE Inv'
    OBVIOUS
  <1> USE NRange, Consuming DEF Inv, IndInv, TypeOK, CallsBoundedByOffset
  <1>1. CASE Item BY <1>1 DEF Item
  <1>2. CASE StuckError BY <1>2 DEF StuckError
  <1>3. CASE End BY <1>3 DEF End
  <1>4. CASE AfterEnd BY <1>4 DEF AfterEnd
  <1>5. CASE UNCHANGED vars BY <1>5 DEF vars
  <1> QED BY <1>1, <1>2, <1>3, <1>4, <1>5 DEF Next

THEOREM Invariance == Spec => []Inv
  BY InitInv, NextInv, PTL DEF Spec

THEOREM Consequence == Inv => Terminates
  BY NRange DEF Inv, IndInv, TypeOK, CallsBoundedByOffset, Terminates
=============================================================================
