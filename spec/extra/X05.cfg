SPECIFICATION Spec
CONSTANT MaxCalls = 2
INVARIANTS TypeOK Idempotent Emit
PROPERTIES Frame
