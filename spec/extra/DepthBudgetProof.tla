------------------------- MODULE DepthBudgetProof -------------------------
(***************************************************************************)
(* A machine-checked proof (TLAPS) that the nesting-budget accounting of   *)
(* spec/extra/DepthBudget.tla keeps its invariant, for every limit L with  *)
(* 1 <= L <= 255 and unbounded nesting.  Apalache checks the same          *)
(* induction symbolically (./check X03); this is the deductive             *)
(* counterpart: Spec => []IndInv, and IndInv implies the two properties    *)
(* C03 asks of the budget.                                                 *)
(***************************************************************************)
EXTENDS DepthBudget, TLAPS

ASSUME LRange == L \in Int /\ L >= 1 /\ L <= 255
ASSUME Refunded == Refund = TRUE

vars == <<frames, budget, mode>>
Spec == Init /\ [][Next]_vars

\* the invariant of DepthBudget with the types the prover needs
Inv == IndInv /\ frames \in Int /\ budget \in Int

THEOREM InitInv == Init => Inv
  BY LRange DEF Init, Inv, IndInv, TypeOK, Balanced, NoUnderflow

THEOREM NextInv == Inv /\ [Next]_vars => Inv'
  <1> SUFFICES ASSUME Inv, [Next]_vars PROVE Inv'
    OBVIOUS
  <1> USE LRange, Refunded DEF Inv, IndInv, TypeOK, Balanced, NoUnderflow
  <1>1. CASE Open BY <1>1 DEF Open
  <1>2. CASE OpenAtLimit BY <1>2 DEF OpenAtLimit
  <1>3. CASE Close BY <1>3 DEF Close
  <1>4. CASE Fail BY <1>4 DEF Fail
  <1>5. CASE Unwind BY <1>5 DEF Unwind
  <1>6. CASE Return BY <1>6 DEF Return
  <1>7. CASE Stutter BY <1>7 DEF Stutter
  <1>8. CASE UNCHANGED vars BY <1>8 DEF vars
  <1> QED BY <1>1, <1>2, <1>3, <1>4, <1>5, <1>6, <1>7, <1>8 DEF Next

THEOREM Invariance == Spec => []Inv
  BY InitInv, NextInv, PTL DEF Spec

THEOREM Consequences == Inv => BoundedRecursion /\ RestoredBetweenCalls
  BY LRange DEF Inv, IndInv, TypeOK, Balanced, NoUnderflow, BoundedRecursion, RestoredBetweenCalls
=============================================================================
