-------------------------------- MODULE X08 --------------------------------
(***************************************************************************)
(* Beyond the listed properties: the convenience entry points as           *)
(* compositions of the session actions (spec/Session.tla).                 *)
(*   from_str / from_slice / from_reader (and the _custom, _elisp forms)   *)
(*        = one ReadCall that must yield a datum, then ExpectEnd           *)
(*   Parser::expect_value / expect_datum                                    *)
(*        = ReadCall with "end of input" turned into an error              *)
(*   Parser::parse / parse_value / end (deprecated)                        *)
(*        = next_value / expect_value / expect_end                         *)
(* For every token sequence up to MaxLen the model gives the outcome of    *)
(* the one-shot entry point: ok iff the input is exactly one datum.        *)
(***************************************************************************)
EXTENDS Naturals, Sequences, FiniteSets, Json, TLC

CONSTANTS MaxLen

S == INSTANCE Session WITH Limit <- 128, QuoteCharged <- TRUE, RefundOnLimitError <- TRUE, ErrorsMakeProgress <- TRUE,
                           toks <- <<>>, off <- 0, depth <- 128, last <- "-", high <- 0

VARIABLE ts
Alphabet == {"open", "obr", "vopen", "quote", "dot", "close", "cbr", "atom", "junk"}
Init == ts \in UNION {[1..n -> Alphabet] : n \in 0..MaxLen}
Next == UNCHANGED ts
Spec == Init /\ [][Next]_ts

\* the one-shot entry point on the token sequence ts
OneShot ==
  LET r == S!Value(ts, 1, 128, 1) IN
  IF r.r = "ok" THEN (IF r.i = Len(ts) + 1 THEN "ok" ELSE "trailing")
  ELSE IF r.r = "none" THEN "eof"
  ELSE "err"

\* sanity of the composition: a successful one-shot read consumed the whole input, and "eof" only for the empty input
Consistent == (OneShot = "eof") = (ts = <<>>)

Emit == PrintT(<<"REPLAY", ToJson([toks |-> ts, oneshot |-> OneShot])>>)
=============================================================================
