SPECIFICATION Spec
INVARIANTS PairingsAreCompatible DefaultRoundTrips ReaderSeesTheFolding Report Emit
