-------------------------------- MODULE X01 --------------------------------
(***************************************************************************)
(* Model checking of the mutation machine (spec/Mutation.tla) and emission *)
(* of its behaviours for replay: every sequence of up to MaxSteps actions  *)
(* from each initial root, values drawn from a small pool that contains    *)
(* atoms, a proper list, a dotted pair and the empty list.                 *)
(***************************************************************************)
EXTENDS Naturals, Sequences, FiniteSets, Mutation, Json, TLC

CONSTANTS MaxSteps, MaxPath

VARIABLES start, root, snaps, hist
vars == <<start, root, snaps, hist>>

A(n) == NatV(n)
SymX == Sym(<<120>>)

Roots == {
  List(<<A(1), A(2), A(3)>>),
  Cons(A(1), A(2)),
  List(<<Cons(Sym(<<97>>), A(1)), Cons(Sym(<<98>>), A(2))>>),
  Vec(<<A(1), List(<<A(2)>>), A(3)>>),
  ListWithTail(<<A(1), Vec(<<A(2), A(3)>>)>>, SymX) }

Pool == { A(0), SymX, Null, List(<<A(8), A(9)>>), Cons(A(7), SymX) }

Actions(r) ==
  LET ps == PathsOf(r, MaxPath) IN
  {[op |-> "setcar", p |-> p, v |-> v] : p \in {q \in ps : At(r, q).k = "cons"}, v \in Pool}
  \cup {[op |-> "setcdr", p |-> p, v |-> v] : p \in {q \in ps : At(r, q).k = "cons"}, v \in Pool}
  \cup UNION {{[op |-> "setelem", p |-> p, s |-> s, v |-> v] : s \in {t \in ElemSteps : ElemIndex(t) \in DOMAIN At(r, p).e}, v \in Pool}
              : p \in {q \in ps : At(r, q).k = "vec"}}
  \cup {[op |-> "snapshot"]}

Init == root \in Roots /\ start = root /\ snaps = <<>> /\ hist = <<>>

Next ==
  /\ Len(hist) < MaxSteps
  /\ \E act \in Actions(root) :
       /\ Enabled(root, act)
       /\ (act.op = "snapshot" => (IF hist = <<>> THEN TRUE ELSE hist[Len(hist)].act.op # "snapshot"))     \* two clones in a row add nothing
       /\ root' = Apply(root, act)
       /\ start' = start
       /\ snaps' = IF act.op = "snapshot" THEN Append(snaps, root) ELSE snaps
       /\ hist' = Append(hist, [act |-> act, after |-> Apply(root, act), obs |-> Observe(Apply(root, act))])

Spec == Init /\ [][Next]_vars

(***************************************************************************)
(* Properties of the design itself.                                        *)
(***************************************************************************)
\* frame: an action changes nothing outside the sub-value it addresses
RECURSIVE IsPrefix(_, _)
IsPrefix(p, q) == p = <<>> \/ (q # <<>> /\ Head(p) = Head(q) /\ IsPrefix(Tail(p), Tail(q)))

Target(act) == IF act.op = "setelem" THEN act.p \o <<act.s>> ELSE act.p

FrameStep ==
  [][\A act \in Actions(root) :
       (Enabled(root, act) /\ root' = Apply(root, act) /\ act.op # "snapshot") =>
          \A q \in PathsOf(root, MaxPath) :
             (~IsPrefix(Target(act), q) /\ ~IsPrefix(q, Target(act))) => At(root', q) = At(root, q)]_vars

\* a cons chain stays a chain: elements and tail always rebuild the value
ChainWellFormed == Build(Cars(root), TailOf(root)) = root
\* proper and dotted are complementary, and to_vec exists exactly for proper lists
Complementary == IsProperList(root) # IsDottedList(root)
\* clones are values: they never change
SnapshotsAreFrozen == [][\A i \in DOMAIN snaps : snaps'[i] = snaps[i]]_vars

Emit ==
  (Len(hist) = MaxSteps \/ Actions(root) = {}) =>
    PrintT(<<"REPLAY", ToJson([init |-> start, steps |-> hist, nsnaps |-> Len(snaps)])>>)
=============================================================================
