------------------------------ MODULE X05Trace ------------------------------
(***************************************************************************)
(* Trace validation for the option builders: one event per executed        *)
(* builder chain.  parse: the option set read back through the getters     *)
(* must be the fold of the calls over the model; print: the texts of the   *)
(* probe values under the built options must be the documented printer's.  *)
(***************************************************************************)
EXTENDS Naturals, Sequences, OptionsAlgebra, RefPrint, TLC, Json, IOUtils

Rec == ndJsonDeserialize(IOEnv.TRACE)
VARIABLE l
Bad(what) == PrintT(<<"BAD", l, what>>)

ParseOk(e) == FoldCalls(DefaultParse, e.calls, TRUE) = e.got
PrintOk(e) == LET po == FoldCalls(DefaultPrint, e.calls, FALSE) IN \A i \in DOMAIN e.probes : e.texts[i] = PrintDatum(e.probes[i], po)
FirstWrong(e) ==
  LET po == FoldCalls(DefaultPrint, e.calls, FALSE)
      i == CHOOSE k \in DOMAIN e.probes : e.texts[k] # PrintDatum(e.probes[k], po)
  IN <<"a probe value is not printed as documented under the built options", i, e.texts[i], PrintDatum(e.probes[i], po)>>

Init == l = 1
Next ==
  /\ l <= Len(Rec)
  /\ LET e == Rec[l] IN
     IF e.side = "parse"
       THEN (IF ParseOk(e) THEN TRUE ELSE Bad("the getters do not report the option set the builder calls denote"))
       ELSE (IF PrintOk(e) THEN TRUE ELSE Bad(FirstWrong(e)))
  /\ l' = l + 1
Spec == Init /\ [][Next]_l
Accepted == IF TLCGet("stats").diameter - 1 = Len(Rec) THEN TRUE ELSE Bad("trace not consumed")
=============================================================================
