------------------------------ MODULE X07Trace ------------------------------
(***************************************************************************)
(* Trace validation for the consuming iterator: the implementation's run   *)
(* of each behaviour (one event per action; `first` marks a new iterator   *)
(* over `init`) must be a behaviour of spec/extra/X07.tla: the item and    *)
(* tail each Next yields and the remainder peek() shows after every action *)
(* are those of the model state carried by this trace specification.       *)
(***************************************************************************)
EXTENDS Naturals, Sequences, TLC, Json, IOUtils, Sexp

Rec == ndJsonDeserialize(IOEnv.TRACE)
VARIABLES l, rem
Bad(what) == PrintT(<<"BAD", l, what>>)

M == INSTANCE X07 WITH MaxSteps <- 0, start <- Null, hist <- <<>>

Init == l = 1 /\ rem = M!Done
Next ==
  /\ l <= Len(Rec)
  /\ LET e == Rec[l]
         r0 == IF e.first THEN e.init ELSE rem
         y == IF e.act.op = "next" THEN M!Yield(r0) ELSE M!Yield(M!Done)
         r1 == IF r0 = M!Done /\ e.act.op # "next" THEN r0 ELSE M!Step(r0, e.act)
     IN /\ IF r0 = M!Done /\ e.act.op # "next" THEN Bad("peek_mut used on a finished iterator in the trace")
           ELSE IF e.yield # y THEN Bad("the iterator yields something else than the model")
           ELSE IF e.peek # (IF r1 = M!Done THEN M!NoneV ELSE r1) THEN Bad("the remainder shown by peek differs from the model")
           ELSE TRUE
        /\ rem' = r1
  /\ l' = l + 1
Spec == Init /\ [][Next]_<<l, rem>>
Accepted == IF TLCGet("stats").diameter - 1 = Len(Rec) THEN TRUE ELSE Bad("trace not consumed")
=============================================================================
