SPECIFICATION Spec
CONSTANT MaxLen = 4
INVARIANTS Consistent Emit
