-------------------------------- MODULE X06 --------------------------------
(***************************************************************************)
(* Beyond the listed properties: Serde through text under dialect          *)
(* pairings.  C04 states the text round trip for the default options only. *)
(* Here the text-level entry points are specified as compositions          *)
(*    to_string_custom(x, po)   =  PrintDatum(RefSer(T, x), po)            *)
(*    from_str_custom(text, ro) =  RefDe(T, ReadOne(text, ro))             *)
(* and TLC evaluates, for every type of the family, every small inhabitant *)
(* and each of six printer / parser pairings, what comes back.  On the     *)
(* specification it checks: under the default pairing everything round     *)
(* trips (C04's text clause on the model); under every pairing the reader  *)
(* sees exactly the documented folding of the serialized value (C02        *)
(* restricted to Serde shapes).  Where a pairing does not round trip a     *)
(* type (Option and unit types lose None / () under Emacs Lisp syntax,     *)
(* where nil, () and false fold together) TLC reports it as a NOTE: that   *)
(* is a consequence of the documented design, not of the code.  Every      *)
(* evaluated case is emitted with the predicted outcome for replay.        *)
(***************************************************************************)
EXTENDS Naturals, Integers, Sequences, FiniteSets, SerdeModel, RefRead, RefPrint, Json, TLC

S == INSTANCE Serde WITH Mode <- "rt", MaxCells <- 1, ti <- 1, x <- AUnit, v <- Nil

Pairings == <<
  <<DefaultPrint, DefaultParse>>,
  <<ElispPrint, ElispParse>>,
  <<[DefaultPrint EXCEPT !.nil = "sym"], DefaultParse>>,
  <<[DefaultPrint EXCEPT !.vec = "br"], [DefaultParse EXCEPT !.br = "vec"]>>,
  <<[DefaultPrint EXCEPT !.bool = "sym", !.nil = "null"], [DefaultParse EXCEPT !.t = "true", !.nil = "null"]>>,
  <<[DefaultPrint EXCEPT !.kw = "postfix", !.bytes = "r6rs"], [DefaultParse EXCEPT !.kw = <<FALSE, FALSE, TRUE>>]>> >>

VARIABLES ti, pi, x
vars == <<ti, pi, x>>

Init == ti \in 1..Len(Family) /\ pi \in DOMAIN Pairings /\ x = AUnit /\ TRUE
Next == x = AUnit /\ x' \in S!Inhab(Family[ti], 1) /\ x' # AUnit /\ UNCHANGED <<ti, pi>>
Spec == Init /\ [][Next]_vars

T == Family[ti]
Po == Pairings[pi][1]
Ro == Pairings[pi][2]
Ser == RefSer(T, x)
Text == PrintDatum(Ser, Po)
Read == ReadOne(Text, Ro)
Outcome == IF Read.t = "ok" THEN RefDe(T, Read.v) ELSE [t |-> Read.t]

Started == x # AUnit

PairingsAreCompatible == \A i \in DOMAIN Pairings : Compatible(Pairings[i][1], Pairings[i][2])
DefaultRoundTrips == (Started /\ pi = 1) => Outcome = DOk(x)
ReaderSeesTheFolding == Started => (Read.t = "ok" /\ Read.v = Fold(Ser, Po, Ro))
Report ==
  (Started /\ Outcome # DOk(x)) => PrintT(<<"NOTE", "no round trip", ti, pi>>)
Emit ==
  Started => PrintT(<<"REPLAY", ToJson([ti |-> ti - 1, pi |-> pi, po |-> Po, ro |-> Ro, x |-> x,
                                        out |-> IF Outcome.t = "ok" THEN [t |-> "ok", x |-> Outcome.x] ELSE [t |-> Outcome.t, x |-> AUnit]])>>)
=============================================================================
