-------------------------------- MODULE X09 --------------------------------
(***************************************************************************)
(* Beyond the listed properties: the error values of lexpr and serde-lexpr *)
(* and the `From` conversions between them and std::io::Error              *)
(* (spec/ErrorModel.tla), as a machine: an error is raised at one of the   *)
(* origins the code has, then passed up through at most MaxSteps           *)
(* conversions.  Checked in every state:                                   *)
(*   - the text a caller sees (Display) never changes on the way up;       *)
(*   - the category is a function of the origin, and the io::ErrorKind of  *)
(*     a converted error follows the category (Eof -> UnexpectedEof,       *)
(*     Syntax / Data -> InvalidData);                                      *)
(*   - a wrapped io::Error comes back out as it went in, never wrapped     *)
(*     twice (IoRoundTrip, NeverWrapsIo);                                  *)
(*   - a location exists exactly for errors that began as a parse code.    *)
(***************************************************************************)
EXTENDS Naturals, Sequences, FiniteSets, ErrorModel, Json, TLC

CONSTANTS MaxSteps

VARIABLES e, origin, path
vars == <<e, origin, path>>

Origins ==
  {[kind |-> "code", code |-> c] : c \in Codes}
  \cup {[kind |-> "parse_io", io |-> k] : k \in IoKinds}
  \cup {[kind |-> "serde_msg", text |-> t] : t \in {"custom message"}}
  \cup {[kind |-> "serde_io", io |-> k] : k \in IoKinds}
  \cup {[kind |-> "io_plain", io |-> k] : k \in IoKinds}

\* the model's locations are placeholders: the trace module binds the observed ones
Raise(o) ==
  CASE o.kind = "code" -> ParseCode(o.code, 1, 0)
    [] o.kind = "parse_io" -> ParseIo(IoPlain(o.io, "boom"))
    [] o.kind = "serde_msg" -> SerdeMsg(o.text)
    [] o.kind = "serde_io" -> SerdeIo(IoPlain(o.io, "boom"))
    [] o.kind = "io_plain" -> IoPlain(o.io, "boom")

Init == /\ origin \in Origins /\ e = Raise(origin) /\ path = <<>>

StepIntoIo    == CanIntoIo(e)    /\ e' = IntoIo(e)    /\ path' = Append(path, "into_io")
StepIntoSerde == CanIntoSerde(e) /\ e' = IntoSerde(e) /\ path' = Append(path, "into_serde")
\* an io::Error becomes a parse error only by being returned from a reader the parser pulls from
StepIntoParse == CanIntoParse(e) /\ e' = IntoParse(e) /\ path' = Append(path, "into_parse")

Next == /\ Len(path) < MaxSteps
        /\ (StepIntoIo \/ StepIntoSerde \/ StepIntoParse)
        /\ UNCHANGED origin
Spec == Init /\ [][Next]_vars

----------------------------------------------------------------------------
DisplayStable == [][Display(e') = Display(e)]_vars

\* the innermost error
RECURSIVE Root(_)
Root(x) ==
  IF x.layer = "parse" THEN (IF x.src = "io" THEN Root(x.io) ELSE x)
  ELSE IF x.layer = "serde" THEN (IF x.src = "msg" THEN x ELSE IF x.src = "io" THEN Root(x.io) ELSE Root(x.inner))
  ELSE (IF x.src = "plain" THEN x ELSE Root(x.inner))

KindFollowsCategory ==
  (e.layer = "io" /\ e.src = "wrap") =>
     /\ e.kind = (IF Category(e.inner) = "Eof" THEN "UnexpectedEof" ELSE "InvalidData")
     /\ Category(e.inner) \in {"Eof", "Syntax", "Data"}

RECURSIVE NoIoInIoWrap(_)
NoIoInIoWrap(x) ==
  IF x.layer = "io" THEN (x.src = "plain" \/ (x.inner.src # "io" /\ NoIoInIoWrap(x.inner)))
  ELSE IF x.src = "io" THEN NoIoInIoWrap(x.io)
  ELSE IF x.layer = "serde" /\ x.src = "parse" THEN NoIoInIoWrap(x.inner)
  ELSE TRUE
NeverWrapsIo == NoIoInIoWrap(e)

NoPanic == e.layer # "panic"

IoRoundTrip == e.layer = "io" => (IntoIo(IntoSerde(e)) = e /\ IntoIo(IntoParse(e)) = e)

\* once an error has been an io::Error it stays in category Io, whatever it began as
RECURSIVE ThroughIo(_)
ThroughIo(x) ==
  IF x.layer = "io" THEN TRUE
  ELSE IF x.src = "io" THEN TRUE
  ELSE IF x.layer = "serde" /\ x.src = "parse" THEN ThroughIo(x.inner)
  ELSE FALSE

CategoryByOrigin ==
  e.layer # "io" =>
    Category(e) = (IF ThroughIo(e) THEN "Io"
                   ELSE IF Root(e).layer = "parse" THEN (IF Root(e).code \in EofCodes THEN "Eof" ELSE "Syntax")
                   ELSE "Data")

LocationIffCode ==
  (Location(e) # NoLoc) = (e.layer # "io" /\ ~ThroughIo(e) /\ Root(e).layer = "parse")

Obs(x) == [layer |-> x.layer, category |-> Category(x), has_loc |-> Location(x) # NoLoc,
           kind |-> IF x.layer = "io" THEN x.kind ELSE "n/a",
           source |-> IF Source(x) = "none" THEN "none" ELSE "some",
           display_is_origin |-> Display(x) = Display(Raise(origin))]

Emit == PrintT(<<"REPLAY", ToJson([origin |-> origin, path |-> path, obs |-> Obs(e),
                                    message |-> IF origin.kind = "code" THEN Message(origin.code) ELSE "boom"])>>)
=============================================================================
