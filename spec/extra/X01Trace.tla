------------------------------ MODULE X01Trace ------------------------------
(***************************************************************************)
(* Trace validation for the mutation machine: the implementation's run of  *)
(* each behaviour (one "step" event per action, `first` marks the start of *)
(* a behaviour) must be a behaviour of spec/Mutation.tla: the action is    *)
(* enabled in the model state, the logged root after it is Apply(root,     *)
(* act), the logged accessor results are Observe of it, and the logged     *)
(* clones are exactly the model's snapshots.                               *)
(***************************************************************************)
EXTENDS Naturals, Sequences, TLC, Json, IOUtils, Mutation

Rec == ndJsonDeserialize(IOEnv.TRACE)
VARIABLES l, root, snaps
Bad(what) == PrintT(<<"BAD", l, what>>)

Init == l = 1 /\ root = Null /\ snaps = <<>>

Next ==
  /\ l <= Len(Rec)
  /\ LET e == Rec[l]
         r0 == IF e.first THEN e.before ELSE root
         s0 == IF e.first THEN <<>> ELSE snaps
         act == e.act
         ok == Enabled(r0, act)
         after == IF ok THEN Apply(r0, act) ELSE r0
         s1 == IF act.op = "snapshot" THEN Append(s0, r0) ELSE s0
     IN /\ IF ~e.first /\ e.before # root THEN Bad("the logged state before the action is not the state after the previous one") ELSE TRUE
        /\ IF ~ok THEN Bad("the action is not enabled in the model state")
           ELSE IF e.after # after THEN Bad("the root after the action differs from the model")
           ELSE IF e.obs # Observe(after) THEN Bad("the list accessors disagree with ListOps on the new root")
           ELSE IF e.clones # s1 THEN Bad("a clone taken earlier changed")
           ELSE TRUE
        /\ root' = after
        /\ snaps' = s1
  /\ l' = l + 1
Spec == Init /\ [][Next]_<<l, root, snaps>>
Accepted == IF TLCGet("stats").diameter - 1 = Len(Rec) THEN TRUE ELSE Bad("trace not consumed")
=============================================================================
