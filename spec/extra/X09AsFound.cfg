SPECIFICATION Spec
CONSTANT MaxSteps = 4
CONSTANT UnwrapNestedIo = FALSE
INVARIANTS NoPanic KindFollowsCategory NeverWrapsIo IoRoundTrip CategoryByOrigin LocationIffCode
PROPERTIES DisplayStable
