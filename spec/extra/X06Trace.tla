------------------------------ MODULE X06Trace ------------------------------
(***************************************************************************)
(* Trace validation for Serde through text (spec/extra/X06.tla): one event *)
(* per executed case with the text the implementation printed and what it  *)
(* read back.  The reference reader must read the printed text as the      *)
(* documented folding of the serialized value, and the implementation's    *)
(* outcome must be the type-directed reading of that value (where the      *)
(* documentation determines it).                                           *)
(***************************************************************************)
EXTENDS Naturals, Integers, Sequences, FiniteSets, SerdeModel, RefRead, RefPrint, TLC, Json, IOUtils

Rec == ndJsonDeserialize(IOEnv.TRACE)
VARIABLE l
Bad(what) == PrintT(<<"BAD", l, what>>)

X == INSTANCE X06 WITH ti <- 1, pi <- 1, x <- AUnit
ST == INSTANCE SerdeTrace WITH l <- 1

RECURSIVE NoFloatIn(_)
NoFloatIn(v) ==
  CASE v.k = "num" -> v.n.t = "int"
    [] v.k = "cons" -> NoFloatIn(v.car) /\ NoFloatIn(v.cdr)
    [] v.k = "vec" -> \A i \in DOMAIN v.e : NoFloatIn(v.e[i])
    [] OTHER -> TRUE

Judge(e) ==
  LET T == Family[e.ti + 1]
      po == X!Pairings[e.pi][1]
      ro == X!Pairings[e.pi][2]
      x == ST!FromJson(T, e.x)
      ser == RefSer(T, x)
      r == ReadOne(e.text, ro)
  IN IF e.res.t \in {"panic", "ser-err"} THEN "serialization to text failed or panicked"
     ELSE IF r.t = "unspec" THEN "ok"
     ELSE IF r.t # "ok" THEN "the reference reader cannot read the printed text"
     ELSE IF ~NoFloatIn(ser) THEN "ok"                       \* floats: compared natively (accuracy of C05)
     ELSE IF r.v # Fold(ser, po, ro) THEN "the printed text does not read as the documented folding of the serialized value"
     ELSE LET d == RefDe(T, r.v) IN
          IF d.t = "ok" THEN (IF e.res.t = "ok" /\ ST!FromJson(T, e.res.x) = d.x THEN "ok" ELSE "outcome differs from the type-directed reading of the text")
          ELSE IF d.t = "err" THEN (IF e.res.t = "err" THEN "ok" ELSE "a text the documentation rejects for this type was accepted")
          ELSE "ok"

Init == l = 1
Next ==
  /\ l <= Len(Rec)
  /\ LET j == Judge(Rec[l]) IN IF j = "ok" THEN TRUE ELSE Bad(j)
  /\ l' = l + 1
Spec == Init /\ [][Next]_l
Accepted == IF TLCGet("stats").diameter - 1 = Len(Rec) THEN TRUE ELSE Bad("trace not consumed")
=============================================================================
