------------------------------ MODULE Progress ------------------------------
(***************************************************************************)
(* Why iterating a parser over a finite input terminates (C12), as an      *)
(* unbounded argument: a session over an input of N bytes, for EVERY N.    *)
(*                                                                         *)
(*   off    bytes consumed so far (the hook's byte offset)                 *)
(*   calls  next_value / next_datum / Iterator::next calls answered so far *)
(*   ended  the session has answered "end of input"                        *)
(*                                                                         *)
(* Every call that does not report the end of input - whether it yields a  *)
(* datum or an error - consumes at least one byte.  Hence at most N items  *)
(* are yielded before the end is reported, whatever the input.             *)
(* ErrorsConsume = FALSE is the pinned tree, where an unexpected byte was  *)
(* reported but not consumed (repaired by 178b045): the call counter then  *)
(* is not bounded by the offset and Apalache refutes the invariant.        *)
(* The bounded, implementation-shaped counterpart is spec/Session.tla      *)
(* (ErrorsMakeProgress; TLC checks the liveness property there), bound to  *)
(* the code by the session traces of C03 / C12 (offset after every call).  *)
(***************************************************************************)
EXTENDS Integers

CONSTANTS
  \* @type: Int;
  N,
  \* @type: Bool;
  ErrorsConsume

VARIABLES
  \* @type: Int;
  off,
  \* @type: Int;
  calls,
  \* @type: Bool;
  ended

ConstInit == N \in Nat /\ ErrorsConsume = TRUE
ConstInitAsFound == N \in Nat /\ ErrorsConsume = FALSE

Init == off = 0 /\ calls = 0 /\ ended = FALSE

\* a call that yields a datum, or an error that consumed the offending token
Item ==
  /\ ~ended /\ off < N
  /\ off' \in Int /\ off' > off /\ off' <= N
  /\ calls' = calls + 1 /\ ended' = FALSE
\* the pinned tree: an error raised by peeking at a byte that is then left in place
StuckError ==
  /\ ~ErrorsConsume /\ ~ended /\ off < N
  /\ off' = off /\ calls' = calls + 1 /\ ended' = FALSE
\* only trivia is left (possibly none): it is skipped and the end of input reported
End ==
  /\ ~ended
  /\ off' = N /\ calls' = calls + 1 /\ ended' = TRUE
\* further calls after the end keep answering "end of input" and consume nothing
AfterEnd == ended /\ UNCHANGED <<off, calls, ended>>

Next == Item \/ StuckError \/ End \/ AfterEnd

TypeOK == N >= 0 /\ off >= 0 /\ off <= N /\ calls >= 0
\* the variant: every answered call except the last has consumed a byte
CallsBoundedByOffset == calls <= off + (IF ended THEN 1 ELSE 0)
IndInv == TypeOK /\ CallsBoundedByOffset

\* consequence: an iteration over N bytes ends after at most N items and one "end of input"
Terminates == calls <= N + 1

IndInit == off \in Int /\ calls \in Int /\ ended \in BOOLEAN /\ IndInv
=============================================================================
