------------------------------ MODULE X02Trace ------------------------------
(***************************************************************************)
(* Trace validation for the Formatter protocol: one "print" event per      *)
(* value printed through a logging formatter: the value, the callbacks in  *)
(* order (each with the text the default formatter wrote for it) and the   *)
(* whole output.  The callback sequence must be Events(v), be accepted by  *)
(* the protocol machine, each callback's text must be Render of it (a      *)
(* float's text only has to read back as that float), and the output must  *)
(* be their concatenation.                                                 *)
(***************************************************************************)
EXTENDS Naturals, Integers, Sequences, TLC, Json, IOUtils, Formatter, RefRead

Rec == ndJsonDeserialize(IOEnv.TRACE)
VARIABLE l
Bad(what) == PrintT(<<"BAD", l, what>>)

Strip(e) == [c |-> e.c, arg |-> e.arg, first |-> e.first]

OutOk(e) ==
  IF e.c = "write_number" /\ e.arg.n.t = "flt" THEN
       LET r == ReadOne(e.out, DefaultParse) IN
       r.t = "ok" /\ r.v.k = "num" /\ (DigitComparable(e.arg.n) => r.v = e.arg)
  ELSE e.out = Render(Strip(e))

Judge(e) ==
  LET evs == [i \in DOMAIN e.evs |-> Strip(e.evs[i])] IN
  IF evs # Events(e.v) THEN "the callback sequence is not the documented one"
  ELSE IF ~WellFormed(evs) THEN "the callback sequence is rejected by the protocol machine"
  ELSE IF \E i \in DOMAIN e.evs : ~OutOk(e.evs[i]) THEN "a callback wrote something else than the default formatter's text"
  ELSE IF e.text # Flatten([i \in DOMAIN e.evs |-> e.evs[i].out]) THEN "the output is not the concatenation of the callbacks' texts"
  ELSE "ok"

Init == l = 1
Next ==
  /\ l <= Len(Rec)
  /\ LET j == Judge(Rec[l]) IN IF j = "ok" THEN TRUE ELSE Bad(j)
  /\ l' = l + 1
Spec == Init /\ [][Next]_l
Accepted == IF TLCGet("stats").diameter - 1 = Len(Rec) THEN TRUE ELSE Bad("trace not consumed")
=============================================================================
