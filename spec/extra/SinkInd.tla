------------------------------ MODULE SinkInd ------------------------------
(***************************************************************************)
(* The write discipline of the printer (spec/Sink.tla, property C07) as an *)
(* integer machine, for an unbounded argument with Apalache: for EVERY     *)
(* text length, EVERY way the printer cuts the text into chunks and EVERY  *)
(* sequence of sink answers, what the sink has accepted is a prefix of the *)
(* text, success means the whole text was delivered, and a refused write   *)
(* never ends in success.  (TLC explores spec/Sink.tla exhaustively for    *)
(* texts of up to 4 bytes; this removes the bound.)                        *)
(*                                                                         *)
(*   N        length of the text                                           *)
(*   emitted  bytes of the text cut into chunks so far                     *)
(*   pos len  first unwritten position and remaining length of the chunk   *)
(*            being written (len = 0: none)                                *)
(*   dl       number of bytes the sink has accepted                        *)
(*   prefix   the accepted bytes are exactly text[1..dl]                   *)
(*   k        the nondeterministic choice of the step (chunk length or     *)
(*            accepted count)                                              *)
(* WriteAll = FALSE admits one plain write() per chunk whose count is      *)
(* dropped - the defect of the pinned tree; Apalache refutes the invariant.*)
(***************************************************************************)
EXTENDS Integers

CONSTANTS
  \* @type: Int;
  N,
  \* @type: Bool;
  WriteAll

VARIABLES
  \* @type: Int;
  emitted,
  \* @type: Int;
  pos,
  \* @type: Int;
  len,
  \* @type: Int;
  dl,
  \* @type: Bool;
  prefix,
  \* @type: Str;
  result,
  \* @type: Bool;
  faulted,
  \* @type: Int;
  k

ConstInit == N \in Nat /\ WriteAll = TRUE
ConstInitAsFound == N \in Nat /\ WriteAll = FALSE

Init == emitted = 0 /\ pos = 1 /\ len = 0 /\ dl = 0 /\ prefix = TRUE /\ result = "run" /\ faulted = FALSE /\ k = 0

\* the printer hands the next k bytes to the write discipline
StartChunk ==
  /\ result = "run" /\ len = 0 /\ emitted < N
  /\ k' \in Int /\ k' >= 1 /\ k' <= N - emitted
  /\ pos' = emitted + 1 /\ len' = k' /\ emitted' = emitted + k'
  /\ UNCHANGED <<dl, prefix, result, faulted>>

\* write_all: the sink accepts k of the remaining bytes; the loop goes on with the rest
WriteAccept ==
  /\ result = "run" /\ len > 0
  /\ k' \in Int /\ k' >= 1 /\ k' <= len
  /\ dl' = dl + k' /\ prefix' = (prefix /\ pos = dl + 1)
  /\ pos' = pos + k' /\ len' = len - k'
  /\ UNCHANGED <<emitted, result, faulted>>

\* a plain write: the count is dropped, the rest of the chunk is never written
WritePlain ==
  /\ ~WriteAll /\ result = "run" /\ len > 0
  /\ k' \in Int /\ k' >= 0 /\ k' <= len
  /\ dl' = dl + k' /\ prefix' = (prefix /\ (k' = 0 \/ pos = dl + 1))
  /\ pos' = pos + k' /\ len' = 0
  /\ UNCHANGED <<emitted, result, faulted>>

\* Ok(0) on a non-empty buffer, or a hard error: the print call fails
WriteRefused ==
  /\ result = "run" /\ len > 0
  /\ result' = "err" /\ faulted' = TRUE
  /\ UNCHANGED <<emitted, pos, len, dl, prefix, k>>

\* ErrorKind::Interrupted: retried
WriteInterrupted == result = "run" /\ len > 0 /\ UNCHANGED <<emitted, pos, len, dl, prefix, result, faulted, k>>

Finish ==
  /\ result = "run" /\ len = 0 /\ emitted = N
  /\ result' = "ok"
  /\ UNCHANGED <<emitted, pos, len, dl, prefix, faulted, k>>

Done == result # "run" /\ UNCHANGED <<emitted, pos, len, dl, prefix, result, faulted, k>>

Next == StartChunk \/ WriteAccept \/ WritePlain \/ WriteRefused \/ WriteInterrupted \/ Finish \/ Done

TypeOK == result \in {"run", "ok", "err"} /\ N >= 0 /\ emitted >= 0 /\ emitted <= N /\ len >= 0 /\ dl >= 0

\* the properties of C07
DeliveredIsPrefix == prefix /\ dl <= N
OkMeansComplete == result = "ok" => dl = N
FaultSurfaces == faulted => result # "ok"

\* the inductive invariant: the chunk being written starts where the sink stopped and ends where the printer is
Aligned ==
  /\ len > 0 => (pos = dl + 1 /\ pos + len - 1 = emitted)
  /\ len = 0 => dl = emitted
IndInv == TypeOK /\ DeliveredIsPrefix /\ OkMeansComplete /\ (faulted => result = "err") /\ Aligned /\ (result = "ok" => len = 0 /\ emitted = N)

IndInit ==
  /\ emitted \in Int /\ pos \in Int /\ len \in Int /\ dl \in Int /\ k \in Int
  /\ prefix \in BOOLEAN /\ faulted \in BOOLEAN /\ result \in {"run", "ok", "err"}
  /\ IndInv
=============================================================================
