------------------------------ MODULE X09Trace ------------------------------
(***************************************************************************)
(* Trace validation for the error values: one event per error the harness  *)
(* raised and passed through a chain of conversions.  The event names the  *)
(* origin (with the observed location, for a parse code) and the chain;    *)
(* the module rebuilds the model's error and requires every observer -     *)
(* category, location, Display, Debug, source, io::ErrorKind, the type of  *)
(* the payload of an io::Error - to be the model's.                        *)
(***************************************************************************)
EXTENDS Naturals, Sequences, ErrorModel, TLC, Json, IOUtils

Rec == ndJsonDeserialize(IOEnv.TRACE)
VARIABLE l
Bad(what) == PrintT(<<"BAD", l, what>>)

Raise(o) ==
  CASE o.kind = "code" -> ParseCode(o.code, o.loc[1], o.loc[2])
    [] o.kind = "parse_io" -> ParseIo(IoPlain(o.io, "boom"))
    [] o.kind = "serde_msg" -> SerdeMsg(o.text)
    [] o.kind = "serde_io" -> SerdeIo(IoPlain(o.io, "boom"))
    [] o.kind = "io_plain" -> IoPlain(o.io, "boom")

Apply(e, how) ==
  IF how = "into_io" THEN IntoIo(e) ELSE IF how = "into_serde" THEN IntoSerde(e) ELSE IntoParse(e)

RECURSIVE Fold(_, _)
Fold(e, path) == IF path = <<>> THEN e ELSE Fold(Apply(e, Head(path)), Tail(path))

Payload(e) == IF e.layer # "io" THEN "n/a" ELSE IF e.src = "plain" THEN "plain" ELSE e.inner.layer

Judge(ev) ==
  LET e == Fold(Raise(ev.origin), ev.path)
      o == ev.obs
  IN IF e.layer = "panic" THEN <<"the model has no error here: this conversion panics in the modelled tree">>
     ELSE IF o.layer # e.layer THEN <<"layer", o.layer, e.layer>>
     ELSE IF o.category # Category(e) THEN <<"category", o.category, Category(e)>>
     ELSE IF o.loc # Location(e) THEN <<"location", o.loc, Location(e)>>
     ELSE IF o.display # Display(e) THEN <<"Display", o.display, Display(e)>>
     ELSE IF o.debug # DebugOf(e) THEN <<"Debug", o.debug, DebugOf(e)>>
     ELSE IF e.layer # "io" /\ o.source # Source(e) THEN <<"source", o.source, Source(e)>>
     ELSE IF e.layer = "io" /\ o.kind # e.kind THEN <<"io::ErrorKind", o.kind, e.kind>>
     ELSE IF e.layer = "io" /\ o.inner # Payload(e) THEN <<"payload of the io::Error", o.inner, Payload(e)>>
     ELSE <<>>

Init == l = 1
Next ==
  /\ l <= Len(Rec)
  /\ LET j == Judge(Rec[l]) IN IF j = <<>> THEN TRUE ELSE Bad(j)
  /\ l' = l + 1
Spec == Init /\ [][Next]_l
Accepted == IF TLCGet("stats").diameter - 1 = Len(Rec) THEN TRUE ELSE Bad("trace not consumed")
=============================================================================
