------------------------------ MODULE Session ------------------------------
(***************************************************************************)
(* A parser session (Parser<R>): persistent state between public calls is  *)
(* the input cursor and the nesting budget (remaining_depth).  The input   *)
(* is abstracted to a sequence of tokens; what matters here is nesting,    *)
(* the budget accounting, progress, and the agreement of the value and the *)
(* datum API (C03, C10, C12) - not the token classification (RefRead).      *)
(*                                                                         *)
(* Tokens:  open "("   obr "["   vopen "#("   quote (' ` , ,@)   dot "."   *)
(*          close ")"  cbr "]"   atom (anything self-contained)            *)
(*          junk (a byte that cannot start a datum, e.g. "{")              *)
(*                                                                         *)
(* The intended design is the configuration                                *)
(*   QuoteCharged = RefundOnLimitError = ErrorsMakeProgress = TRUE;        *)
(* each FALSE is a deviation found by reading the pinned implementation:   *)
(* TLC then produces the counterexample (regression witnesses, see         *)
(* spec/mc/Session*.cfg).                                                  *)
(***************************************************************************)
EXTENDS Naturals, Sequences, FiniteSets

CONSTANTS Limit,               \* nesting budget of a fresh parser (128 in the implementation)
          QuoteCharged,        \* quote shorthands charge the budget like lists and vectors
          RefundOnLimitError,  \* the charge is returned when the limit error is raised
          ErrorsMakeProgress   \* a call that fails has consumed at least one byte (unless at end of input)

Tokens == {"open", "obr", "vopen", "quote", "dot", "close", "cbr", "atom", "junk"}
Openers == {"open", "obr", "vopen"}
Closer(t) == IF t = "obr" THEN "cbr" ELSE "close"

Max(a, b) == IF a > b THEN a ELSE b

(***************************************************************************)
(* Reading one datum.  Result record:                                      *)
(*   r   "ok" | "none" (end of input) | "err"                              *)
(*   i   position after what was consumed (exact for ok / none; for err it  *)
(*       is where the failure was detected - how much an error path        *)
(*       consumes is an implementation matter, see Call below)             *)
(*   d   budget after the call frame returned                              *)
(*   hi  deepest native recursion (nested next_value activations)          *)
(*   lim TRUE iff the failure is the nesting-limit error                   *)
(* Value(toks, i, d, dp): dp = depth of this activation.                   *)
(***************************************************************************)
Res(r, i, d, hi, lim) == [r |-> r, i |-> i, d |-> d, hi |-> hi, lim |-> lim]

RECURSIVE Value(_, _, _, _), Elements(_, _, _, _, _, _, _, _)

Value(toks, i, d, dp) ==
  IF i > Len(toks) THEN Res("none", i, d, dp, FALSE)
  ELSE LET t == toks[i] IN
  CASE t = "atom" -> Res("ok", i + 1, d, dp, FALSE)
    [] t \in {"close", "cbr", "junk"} -> Res("err", i, d, dp, FALSE)        \* expected a value
    [] t = "dot" -> Res("err", i + 1, d, dp, FALSE)                         \* a lone dot is not a symbol
    [] t = "quote" ->
         IF QuoteCharged /\ d = 1
           THEN Res("err", i + 1, IF RefundOnLimitError THEN d ELSE d - 1, dp, TRUE)
           ELSE LET c == IF QuoteCharged THEN 1 ELSE 0
                    r == Value(toks, i + 1, d - c, dp + 1)
                IN IF r.r = "none" THEN Res("err", r.i, r.d + c, r.hi, FALSE)   \* EOF after the shorthand
                   ELSE [r EXCEPT !.d = @ + c]
    [] OTHER ->       \* an opener
         IF d = 1
           THEN Res("err", i + 1, IF RefundOnLimitError THEN d ELSE d - 1, dp, TRUE)
           ELSE LET r == Elements(toks, i + 1, d - 1, dp, Closer(t), t # "vopen", FALSE, dp)
                IN [r EXCEPT !.d = @ + 1]

\* the elements of a list / vector opened in activation dp; hi = high-water so far
Elements(toks, i, d, dp, closer, isList, have, hi) ==
  IF i > Len(toks) THEN Res("err", i, d, hi, FALSE)                        \* EOF inside the sequence
  ELSE LET t == toks[i] IN
  IF t \in {"close", "cbr"} THEN
       (IF t = closer THEN Res("ok", i + 1, d, hi, FALSE) ELSE Res("err", i, d, hi, FALSE))
  ELSE IF isList /\ t = "dot" THEN
       IF ~have THEN Res("err", i + 1, d, hi, FALSE)
       ELSE LET r == Value(toks, i + 1, d, dp + 1)
                h == Max(hi, r.hi)
            IN IF r.r = "ok" THEN
                    (IF r.i <= Len(toks) /\ toks[r.i] = closer THEN Res("ok", r.i + 1, r.d, h, FALSE)
                     ELSE Res("err", r.i, r.d, h, FALSE))
               ELSE IF r.r = "none" THEN Res("err", r.i, r.d, h, FALSE)
               ELSE [r EXCEPT !.hi = h]
  ELSE LET r == Value(toks, i, d, dp + 1)
           h == Max(hi, r.hi)
       IN IF r.r = "ok" THEN Elements(toks, r.i, r.d, dp, closer, isList, TRUE, h)
          ELSE IF r.r = "none" THEN Res("err", r.i, r.d, h, FALSE)
          ELSE [r EXCEPT !.hi = h]

(***************************************************************************)
(* The session machine: one action per public call.                        *)
(***************************************************************************)
VARIABLES toks,     \* the input (fixed)
          off,      \* tokens consumed so far
          depth,    \* the budget between calls
          last,     \* outcome of the most recent call: "-" | "ok" | "none" | "err" | "end-ok" | "end-err"
          high      \* deepest recursion seen in any call so far

vars == <<toks, off, depth, last, high>>

\* How much of the input a failed call has consumed is an implementation matter (look-ahead,
\* the offending token, a closing delimiter swallowed by the enclosing sequence): anything from its
\* start to the end of input - but at least one token if errors make progress.
ErrOffsets(r) ==
  IF ErrorsMakeProgress
    THEN (IF off < Len(toks) THEN off + 1 ELSE off)..Len(toks)
    \* as found: exactly up to where the failure was detected - an unexpected closing delimiter or
    \* junk byte at the start of a datum is not consumed at all
    ELSE {Max(off, r.i - 1)}

\* next_value, next_datum and every iterator facade: read one datum
ReadCall ==
  LET r == Value(toks, off + 1, depth, 1) IN
  /\ last' = r.r
  /\ depth' = r.d
  /\ high' = Max(high, r.hi)
  /\ IF r.r = "err" THEN off' \in ErrOffsets(r) ELSE off' = r.i - 1
  /\ UNCHANGED toks

\* expect_end: succeeds iff only trivia remains; consumes nothing else
ExpectEnd ==
  /\ last' = IF off = Len(toks) THEN "end-ok" ELSE "end-err"
  /\ UNCHANGED <<toks, off, depth, high>>

(***************************************************************************)
(* Properties.                                                             *)
(***************************************************************************)
\* C03: recursion is bounded by the documented limit through every nesting construct
BoundedRecursion == high <= Limit

\* C03: the budget is intact between calls (no leak on any path, no underflow)
BudgetRestored == depth = Limit

\* C12: every item a caller obtains consumed input (action property)
ItemsConsume == [][(last' \in {"ok"} \/ (ErrorsMakeProgress /\ last' = "err" /\ off < Len(toks))) => off' > off]_vars

TypeOK == /\ off \in 0..Len(toks) /\ depth \in 0..Limit /\ last \in {"-", "ok", "none", "err", "end-ok", "end-err"}
=============================================================================
