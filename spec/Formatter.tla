------------------------------ MODULE Formatter ------------------------------
(***************************************************************************)
(* Beyond the listed properties: the Formatter protocol.  Printer::print    *)
(* does not write text itself; it drives a Formatter through a sequence of *)
(* callbacks.  Events(v) is that sequence for a value v, as documented on   *)
(* the trait (print.rs): atoms are one callback each; a string is          *)
(* begin_string, then maximal unescaped fragments alternating with escapes, *)
(* then end_string; a list is begin_list, its elements each between        *)
(* begin_seq_element(first) and end_seq_element, a non-list tail as two    *)
(* more elements (the dot, then the tail), and end_list; a vector          *)
(* likewise between begin_vector(Generic) and end_vector.                   *)
(*                                                                         *)
(* An event is [c |-> callback, arg |-> its argument as a value,           *)
(* first |-> the flag of begin_seq_element].                                *)
(*                                                                         *)
(* Render gives the text the default formatter writes for one event;       *)
(* the refinement statement  Flatten(Render o Events(v)) = PrintDatum(v,        *)
(* DefaultPrint)  ties the protocol to the documented printer (RefPrint).  *)
(***************************************************************************)
EXTENDS Naturals, Integers, Sequences, Text, BigNat, Sexp, RefPrint

Ev(c, arg) == [c |-> c, arg |-> arg, first |-> FALSE]
BeginElem(first) == [c |-> "begin_seq_element", arg |-> Null, first |-> first]
EndElem == Ev("end_seq_element", Null)

\* the code points the printer escapes inside a string (print.rs ESCAPE)
Escaped(c) == c < 32 \/ c = DQ \/ c = BSL \/ c = DEL
EscapeKind(c) ==
  CASE c = DQ -> "Quote" [] c = BSL -> "ReverseSolidus" [] c = 7 -> "Alert" [] c = 8 -> "Backspace"
    [] c = 10 -> "LineFeed" [] c = 13 -> "CarriageReturn" [] c = 9 -> "Tab" [] OTHER -> "AsciiControl"
EscapeEv(c) == Ev("write_char_escape", [k |-> "esc", kind |-> EscapeKind(c), byte |-> c])

\* end (exclusive) of the maximal unescaped run of s that starts at i
RECURSIVE RunEnd(_, _)
RunEnd(s, i) == IF i <= Len(s) /\ ~Escaped(s[i]) THEN RunEnd(s, i + 1) ELSE i

RECURSIVE StrEvents(_, _)
StrEvents(s, i) ==
  IF i > Len(s) THEN <<>>
  ELSE IF Escaped(s[i]) THEN <<EscapeEv(s[i])>> \o StrEvents(s, i + 1)
  ELSE LET j == RunEnd(s, i) IN <<Ev("write_string_fragment", Str(SubSeq(s, i, j - 1)))>> \o StrEvents(s, j)

RECURSIVE Events(_), TailEvents(_, _)

\* the elements of a cons chain from v on; first = v is the head of the list
TailEvents(v, first) ==
  CASE v.k = "null" -> <<>>
    [] v.k = "cons" -> <<BeginElem(first)>> \o Events(v.car) \o <<EndElem>> \o TailEvents(v.cdr, FALSE)
    [] OTHER -> <<BeginElem(FALSE), Ev("write_dot", Null), EndElem, BeginElem(FALSE)>> \o Events(v) \o <<EndElem>>

Events(v) ==
  CASE v.k = "nil" -> <<Ev("write_nil", Null)>>
    [] v.k = "null" -> <<Ev("write_null", Null)>>
    [] v.k = "bool" -> <<Ev("write_bool", v)>>
    [] v.k = "num" -> <<Ev("write_number", v)>>
    [] v.k = "char" -> <<Ev("write_char", v)>>
    [] v.k = "sym" -> <<Ev("write_symbol", v)>>
    [] v.k = "kw" -> <<Ev("write_keyword", v)>>
    [] v.k = "bytes" -> <<Ev("write_bytes", v)>>
    [] v.k = "str" -> <<Ev("begin_string", Null)>> \o StrEvents(v.s, 1) \o <<Ev("end_string", Null)>>
    [] v.k = "cons" -> <<Ev("begin_list", Null)>> \o TailEvents(v, TRUE) \o <<Ev("end_list", Null)>>
    [] OTHER -> <<Ev("begin_vector", Sym(<<103>>))>>        \* g = VectorType::Generic
                \o Flatten([i \in DOMAIN v.e |-> <<BeginElem(i = 1)>> \o Events(v.e[i]) \o <<EndElem>>])
                \o <<Ev("end_vector", Null)>>

(***************************************************************************)
(* The protocol as a language: a sequence of events is well-formed iff a   *)
(* stack machine accepts it.  Stack symbols: "list", "vec", "elem", "str". *)
(***************************************************************************)
AtomCalls == {"write_nil", "write_null", "write_bool", "write_number", "write_char", "write_symbol", "write_keyword", "write_bytes"}

RECURSIVE Accept(_, _, _, _)
\* evs from i on; st = stack (top first); cnt = number of elements begun so far in each open list/vector (parallel to the
\* "list"/"vec" entries of the stack, top first)
Accept(evs, i, st, cnt) ==
  IF i > Len(evs) THEN st = <<>>
  ELSE LET e == evs[i]
           top == IF st = <<>> THEN "none" ELSE Head(st)
           valueOk == top \in {"none", "elem"}          \* a value may start at top level or inside an element
       IN CASE e.c \in AtomCalls -> valueOk /\ Accept(evs, i + 1, st, cnt)
            [] e.c = "write_dot" -> top = "elem" /\ Accept(evs, i + 1, st, cnt)
            [] e.c = "begin_string" -> valueOk /\ Accept(evs, i + 1, <<"str">> \o st, cnt)
            [] e.c \in {"write_string_fragment", "write_char_escape"} -> top = "str" /\ Accept(evs, i + 1, st, cnt)
            [] e.c = "end_string" -> top = "str" /\ Accept(evs, i + 1, Tail(st), cnt)
            [] e.c = "begin_list" -> valueOk /\ Accept(evs, i + 1, <<"list">> \o st, <<0>> \o cnt)
            [] e.c = "begin_vector" -> valueOk /\ Accept(evs, i + 1, <<"vec">> \o st, <<0>> \o cnt)
            [] e.c = "begin_seq_element" ->
                 top \in {"list", "vec"} /\ e.first = (Head(cnt) = 0)
                 /\ Accept(evs, i + 1, <<"elem">> \o st, <<Head(cnt) + 1>> \o Tail(cnt))
            [] e.c = "end_seq_element" -> top = "elem" /\ Accept(evs, i + 1, Tail(st), cnt)
            [] e.c = "end_list" -> top = "list" /\ Accept(evs, i + 1, Tail(st), Tail(cnt))
            [] e.c = "end_vector" -> top = "vec" /\ Accept(evs, i + 1, Tail(st), Tail(cnt))
            [] OTHER -> FALSE

WellFormed(evs) == Accept(evs, 1, <<>>, <<>>)

\* string events: fragments are non-empty, hold no escaped code point, and two fragments are never adjacent
FragmentsMaximal(evs) ==
  \A i \in DOMAIN evs :
    evs[i].c = "write_string_fragment" =>
      /\ evs[i].arg.s # <<>>
      /\ \A j \in DOMAIN evs[i].arg.s : ~Escaped(evs[i].arg.s[j])
      /\ (i < Len(evs) => evs[i + 1].c # "write_string_fragment")

(***************************************************************************)
(* The default formatter's text for one event.                             *)
(***************************************************************************)
Render(e) ==
  CASE e.c = "write_nil" -> <<HASH, 110, 105, 108>>
    [] e.c = "write_null" -> <<LP, RP>>
    [] e.c = "write_bool" -> PrintBool(e.arg.b, DefaultPrint)
    [] e.c = "write_number" -> PrintNum(e.arg.n)
    [] e.c = "write_char" -> PrintR6rsChar(e.arg.c)
    [] e.c = "write_symbol" -> Encode(e.arg.s)
    [] e.c = "write_keyword" -> <<HASH, COLON>> \o Encode(e.arg.s)
    [] e.c = "write_bytes" -> PrintBytes(e.arg.bv, DefaultPrint)
    [] e.c \in {"begin_string", "end_string"} -> <<DQ>>
    [] e.c = "write_string_fragment" -> Encode(e.arg.s)
    [] e.c = "write_char_escape" -> StrCharR6rs(e.arg.byte)
    [] e.c = "begin_list" -> <<LP>>
    [] e.c = "begin_vector" -> <<HASH, LP>>
    [] e.c \in {"end_list", "end_vector"} -> <<RP>>
    [] e.c = "begin_seq_element" -> IF e.first THEN <<>> ELSE <<SP>>
    [] e.c = "write_dot" -> <<DOT>>
    [] OTHER -> <<>>

RenderAll(evs) == Flatten([i \in DOMAIN evs |-> Render(evs[i])])
=============================================================================
