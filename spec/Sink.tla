------------------------------- MODULE Sink -------------------------------
(***************************************************************************)
(* The output side of the printer (property C07).                          *)
(*                                                                         *)
(* A printer emits a text of n bytes as a sequence of chunks (one chunk    *)
(* per formatter callback); every chunk is handed to an io::Write sink.    *)
(* The sink answers each write call with one of                            *)
(*     Acc(k)  - accepts min(k, |buf|) bytes (k >= 1)                       *)
(*     All     - accepts the whole buffer                                  *)
(*     Zero    - Ok(0) for a non-empty buffer                              *)
(*     Fail    - a hard error                                              *)
(*     Intr    - ErrorKind::Interrupted (must be retried)                  *)
(* The text is abstract: position i of the text is the number i, so        *)
(* "delivered" is the sequence of positions the sink has accepted and the  *)
(* safety properties are independent of what is printed.                   *)
(*                                                                         *)
(* A chunk is written either with the write_all discipline (loop until the *)
(* whole chunk is accepted; Zero => WriteZero error; Intr => retry) or,    *)
(* when WriteAllEverywhere = FALSE, possibly with one plain write call     *)
(* whose count is dropped (the defect class this property is about).       *)
(***************************************************************************)
EXTENDS Naturals, Sequences, FiniteSets

CONSTANTS MaxN,               \* texts of length 0..MaxN
          MaxCalls,           \* bound on the number of write calls in one print
          WriteAllEverywhere  \* TRUE = intended design

VARIABLES n, emitQ, cur, delivered, result, faulted, hist

vars == <<n, emitQ, cur, delivered, result, faulted, hist>>

NoBuf == [pos |-> 0, len |-> 0, all |-> TRUE]

Responses == {[t |-> "acc", k |-> 1], [t |-> "acc", k |-> 2], [t |-> "acc", k |-> 3],
              [t |-> "all", k |-> 0], [t |-> "zero", k |-> 0], [t |-> "fail", k |-> 0],
              [t |-> "intr", k |-> 0]}

Min(a, b) == IF a < b THEN a ELSE b

\* all compositions of m into positive chunk lengths, as sequences
RECURSIVE Compositions(_)
Compositions(m) ==
  IF m = 0 THEN {<<>>}
  ELSE UNION {{<<k>> \o c : c \in Compositions(m - k)} : k \in 1..m}

\* attach the discipline flag to every chunk
Flagged(c) ==
  IF WriteAllEverywhere THEN {[i \in DOMAIN c |-> [len |-> c[i], all |-> TRUE]]}
  ELSE {[i \in DOMAIN c |-> [len |-> c[i], all |-> f[i]]] : f \in [DOMAIN c -> BOOLEAN]}

Positions(from, len) == [i \in 1..len |-> from + i - 1]

(***************************************************************************)
(* The accepted-byte count for a response to a buffer of length len.       *)
(***************************************************************************)
Accepted(r, len) ==
  CASE r.t = "acc" -> Min(r.k, len)
    [] r.t = "all" -> len
    [] OTHER -> 0

Init ==
  /\ n \in 0..MaxN
  /\ emitQ \in UNION {Flagged(c) : c \in Compositions(n)}
  /\ cur = NoBuf
  /\ delivered = <<>>
  /\ result = "run"
  /\ faulted = FALSE
  /\ hist = <<>>

\* position of the first byte not yet handed to the sink by the printer
EmitPos == n - (cur.len + (IF emitQ = <<>> THEN 0
                           ELSE LET S[i \in 0..Len(emitQ)] == IF i = 0 THEN 0 ELSE S[i-1] + emitQ[i].len
                                IN S[Len(emitQ)])) + 1

\* the printer starts writing the next chunk
StartChunk ==
  /\ result = "run" /\ cur = NoBuf /\ emitQ # <<>>
  /\ cur' = [pos |-> EmitPos, len |-> Head(emitQ).len, all |-> Head(emitQ).all]
  /\ emitQ' = Tail(emitQ)
  /\ UNCHANGED <<n, delivered, result, faulted, hist>>

(***************************************************************************)
(* The effect of answering a write call on buffer c (a [pos,len,all]       *)
(* record) with response r: how many bytes the sink took, what remains to  *)
(* be written, whether the print call ends with an error, and whether the  *)
(* sink has now refused service.  Shared by the model-checked machine      *)
(* below and by the trace specification (trace/C07Trace.tla).              *)
(***************************************************************************)
Effect(c, r) ==
  LET a == Accepted(r, c.len) IN
  CASE r.t = "fail" -> [acc |-> 0, cur |-> NoBuf, err |-> TRUE, fault |-> TRUE]
    [] r.t = "zero" ->
         \* write_all turns Ok(0) on a non-empty buffer into ErrorKind::WriteZero;
         \* a plain write drops the count and carries on
         IF c.len = 0 THEN [acc |-> 0, cur |-> NoBuf, err |-> FALSE, fault |-> FALSE]
         ELSE [acc |-> 0, cur |-> NoBuf, err |-> c.all, fault |-> TRUE]
    [] r.t = "intr" ->
         \* write_all retries; a plain write reports the error
         IF c.all THEN [acc |-> 0, cur |-> c, err |-> FALSE, fault |-> FALSE]
                  ELSE [acc |-> 0, cur |-> NoBuf, err |-> TRUE, fault |-> FALSE]
    [] OTHER ->
         IF c.all /\ a < c.len
           THEN [acc |-> a, cur |-> [c EXCEPT !.pos = @ + a, !.len = @ - a], err |-> FALSE, fault |-> FALSE]
           \* chunk done - or the rest is dropped by a plain write
           ELSE [acc |-> a, cur |-> NoBuf, err |-> FALSE, fault |-> FALSE]

\* one write call on the current buffer, answered with r
WriteCall(r) ==
  /\ result = "run" /\ cur # NoBuf /\ Len(hist) < MaxCalls
  /\ hist' = Append(hist, r)
  /\ LET e == Effect(cur, r) IN
     /\ delivered' = delivered \o Positions(cur.pos, e.acc)
     /\ cur' = e.cur
     /\ result' = IF e.err THEN "err" ELSE result
     /\ faulted' = (faulted \/ e.fault)
  /\ UNCHANGED <<n, emitQ>>

Finish ==
  /\ result = "run" /\ cur = NoBuf /\ emitQ = <<>>
  /\ result' = "ok"
  /\ UNCHANGED <<n, emitQ, cur, delivered, faulted, hist>>

Next == StartChunk \/ (\E r \in Responses : WriteCall(r)) \/ Finish

Spec == Init /\ [][Next]_vars

(***************************************************************************)
(* The properties of C07.                                                  *)
(***************************************************************************)
IsPrefixOfText(d) == \A i \in DOMAIN d : d[i] = i

DeliveredIsPrefix == IsPrefixOfText(delivered) /\ Len(delivered) <= n
OkMeansComplete   == result = "ok" => delivered = Positions(1, n)
FaultSurfaces     == faulted => result # "ok"
BufferStartsAtCut == cur # NoBuf => cur.pos = Len(delivered) + 1

TypeOK == /\ n \in 0..MaxN /\ result \in {"run", "ok", "err"} /\ faulted \in BOOLEAN
=============================================================================
