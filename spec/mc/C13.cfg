SPECIFICATION Spec
CONSTANTS MaxLen = 4
 Big = FALSE
INVARIANTS AllFixedPoints Emit EmitCorpus
