SPECIFICATION Spec
CONSTANT MaxVals = 2
INVARIANTS Concatenation Emit
