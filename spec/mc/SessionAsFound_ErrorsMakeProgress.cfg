SPECIFICATION Spec
CONSTANTS
  Limit = 3
  QuoteCharged = TRUE
  RefundOnLimitError = TRUE
  ErrorsMakeProgress = FALSE
  MaxLen = 4
  Alphabet = {"open", "obr", "vopen", "quote", "dot", "close", "cbr", "atom", "junk"}
  EmitInputs = FALSE
INVARIANTS TypeOK BoundedRecursion BudgetRestored Emit
PROPERTY ItemsConsume
