------------------------------- MODULE C13 -------------------------------
(***************************************************************************)
(* C13 on the specification: whatever the documented reader accepts can be *)
(* printed with the corresponding printer options and read back unchanged  *)
(* (up to the documented folding).  Inputs: every word of bounded length   *)
(* over an alphabet of byte strings chosen for reader-lenient / printer-    *)
(* verbatim mismatches, and the corpus of single-datum texts, under the    *)
(* default, the Emacs Lisp and mixed option sets.  The alphabet, the       *)
(* option sets and their printers are emitted so that the harness runs the *)
(* same words through the implementation.                                  *)
(***************************************************************************)
EXTENDS Naturals, Sequences, RefRead, RefPrint, Corpus, Json, TLC

CONSTANTS MaxLen,      \* word length
          Big          \* TRUE: larger alphabet and all mixed option sets

\* the alphabet: byte strings; the empty string pads shorter words
BaseAlphabet == << <<>>, <<LP>>, <<RP>>, <<SP>>, <<DOT>>, <<97>>, <<49>>, <<HASH>>, <<DQ>>, <<BSL>>,
                   <<COLON>>, <<SQ>>, <<MINUS>>, <<101>>, <<QM>> >>
ExtraAlphabet == << <<LB>>, <<RB>>, <<120>>, <<116>>, <<PIPE>>, <<COMMA>>, <<AT>>, <<206, 187>>, <<SEMI>>, <<LF>>, <<PLUS>>, <<48>> >>
Alphabet == IF Big THEN BaseAlphabet \o ExtraAlphabet ELSE BaseAlphabet

\* printer options corresponding to a parser option set
PrinterFor(ro) ==
  IF ro = ElispParse THEN ElispPrint
  ELSE [kw |-> IF ro.kw[1] THEN "octo" ELSE IF ro.kw[2] THEN "prefix" ELSE IF ro.kw[3] THEN "postfix" ELSE "octo",
        nil |-> "token", bool |-> "token",
        vec |-> IF ro.br = "vec" THEN "br" ELSE "octo",
        bytes |-> IF ro.str = "elisp" THEN "elisp" ELSE "r7rs",
        str |-> ro.str, chr |-> ro.chr]

Mixed ==
  { [DefaultParse EXCEPT !.kw = <<TRUE, TRUE, TRUE>>, !.digits = TRUE],
    [DefaultParse EXCEPT !.kw = <<FALSE, FALSE, TRUE>>, !.br = "vec", !.nil = "special", !.t = "true"],
    [ElispParse EXCEPT !.kw = <<TRUE, TRUE, FALSE>>, !.racket = TRUE, !.nil = "sym"],
    [DefaultParse EXCEPT !.str = "elisp", !.racket = TRUE, !.nil = "null"],
    [DefaultParse EXCEPT !.chr = "elisp", !.kw = <<FALSE, TRUE, FALSE>>],
    [ElispParse EXCEPT !.digits = FALSE, !.t = "true", !.kw = <<FALSE, FALSE, FALSE>>] }

OptionSets == {DefaultParse, ElispParse} \cup (IF Big THEN Mixed ELSE {[DefaultParse EXCEPT !.kw = <<TRUE, TRUE, TRUE>>, !.digits = TRUE]})

VARIABLES w, ci       \* a word (sequence of alphabet indices) or a corpus index
vars == <<w, ci>>

NA == Len(Alphabet)
Words(n) == [1..n -> 1..NA]

Init == \/ (w \in Words(2) /\ ci = 0)
        \/ (w = <<>> /\ ci \in 1..Len(DatumTexts))
Next == /\ ci = 0 /\ Len(w) = 2 /\ MaxLen > 2
        /\ \E x \in Words(MaxLen - 2) : w' = w \o x
        /\ ci' = ci
Spec == Init /\ [][Next]_vars

Text == IF ci > 0 THEN DatumTexts[ci] ELSE Flatten([i \in DOMAIN w |-> Alphabet[w[i]]])

\* the words are judged when complete
Complete == ci > 0 \/ Len(w) = MaxLen \/ MaxLen <= 2

FixedPoint(ro) ==
  LET r1 == ReadOne(Text, ro) IN
  IF r1.t # "ok" THEN TRUE
  ELSE LET po == PrinterFor(ro)
           t1 == PrintDatum(r1.v, po)
           r2 == ReadOne(t1, ro)
           f  == Fold(r1.v, po, ro)
       IN IF r2.t = "ok" /\ r2.v = f THEN
               \* printing the result again gives the same text; where folding changed the value the
               \* new text is itself a fixed point
               LET t2 == PrintDatum(r2.v, po) r3 == ReadOne(t2, ro) IN
               (f = r1.v => t2 = t1) /\ r3.t = "ok" /\ r3.v = r2.v
          ELSE IF r2.t = "unspec" THEN TRUE
          ELSE PrintT(<<"NOTE", "not a fixed point", Text, ro, t1, r2>>) /\ FALSE

AllFixedPoints == Complete => \A ro \in OptionSets : FixedPoint(ro)

\* emitted once: alphabet, option sets with their printers
Emit ==
  (ci = 1) =>
    PrintT(<<"REPLAY", ToJson([kind |-> "setup", alphabet |-> Alphabet, maxlen |-> MaxLen,
                              opts |-> {[ro |-> ro, po |-> PrinterFor(ro)] : ro \in OptionSets \cup Mixed}])>>)
EmitCorpus ==
  (ci > 0) => PrintT(<<"REPLAY", ToJson([kind |-> "text", text |-> Text])>>)
=============================================================================
