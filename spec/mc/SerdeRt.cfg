SPECIFICATION Spec
CONSTANTS Mode = "rt"
 MaxCells = 1
INVARIANTS RoundTrip Injective Emit
