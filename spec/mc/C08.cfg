SPECIFICATION Spec
CONSTANT Groups = 32
INVARIANTS NonInterference Emit
