------------------------------- MODULE C01 -------------------------------
(***************************************************************************)
(* C01 on the specification: for every value of the bounded universe, the  *)
(* documented default printer followed by the documented default reader is *)
(* the identity; each value is emitted (with the reference text) so that   *)
(* the harness replays it through the implementation's entry points.       *)
(***************************************************************************)
EXTENDS ValGen, RefRead, RefPrint, Json, TLC

CONSTANT Width

VARIABLE v
Init == v \in Universe(IdentCorpus, Width)
Next == UNCHANGED v
Spec == Init /\ [][Next]_v

RoundTrips ==
  LET r == ReadOne(PrintDatum(v, DefaultPrint), DefaultParse) IN r.t = "ok" /\ r.v = v

Emit == PrintT(<<"REPLAY", ToJson([v |-> v, text |-> PrintDatum(v, DefaultPrint)])>>)
=============================================================================
