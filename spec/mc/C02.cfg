SPECIFICATION Spec
CONSTANT AllPairs = FALSE
INVARIANTS Diagnose AllRoundTrip Emit
