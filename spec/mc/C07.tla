------------------------------- MODULE C07 -------------------------------
(* Model checking of the sink machine and generation of response schedules
   that are replayed against the real printer (DESIGN.md section 6, C07). *)
EXTENDS Sink, Json, TLC

Emit == result # "run" =>
          PrintT(<<"REPLAY", ToJson([n |-> n, resp |-> hist, result |-> result,
                                     delivered |-> Len(delivered)])>>)
=============================================================================
