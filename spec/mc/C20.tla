------------------------------- MODULE C20 -------------------------------
(***************************************************************************)
(* C20 on the specification: a model of Number (PosInt / NegInt / Float)   *)
(* and of the value kinds.  For every constructor call Value::from(p) with *)
(* p a boundary value of one of the eight integer widths, a float class    *)
(* representative, or a payload of another kind: exactly one kind applies; *)
(* the integer accessors follow from the mathematical value (as_i64 iff an *)
(* integer in [-2^63, 2^63-1], as_u64 iff a non-negative integer, a float  *)
(* is never an integer); comparing with a Rust primitive equals comparing  *)
(* the primitive with the matching accessor.  The constructor calls, the   *)
(* expected accessor results and the expected outcome of every (value,     *)
(* primitive) comparison are emitted for replay.                           *)
(***************************************************************************)
EXTENDS Naturals, Integers, Sequences, FiniteSets, BigNat, Json, TLC

Widths == {"i8", "i16", "i32", "i64", "u8", "u16", "u32", "u64"}
Signed(w) == w \in {"i8", "i16", "i32", "i64"}
Bits(w) == CASE w \in {"i8", "u8"} -> 8 [] w \in {"i16", "u16"} -> 16 [] w \in {"i32", "u32"} -> 32 [] OTHER -> 64
MaxOf(w) == IF Signed(w) THEN Pred(Pow2(Bits(w) - 1)) ELSE Pred(Pow2(Bits(w)))
MinMagOf(w) == IF Signed(w) THEN Pow2(Bits(w) - 1) ELSE Zero

\* an integer payload: [neg, d]
Ints(w) ==
  {[neg |-> FALSE, d |-> Zero], [neg |-> FALSE, d |-> One], [neg |-> FALSE, d |-> MaxOf(w)], [neg |-> FALSE, d |-> Pred(MaxOf(w))]}
  \cup (IF Signed(w) THEN {[neg |-> TRUE, d |-> One], [neg |-> TRUE, d |-> MinMagOf(w)], [neg |-> TRUE, d |-> Pred(MinMagOf(w))]} ELSE {})
  \cup (IF w = "u64" THEN {[neg |-> FALSE, d |-> Pow2(63)], [neg |-> FALSE, d |-> Pred(Pow2(63))]} ELSE {})

\* constructor calls: kind of payload and the payload
IntCtors == UNION {{[c |-> "int", w |-> w, neg |-> p.neg, d |-> p.d] : p \in Ints(w)} : w \in Widths}
OtherCtors == {[c |-> "nil"], [c |-> "null"], [c |-> "bool", b |-> TRUE], [c |-> "bool", b |-> FALSE], [c |-> "char", ch |-> 955],
               [c |-> "str", s |-> <<97>>], [c |-> "str", s |-> <<>>], [c |-> "sym", s |-> <<97>>], [c |-> "kw", s |-> <<97>>],
               [c |-> "bytes", bv |-> <<1, 2>>], [c |-> "pair"], [c |-> "vec"], [c |-> "float", f |-> "1.5"], [c |-> "float", f |-> "-0"],
               [c |-> "float", f |-> "2^53"], [c |-> "float", f |-> "1e300"], [c |-> "float", f |-> "1"], [c |-> "f32", f |-> "0.1"]}
Ctors == IntCtors \cup OtherCtors

\* the representation chosen by From<..>: non-negative integers are PosInt whatever the width
Repr(k) ==
  CASE k.c = "int" -> IF k.neg /\ k.d # Zero THEN [cls |-> "neg", d |-> k.d] ELSE [cls |-> "pos", d |-> k.d]
    [] k.c \in {"float", "f32"} -> [cls |-> "flt"]
    [] OTHER -> [cls |-> "none"]

Kind(k) == CASE k.c \in {"int", "float", "f32"} -> "number" [] k.c = "pair" -> "cons" [] OTHER -> k.c
Kinds == {"nil", "null", "bool", "number", "char", "str", "sym", "kw", "bytes", "cons", "vec"}

IsI64(r) == r.cls = "neg" \/ (r.cls = "pos" /\ Leq(r.d, I64Max))
IsU64(r) == r.cls = "pos"
IsF64(r) == r.cls = "flt"
None == [t |-> "none"]
AsI64(r) == IF IsI64(r) THEN [t |-> "some", neg |-> r.cls = "neg", d |-> r.d] ELSE None
AsU64(r) == IF IsU64(r) THEN [t |-> "some", neg |-> FALSE, d |-> r.d] ELSE None

\* Number::visit calls exactly one visitor method, chosen by the representation (a non-negative integer is never
\* handed to visit_i64, whatever the width it was built from)
Visit(r) == CASE r.cls = "pos" -> [m |-> "u64", neg |-> FALSE, d |-> r.d]
              [] r.cls = "neg" -> [m |-> "i64", neg |-> TRUE, d |-> r.d]
              [] r.cls = "flt" -> [m |-> "f64"]
              [] OTHER -> [m |-> "none"]

\* comparison of the value built by k with the integer primitive p (a constructor of kind int)
EqInt(k, p) ==
  LET r == Repr(k)
      pn == p.neg /\ p.d # Zero
  IN IF Signed(p.w) THEN AsI64(r) = [t |-> "some", neg |-> pn, d |-> p.d]
     ELSE AsU64(r) = [t |-> "some", neg |-> FALSE, d |-> p.d]
EqBool(k, b) == k.c = "bool" /\ k.b = b
EqStr(k, s) == k.c = "str" /\ k.s = s

VARIABLE k
Init == k \in Ctors
Next == UNCHANGED k
Spec == Init /\ [][Next]_k

\* the three integer classes partition the integers a constructor can produce; a float is never an integer
Coherent ==
  LET r == Repr(k) IN
  /\ Cardinality({x \in Kinds : x = Kind(k)}) = 1
  /\ (r.cls = "flt" => ~IsI64(r) /\ ~IsU64(r))
  /\ (k.c = "int" => (IsI64(r) \/ IsU64(r)))
  /\ (k.c = "int" /\ IsI64(r) /\ IsU64(r) => Leq(r.d, I64Max) /\ r.cls = "pos")
  /\ (k.c = "int" => (IsI64(r) <=> (IF k.neg /\ k.d # Zero THEN Leq(k.d, I64MaxPlus1) ELSE Leq(k.d, I64Max))))
  /\ (k.c = "int" => (IsU64(r) <=> ~(k.neg /\ k.d # Zero)))
  /\ ((Visit(r).m = "u64") = IsU64(r)) /\ ((Visit(r).m = "f64") = IsF64(r))
  /\ ((Visit(r).m = "i64") = (IsI64(r) /\ ~IsU64(r)))
  /\ ((Visit(r).m = "none") = (Kind(k) # "number"))

Emit ==
  PrintT(<<"REPLAY", ToJson([k |-> k, kind |-> Kind(k), isi64 |-> IsI64(Repr(k)), isu64 |-> IsU64(Repr(k)), isf64 |-> IsF64(Repr(k)),
                            asi64 |-> AsI64(Repr(k)), asu64 |-> AsU64(Repr(k)), visit |-> Visit(Repr(k)),
                            eqint |-> {[p |-> p, eq |-> EqInt(k, p)] : p \in IntCtors},
                            eqbool |-> [t |-> EqBool(k, TRUE), f |-> EqBool(k, FALSE)],
                            eqstr |-> [a |-> EqStr(k, <<97>>), e |-> EqStr(k, <<>>)]])>>)
=============================================================================
