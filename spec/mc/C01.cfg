SPECIFICATION Spec
CONSTANT Width = 2
INVARIANTS RoundTrips Emit
