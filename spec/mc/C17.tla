------------------------------- MODULE C17 -------------------------------
(***************************************************************************)
(* C17 on the specification: every class of 1-4 byte UTF-8 sequence        *)
(* (valid 2 / 3 / 4-byte, overlong, surrogate, beyond U+10FFFF, 5-byte     *)
(* lead, truncated, stray continuation, 0xFF) placed inside symbols,       *)
(* strings, characters and comments, next to escapes at every alignment,   *)
(* in both dialects.  The reference reader decides what must happen:       *)
(* ill-formed bytes inside a symbol, string or character are rejected (or, *)
(* as part of an Emacs unibyte string, returned as bytes); inside a        *)
(* comment they are ignored; well-formed text is read.  Every text is      *)
(* emitted with that verdict for replay through the byte-slice and stream  *)
(* entry points (and the str entry point when the text is valid UTF-8).    *)
(***************************************************************************)
EXTENDS Naturals, Sequences, RefRead, Json, TLC

Seqs == << <<206, 187>>,                \* valid 2-byte (lambda)
           <<194, 163>>,                \* valid 2-byte with the smallest lead byte (pound sign)
           <<194, 133>>,                \* U+0085 (a line ending in R6RS strings)
           <<228, 184, 173>>,           \* valid 3-byte
           <<240, 159, 152, 128>>,      \* valid 4-byte
           <<192, 128>>,                \* overlong 2-byte
           <<224, 128, 128>>,           \* overlong 3-byte
           <<237, 160, 128>>,           \* surrogate
           <<244, 144, 128, 128>>,      \* beyond U+10FFFF
           <<245, 128, 128, 128>>,      \* invalid lead F5
           <<248, 136, 128, 128, 128>>, \* 5-byte form
           <<206>>,                     \* truncated 2-byte
           <<228, 184>>,                \* truncated 3-byte
           <<240, 159, 152>>,           \* truncated 4-byte
           <<128>>,                     \* stray continuation
           <<255>>,                     \* never valid
           <<206, 187, 128>>,           \* valid then stray continuation
           <<97>> >>                    \* plain ASCII control case

\* contexts: <<prefix, suffix>>; the sequence is placed between them
Contexts == << << <<97>>, <<98>> >>,                                   \* inside a symbol  a@b
               << <<>>, <<120>> >>,                                    \* at the start of a symbol
               << <<DQ, 97>>, <<98, DQ>> >>,                           \* inside a string
               << <<DQ, BSL, 110>>, <<BSL, 116, DQ>> >>,               \* between escapes
               << <<DQ, BSL, 120, 52, 49, SEMI>>, <<DQ>> >>,           \* after an R6RS hex escape / an Emacs \x41;
               << <<DQ>>, <<BSL, 49, 48, 49, DQ>> >>,                  \* before an octal escape (Emacs: unibyte candidate)
               << <<DQ, BSL, 120, 52, 49, BSL, SP>>, <<DQ>> >>,        \* after an Emacs hex escape
               << <<HASH, BSL>>, <<>> >>,                              \* character
               << <<HASH, BSL>>, <<SP, 120>> >>,                       \* character followed by another datum
               << <<QM>>, <<>> >>,                                     \* Emacs character
               << <<SEMI, 99>>, <<LF, 120>> >>,                        \* inside a comment
               << <<LP, 97, SP>>, <<RP>> >>,                           \* a list element
               << <<HASH, COLON>>, <<>> >>,                            \* keyword name
               << <<DQ>>, <<>> >>,                                     \* unterminated string
               << <<DQ, 97, BSL>>, <<100, DQ>> >>,                     \* directly after a backslash inside a string
               << <<DQ, BSL, CR>>, <<53, DQ>> >>,                      \* after a backslash and a bare CR (line continuation)
               << <<DQ, BSL, LF, SP>>, <<DQ>> >>,                      \* after a backslash, LF and a blank
               << <<QM, BSL>>, <<>> >>,                                \* Emacs character, escaped
               << <<BSL>>, <<97>> >> >>                                \* after a stray backslash at top level

VARIABLES s, c, e
Init == s \in 1..Len(Seqs) /\ c \in 1..Len(Contexts) /\ e \in BOOLEAN
Next == UNCHANGED <<s, c, e>>
Spec == Init /\ [][Next]_<<s, c, e>>

Text == Contexts[c][1] \o Seqs[s] \o Contexts[c][2]
Options == IF e THEN ElispParse ELSE DefaultParse
Verdict == ReadAll(Text, Options)

RECURSIVE StringsOk(_)
\* the reference never builds a name or string from ill-formed bytes (they are code point sequences by construction);
\* what is checked on the specification: an accepted text that is not valid UTF-8 owes this to a comment or to an Emacs unibyte string
IllFormedOnlyWhereAllowed ==
  (Verdict.t = "ok" /\ ~Utf8Ok(Text)) => (c = 11 \/ (e /\ \E i \in DOMAIN Verdict.vs : Verdict.vs[i].k = "bytes"))
StringsOk(v) == TRUE

Emit == PrintT(<<"REPLAY", ToJson([text |-> Text, ro |-> Options, exp |-> Verdict.t,
                                   vs |-> IF Verdict.t = "ok" THEN Verdict.vs ELSE <<>>])>>)
=============================================================================
