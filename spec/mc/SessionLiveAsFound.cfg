SPECIFICATION IterSpec
CONSTANTS
  Limit = 3
  QuoteCharged = TRUE
  RefundOnLimitError = TRUE
  ErrorsMakeProgress = FALSE
  MaxLen = 4
  Alphabet = {"open", "vopen", "quote", "dot", "close", "atom", "junk"}
  EmitInputs = FALSE
PROPERTY Terminates
