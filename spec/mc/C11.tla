------------------------------- MODULE C11 -------------------------------
(***************************************************************************)
(* C10 / C11: layouts.  Every word of bounded length over an alphabet of   *)
(* lexemes and trivia (multi-line, CR / LF / tab / comment trivia, a       *)
(* non-ASCII atom whose byte and character columns differ, data adjacent   *)
(* to delimiters, quote shorthands, dotted tails) that the reference       *)
(* reader accepts as a sequence of data is emitted with the values read;   *)
(* the harness parses it with the datum API from the three sources and     *)
(* logs the span tree, which TLC then validates (trace/DatumTrace.tla).    *)
(* On the specification itself: accepted layouts are insensitive to the    *)
(* trivia they contain.                                                    *)
(***************************************************************************)
EXTENDS Naturals, Sequences, RefRead, Json, TLC

CONSTANTS MaxLen, Elisp

Lexemes == << <<>>, <<LP>>, <<RP>>, <<SQ>>, <<COMMA, AT>>, <<DOT>>, <<97, 98>>, <<DQ, 115, 32, 41, DQ>>, <<206, 187, 120>>,
              <<SP>>, <<LF>>, <<CR, LF>>, <<TAB>>, <<SEMI, 99, 40, LF>>, <<LB>>, <<RB>>, <<HASH, LP>>, <<HASH, 117, 56, LP, 49, SP, 50, RP>>,
              <<HASH, BSL, 97>> >>
NL == Len(Lexemes)
IsTriviaLexeme(i) == i \in 10..14

Options == IF Elisp THEN ElispParse ELSE DefaultParse

VARIABLES w
Init == w \in [1..2 -> 1..NL]
Next == Len(w) = 2 /\ MaxLen > 2 /\ \E x \in [1..(MaxLen - 2) -> 1..NL] : w' = w \o x
Spec == Init /\ [][Next]_w

Complete == Len(w) = MaxLen \/ MaxLen <= 2
\* canonical words only: the empty lexeme pads at the end
Canonical == \A i \in 1..(Len(w) - 1) : (w[i] = 1 => w[i + 1] = 1)

Text == Flatten([i \in DOMAIN w |-> Lexemes[w[i]]])
\* the same word with every trivia lexeme replaced by a single space
Squashed == Flatten([i \in DOMAIN w |-> IF IsTriviaLexeme(w[i]) THEN <<SP>> ELSE Lexemes[w[i]]])

TriviaInsensitive ==
  (Complete /\ Canonical) =>
    LET a == ReadAll(Text, Options) b == ReadAll(Squashed, Options) IN
    (a.t = "ok" /\ b.t = "ok") => (a.vs = b.vs \/ PrintT(<<"NOTE", "trivia changes the reading", Text>>))

Emit ==
  (Complete /\ Canonical) =>
    LET a == ReadAll(Text, Options) IN
    (a.t = "ok" /\ a.vs # <<>>) => PrintT(<<"REPLAY", ToJson([text |-> Text, ro |-> Options, vs |-> a.vs])>>)
=============================================================================
