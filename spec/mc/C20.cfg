SPECIFICATION Spec
INVARIANTS Coherent Emit
