SPECIFICATION Spec
CONSTANTS
  Data <- AllData
  MaxIntr = 2
  PositionBeforePeek = FALSE
INVARIANTS SameCursor SameByte SamePosition NoSkip FaultOnlyWhenReached FaultSurfaces
