------------------------------- MODULE C02 -------------------------------
(***************************************************************************)
(* C02 on the specification: for every printer option set po, every parser *)
(* option set ro compatible with it, and every probe value v:              *)
(*        ReadOne(PrintDatum(v, po), ro) = Fold(v, po, ro)                      *)
(* Each compatible pairing is emitted so that the harness replays it with  *)
(* the real printer and parser; the documented folding of every probe      *)
(* value is emitted once per combination of the five option fields it      *)
(* depends on, as the expected result of the replay.                       *)
(***************************************************************************)
EXTENDS ValGen, RefRead, RefPrint, Json, TLC

CONSTANT AllPairs     \* TRUE: every compatible ro; FALSE: minimal, maximal and two mixed ones per po

VARIABLES phase, po, ro
vars == <<phase, po, ro>>

CompatibleSets(p) == {r \in ParseOptionSets : Compatible(p, r)}

\* the compatible option set enabling nothing beyond what p needs, and the one enabling everything
Minimal(p) == [kw |-> [i \in 1..3 |-> i = KwIndex(p.kw)], nil |-> "sym", t |-> "sym",
               br |-> IF p.vec = "br" THEN "vec" ELSE "list", str |-> p.str, chr |-> p.chr,
               racket |-> FALSE, digits |-> FALSE]
Maximal(p) == [kw |-> <<TRUE, TRUE, TRUE>>, nil |-> "special", t |-> "true",
               br |-> "vec", str |-> p.str, chr |-> p.chr, racket |-> TRUE, digits |-> TRUE]
Mixed1(p) == [Minimal(p) EXCEPT !.nil = "null", !.digits = TRUE, !.kw = [i \in 1..3 |-> i = KwIndex(p.kw) \/ i = 2]]
Mixed2(p) == [Maximal(p) EXCEPT !.nil = "sym", !.br = IF p.vec = "br" THEN "vec" ELSE "list", !.racket = FALSE]

RoChoices(p) ==
  IF AllPairs THEN CompatibleSets(p)
  ELSE {r \in {Minimal(p), Maximal(p), Mixed1(p), Mixed2(p)} : Compatible(p, r)}

\* Fold depends only on po.nil, po.bool, po.bytes and ro.nil, ro.t
FoldPo == {[DefaultPrint EXCEPT !.nil = a, !.bool = b, !.bytes = c] :
             a \in {"sym", "token", "null", "false"}, b \in {"token", "sym"}, c \in {"r6rs", "r7rs", "elisp"}}
FoldRo == {[DefaultParse EXCEPT !.nil = a, !.t = b] : a \in {"sym", "null", "special"}, b \in {"sym", "true"}}

Init ==
  \/ phase = 0 /\ po \in PrintOptionSets /\ ro = DefaultParse
  \/ phase = 2 /\ po \in FoldPo /\ ro \in FoldRo

Next ==
  /\ phase = 0 /\ phase' = 1 /\ po' = po
  /\ ro' \in RoChoices(po)

Spec == Init /\ [][Next]_vars

RoundTrip(v) ==
  LET r == ReadOne(PrintDatum(v, po), ro) IN r.t = "ok" /\ r.v = Fold(v, po, ro)

AllRoundTrip == phase = 1 => \A v \in ProbeC02 : RoundTrip(v)

\* a failing probe is printed before the invariant trips, to see which one it was
Diagnose == phase = 1 => \A v \in ProbeC02 : RoundTrip(v) \/ PrintT(<<"NOTE", "fails", v, po, ro>>)

Emit ==
  CASE phase = 1 -> PrintT(<<"REPLAY", ToJson([kind |-> "pair", po |-> po, ro |-> ro])>>)
    [] phase = 2 -> \A v \in ProbeC02 :
                      PrintT(<<"REPLAY", ToJson([kind |-> "fold", pnil |-> po.nil, pbool |-> po.bool, pbytes |-> po.bytes,
                                                 rnil |-> ro.nil, rt |-> ro.t, v |-> v, exp |-> Fold(v, po, ro)])>>)
    [] OTHER -> TRUE
=============================================================================
