------------------------------- MODULE Serde -------------------------------
(***************************************************************************)
(* C04 / C14 / C18 on the specification.                                   *)
(*  mode "rt":   every type of the family x every small inhabitant x:      *)
(*               RefDe(T, RefSer(T, x)) = x, and RefSer(T, _) is injective *)
(*               (no two Rust values collapse into one S-expression).      *)
(*               Emits (type, x, RefSer(T, x)) and, for the acceptance     *)
(*               clause of C14, alternative encodings of the same value    *)
(*               (list <-> vector, improper tail, wrong kind) with the     *)
(*               documented verdict.                                       *)
(*  mode "any":  every type x every small S-expression value v (arbitrary  *)
(*               kinds and shapes): whenever RefDe accepts v as x, x       *)
(*               serialises and reads back as x (accepted alternative      *)
(*               encodings are normalised, not misread).  Emits            *)
(*               (type, v, verdict).                                       *)
(***************************************************************************)
EXTENDS Naturals, Integers, Sequences, FiniteSets, SerdeModel, Json, TLC

CONSTANTS Mode, MaxCells

\* ------------------------------------------------------------------ small inhabitants
RECURSIVE TakeSome(_, _)
TakeSome(S, n) == IF n = 0 \/ S = {} THEN {} ELSE LET e == CHOOSE e \in S : TRUE IN {e} \cup TakeSome(S \ {e}, n - 1)

IntBounds(w) ==
  {AInt(FALSE, Zero), AInt(FALSE, One), AInt(FALSE, MaxMag(w))}
  \cup (IF MinMag(w) = Zero THEN {} ELSE {AInt(TRUE, One), AInt(TRUE, MinMag(w))})

SeqsOver(S, n) == UNION {[1..k -> S] : k \in 0..n}

RECURSIVE Inhab(_, _)
Inhab(T0, d) ==
  LET T == Resolve(T0) IN
  CASE T.c = "bool" -> {ABool(TRUE), ABool(FALSE)}
    [] T.c = "int" -> IntBounds(T.w)
    [] T.c \in {"f32", "f64"} -> {AFlt(FALSE, <<1, 5>>, -1), AFlt(TRUE, <<2, 5>>, -2), AFlt(FALSE, Zero, 0)}
    [] T.c = "char" -> {AChar(97), AChar(955), AChar(0)}
    [] T.c = "str" -> {AStr(<<>>), AStr(<<97>>), AStr(<<233, 128512>>), AStr(<<34, 92>>)}
    [] T.c = "bytes" -> {ABytes(<<>>), ABytes(<<0, 255>>)}
    [] T.c \in {"unit", "ustruct"} -> {AUnit}
    [] T.c = "opt" -> {ANone} \cup {ASome(x) : x \in Inhab(T.t, d)}
    [] T.c = "seq" -> {ASeq(xs) : xs \in SeqsOver(TakeSome(Inhab(T.t, d), 3), 2)}
    [] T.c = "set" -> {ASet(S) : S \in SUBSET TakeSome(Inhab(T.t, d), 3)}
    [] T.c \in {"tuple", "tstruct"} ->
         {ASeq(xs) : xs \in {f \in [DOMAIN T.ts -> UNION {TakeSome(Inhab(T.ts[i], d), 3) : i \in DOMAIN T.ts}] :
                               \A i \in DOMAIN T.ts : f[i] \in TakeSome(Inhab(T.ts[i], d), 3)}}
    [] T.c = "newtype" -> {ANt(x) : x \in Inhab(T.t, d)}
    [] T.c = "map" ->
         LET ks == TakeSome(Inhab(T.kt, d), 2) vs == TakeSome(Inhab(T.vt, d), 2) IN
         {AMap(es) : es \in {e \in SUBSET (ks \X vs) : \A p, q \in e : p[1] = q[1] => p = q}}
    [] T.c = "struct" ->
         {ARec(xs) : xs \in {f \in [DOMAIN T.fs -> UNION {TakeSome(Inhab(T.fs[i].t, d), 2) : i \in DOMAIN T.fs}] :
                               \A i \in DOMAIN T.fs : f[i] \in TakeSome(Inhab(T.fs[i].t, d), 2)}}
    [] OTHER ->   \* enum
         UNION {
           LET vd == T.vs[i] IN
           CASE vd.kind = "unit" -> {AVar(i, AUnit)}
             [] vd.kind = "newtype" -> IF d = 0 THEN {} ELSE {AVar(i, x) : x \in TakeSome(Inhab(vd.t, d - 1), 4)}
             [] vd.kind = "tuple" ->
                  IF d = 0 /\ vd.ts # <<>> THEN {}
                  ELSE {AVar(i, ASeq(xs)) : xs \in {f \in [DOMAIN vd.ts -> UNION {TakeSome(Inhab(vd.ts[j], d - 1), 2) : j \in DOMAIN vd.ts}] :
                                                      \A j \in DOMAIN vd.ts : f[j] \in TakeSome(Inhab(vd.ts[j], d - 1), 2)}}
             [] OTHER ->
                  {AVar(i, ARec(xs)) : xs \in {f \in [DOMAIN vd.fs -> UNION {TakeSome(Inhab(vd.fs[j].t, d), 2) : j \in DOMAIN vd.fs}] :
                                                 \A j \in DOMAIN vd.fs : f[j] \in TakeSome(Inhab(vd.fs[j].t, d), 2)}}
           : i \in DOMAIN T.vs}

\* ------------------------------------------------------------------ small S-expression values (mode "any")
Atoms12 == {Nil, Null, Bool(TRUE), IntV(FALSE, One), IntV(TRUE, <<3, 0, 0>>), FltV(FALSE, <<1, 5>>, -1), Char(97), Str(<<97>>),
            Sym(<<65>>), Sym(<<97>>), Kw(<<97>>), Bytes(<<1>>)}
RECURSIVE Values(_)
Values(n) ==
  IF n = 0 THEN Atoms12
  ELSE LET S == Values(n - 1) IN
       S \cup {Cons(a, b) : a \in Atoms12, b \in S} \cup {Cons(Cons(a, b), Null) : a, b \in Atoms12}
         \cup {Vec(<<a>>) : a \in S} \cup {Vec(<<a, b>>) : a, b \in Atoms12} \cup {Vec(<<>>)}
         \cup {Cons(Sym(n2), b) : n2 \in {<<78>>, <<84>>, <<83>>, <<85>>, <<76, 101, 97, 102>>}, b \in S}

\* ------------------------------------------------------------------ alternative encodings (C14)
RECURSIVE ListElems(_)
ListElems(v) == IF v.k = "cons" THEN <<v.car>> \o ListElems(v.cdr) ELSE <<>>
RECURSIVE WithTail(_, _)
WithTail(v, t) == IF v.k = "cons" THEN Cons(v.car, WithTail(v.cdr, t)) ELSE t
IsProper(v) == IsProperV(v)

Alternatives(v) ==
  (IF IsProper(v) THEN {Vec(ListElems(v))} ELSE {})                               \* a vector where a list was written
  \cup (IF v.k = "vec" THEN {List(v.e)} ELSE {})                                  \* a list where a vector was written
  \cup (IF v.k = "cons" /\ IsProper(v) THEN {WithTail(v, IntV(FALSE, <<7>>)), WithTail(v, Sym(<<120>>))} ELSE {})   \* improper tail
  \cup (IF v.k = "vec" /\ v.e # <<>> THEN {WithTail(List(v.e), Str(<<>>))} ELSE {})
  \cup (IF v.k = "vec" /\ Len(v.e) = 2 THEN {Cons(v.e[1], v.e[2])} ELSE {})                       \* #(a b) written as the pair (a . b)
  \cup (IF IsProper(v) /\ Len(ListElems(v)) = 2 THEN {Cons(ListElems(v)[1], ListElems(v)[2])} ELSE {})   \* (a b) written as (a . b)
  \cup {Str(<<119>>), Kw(<<107>>), Char(120), Nil, IntV(FALSE, U64Max), IntV(TRUE, One), FltV(FALSE, <<1, 5>>, 0 - 1), Bytes(<<1>>), Bool(TRUE)}   \* wrong kinds
  \cup (IF v.k = "cons" /\ v.car.k = "sym" /\ IsProper(v.cdr) THEN {Cons(v.car, Vec(ListElems(v.cdr)))} ELSE {})

VARIABLES ti, x, v
vars == <<ti, x, v>>

NF == Len(Family)
Init == /\ ti \in 1..NF /\ x = AUnit /\ v = Nil
Next == /\ x = AUnit /\ v = Nil
        /\ IF Mode = "rt" THEN x' \in Inhab(Family[ti], 2) /\ v' = RefSer(Family[ti], x')
           ELSE x' = ANone /\ v' \in Values(MaxCells)
        /\ ti' = ti
Spec == Init /\ [][Next]_vars

Started == ~(x = AUnit /\ v = Nil)

RoundTrip == (Mode = "rt" /\ Started) => RefDe(Family[ti], v) = DOk(x)

\* checked once per type (in the state the type is introduced)
Injective ==
  (Mode = "rt" /\ ~Started) =>
    LET S == Inhab(Family[ti], 2) IN \A a, b \in S : RefSer(Family[ti], a) = RefSer(Family[ti], b) => a = b

Normalises ==
  (Mode = "any" /\ Started) =>
    LET r == RefDe(Family[ti], v) IN
    r.t = "ok" => RefDe(Family[ti], RefSer(Family[ti], r.x)) = DOk(r.x)

Emit ==
  Started =>
    IF Mode = "rt" THEN
      /\ PrintT(<<"REPLAY", ToJson([kind |-> "rt", ti |-> ti - 1, x |-> x, v |-> v])>>)
      /\ \A alt \in Alternatives(v) :
           PrintT(<<"REPLAY", ToJson([kind |-> "alt", ti |-> ti - 1, v |-> alt, exp |-> RefDe(Family[ti], alt)])>>)
    ELSE PrintT(<<"REPLAY", ToJson([kind |-> "any", ti |-> ti - 1, v |-> v, exp |-> RefDe(Family[ti], v)])>>)
=============================================================================
