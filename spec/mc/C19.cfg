SPECIFICATION Spec
INVARIANTS CorpusIsWellFormed TruncationIsNotMalformed Emit
