SPECIFICATION Spec
CONSTANTS MaxN = 6
 MaxD = 3
 CdrRecursive <- NoOps
INVARIANTS StackIndependentOfLength Emit
