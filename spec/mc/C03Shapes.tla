----------------------------- MODULE C03Shapes -----------------------------
(***************************************************************************)
(* C03, depth clause: pathological nesting shapes and what the documented  *)
(* limit demands of them.  A shape is a sequence of up to three segments   *)
(* <<opener, count>>: count repetitions of one nesting construct.  Nesting *)
(* of at most 100 levels must be accepted, nesting beyond the documented   *)
(* limit (128) must be rejected with an error - never a crash; in between  *)
(* either answer is fine.  The shapes are emitted for execution in child   *)
(* processes (a stack overflow is not a TLA+ state).                       *)
(***************************************************************************)
EXTENDS Naturals, Sequences, Json, TLC

CONSTANTS Counts, MaxSegs

Openers == {"paren", "bracket", "vector", "quote", "quasiquote", "unquote", "splice", "dotted"}
DocumentedLimit == 128
MustAccept == 100

VARIABLES segs, closed
vars == <<segs, closed>>

Segment == [op : Openers, n : Counts]

Init == segs \in UNION {[1..k -> Segment] : k \in 1..MaxSegs} /\ closed \in BOOLEAN
Next == UNCHANGED vars
Spec == Init /\ [][Next]_vars

RECURSIVE Total(_)
Total(s) == IF s = <<>> THEN 0 ELSE Head(s).n + Total(Tail(s))

Expected ==
  LET t == Total(segs) IN
  IF ~closed THEN "err"                      \* unterminated: EOF or the limit error
  ELSE IF t <= MustAccept THEN "ok"
  ELSE IF t > DocumentedLimit THEN "err"
  ELSE "either"

\* the specification of the limit is consistent: nothing is both required and forbidden
Consistent == MustAccept < DocumentedLimit

Emit == PrintT(<<"REPLAY", ToJson([segs |-> segs, closed |-> closed, total |-> Total(segs), expect |-> Expected])>>)
=============================================================================
