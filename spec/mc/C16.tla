------------------------------- MODULE C16 -------------------------------
EXTENDS StackModel, Json, TLC
NoOps == {}
AsFound == {"clone", "eq", "datum_clone", "datum_eq", "datum_drop"}
\* the matrix of cells to execute, emitted once
Emit == (op = "print" /\ n = 0 /\ d = 1 /\ high = 1 /\ Len(stack) = 1) =>
  \A o \in Ops, s \in Shapes, b \in Builders :
     PrintT(<<"REPLAY", ToJson([op |-> o, shape |-> s, builder |-> b])>>)
=============================================================================
