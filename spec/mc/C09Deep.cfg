SPECIFICATION Spec
CONSTANTS
  MinusFusion = TRUE
  ColonFusion = TRUE
  FuseAnyLiteral = FALSE
  DotAlways = FALSE
  Quick = FALSE
INVARIANTS DocConsistent AsBuilt SitesAreReal Emit
