SPECIFICATION Spec
CONSTANTS MaxLen = 4
 Elisp = FALSE
INVARIANTS TriviaInsensitive Emit
