------------------------------- MODULE C05 -------------------------------
(***************************************************************************)
(* C05 on the specification: the literal grammar                           *)
(*     [#b|#o|#d|#x][+|-]digits      [+|-]digits[.digits][(e|E)[+|-]digits] *)
(* is enumerated over every 64-bit boundary (computed with BigNat) in all  *)
(* four radixes, both signs, with leading zeros, and over decimal forms    *)
(* with fraction and/or exponent up to the overflow / underflow edges.     *)
(* Checked here: every literal of the grammar has exactly one denotation   *)
(* class, the integer classes partition [-2^63, 2^64-1], and the radix     *)
(* rendering used to build the literals inverts FromRadix.  Each literal   *)
(* is emitted with its denotation and required accuracy class; the harness *)
(* parses it with both feature configurations.                             *)
(***************************************************************************)
EXTENDS Naturals, Integers, Sequences, FiniteSets, NumLit, Json, TLC

CONSTANT Deep      \* TRUE: more magnitudes and decimal forms

Ks == IF Deep THEN {1, 7, 8, 15, 16, 31, 32, 52, 53, 62, 63, 64, 65, 70} ELSE {8, 32, 53, 63, 64, 65}
Magnitudes ==
  {Zero, One, <<2, 5, 5>>}
  \cup UNION {{Pred(Pow2(k)), Pow2(k), AddSmall(Pow2(k), 1)} : k \in Ks}
  \cup {Pow10(k) : k \in (IF Deep THEN {1, 15, 16, 19, 20, 22, 23, 30} ELSE {19, 20, 23})}
  \cup {[i \in 1..n |-> 9] : n \in (IF Deep THEN {19, 20, 21, 40, 120} ELSE {20, 40})}
  \cup {[i \in 1..n |-> 1 + ((i * 7) % 9)] : n \in (IF Deep THEN {25, 60} ELSE {25})}

DigitChar(v) == IF v < 10 THEN 48 + v ELSE 87 + v
UpperDigitChar(v) == IF v < 10 THEN 48 + v ELSE 55 + v
RadixText(m, r, upper) ==
  LET t == ToRadix(m, r) IN [i \in 1..Len(t) |-> IF upper THEN UpperDigitChar(t[i]) ELSE DigitChar(t[i])]

Prefixes == {[p |-> <<>>, r |-> 10], [p |-> <<HASH, 98>>, r |-> 2], [p |-> <<HASH, 111>>, r |-> 8],
             [p |-> <<HASH, 100>>, r |-> 10], [p |-> <<HASH, 120>>, r |-> 16]}
Signs == {<<>>, <<PLUS>>, <<MINUS>>}
Zeros == {<<>>, <<48>>, <<48, 48, 48>>}

IntegerLiterals ==
  {pf.p \o sg \o z \o RadixText(m, pf.r, up) : pf \in Prefixes, sg \in Signs, z \in Zeros, m \in Magnitudes, up \in {FALSE}}
  \cup {<<HASH, 120>> \o sg \o RadixText(m, 16, TRUE) : sg \in Signs, m \in Magnitudes}

\* decimal forms
Mantissas == {<<49>>, <<48>>, <<49, 50, 51>>, <<57, 48, 48, 55, 49, 57, 57, 50, 53, 52, 55, 52, 48, 57, 57, 50>>,     \* 9007199254740992
              <<57, 48, 48, 55, 49, 57, 57, 50, 53, 52, 55, 52, 48, 57, 57, 51>>,                                    \* ...993
              [i \in 1..15 |-> 49 + (i % 9)], [i \in 1..17 |-> 49 + (i % 9)], [i \in 1..19 |-> 57], [i \in 1..20 |-> 49 + (i % 9)],
              <<49, 55, 57, 55, 54, 57, 51, 49, 51, 52, 56, 54, 50, 51, 49, 53, 55>>,                                 \* 17976931348623157
              <<49, 55, 57, 55, 54, 57, 51, 49, 51, 52, 56, 54, 50, 51, 49, 53, 57>>,                                 \* ...159
              <<50, 50, 50, 53, 48, 55, 51, 56, 53, 56, 53, 48, 55, 50, 48, 49, 52>>,                                 \* 22250738585072014
              <<52, 57, 52, 48, 54, 53, 54, 52, 53, 56, 52, 49, 50, 52, 54, 53, 52>>}                                 \* 49406564584124654
\* the last two: more leading fraction zeros than the significand has decimal places (19 / 30 zeros before the first digit)
Fractions == {<<>>, <<DOT, 53>>, <<DOT, 48>>, <<DOT, 48, 48, 49>>, <<DOT, 50, 53, 48, 48>>,
              <<DOT>> \o [i \in 1..19 |-> 48] \o <<49>>, <<DOT>> \o [i \in 1..30 |-> 48] \o <<55, 53>>}
ExpVals == IF Deep THEN {0, 1, 15, 22, 23, 37, 291, 292, 293, 300, 307, 308, 309, 323, 324, 325, 400, 99999, 1000000007}
           ELSE {0, 1, 22, 23, 292, 308, 309, 324, 400, 99999}
RECURSIVE NatText(_)
NatText(n) == IF n < 10 THEN <<48 + n>> ELSE NatText(n \div 10) \o <<48 + (n % 10)>>
Exponents == {<<>>} \cup {<<mk>> \o sg \o NatText(x) : mk \in {101, 69}, sg \in {<<>>, <<PLUS>>, <<MINUS>>}, x \in ExpVals}

DecimalLiterals ==
  {sg \o m \o f \o e : sg \in Signs, m \in Mantissas, f \in Fractions, e \in Exponents}

VARIABLE lit
Init == lit \in IntegerLiterals \cup (IF Deep THEN DecimalLiterals ELSE {d \in DecimalLiterals : Len(d) % 3 = 0})
Next == UNCHANGED lit
Spec == Init /\ [][Next]_lit

IsRadixLit == Len(lit) >= 2 /\ lit[1] = HASH
Radix == CASE lit[2] = 98 -> 2 [] lit[2] = 111 -> 8 [] lit[2] = 100 -> 10 [] OTHER -> 16
Denotation == IF IsRadixLit THEN DenoteRadix(Rest(lit, 3), Radix) ELSE DenoteDecimal(lit)

\* every literal of the grammar is recognised and has exactly one class; the integer classes
\* partition [-2^63, 2^64 - 1]
Check(d) ==
  /\ (IsRadixLit => RadixShape(Rest(lit, 3), Radix).ok)
  /\ (~IsRadixLit => IsDecimalLiteral(lit))
  /\ d.t \in {"int", "big", "flt", "range", "edge"}
  /\ (d.t = "int" /\ ~d.neg => Leq(d.d, U64Max))
  /\ (d.t = "int" /\ d.neg => Leq(d.d, I64MaxPlus1) /\ d.d # Zero)
  /\ (d.t = "big" /\ ~d.neg => Lt(U64Max, d.d))
  /\ (d.t = "big" /\ d.neg => Lt(I64MaxPlus1, d.d))

\* rendering in a radix and reading back is the identity (self-check of the literal construction)
RadixInverse == \A m \in {Pow2(64), U64Max, <<2, 5, 5>>} : \A r \in {2, 8, 10, 16} : FromRadix(ToRadix(m, r), r) = m
ASSUME RadixInverse

TotalAndPartitioned ==
  LET d == Denotation IN
  /\ Check(d)
  /\ PrintT(<<"REPLAY", ToJson([lit |-> lit, den |-> d, cfast |-> IF IsRadixLit THEN d.t ELSE ClassOfDecimal(lit, TRUE),
                                 cslow |-> IF IsRadixLit THEN d.t ELSE ClassOfDecimal(lit, FALSE)])>>)
=============================================================================
