------------------------------- MODULE C09 -------------------------------
(***************************************************************************)
(* C09 on the specification.  Programs of the documented sexp! syntax are  *)
(* enumerated from the lexeme pools of MacroCorpus by family:              *)
(*   atom     every atom at top level                                      *)
(*   list     (a b c) over the small pool, 0 to 3 elements                 *)
(*   dotted   (a . t) and (a b . t), t over MacroTails (atoms, symbols,    *)
(*            unquotes, lists and dotted lists that merge into the chain)  *)
(*   vec      #(a b)                                                       *)
(*   adj      every atom next to every probe, in both orders, in a list    *)
(*            and in a vector (what the token stream can confuse)          *)
(*   nest     composites inside composites, depth up to 4                  *)
(* For each program TLC checks                                             *)
(*   DocConsistent  the reference reader reads Render(p) as ValueOf(p)     *)
(*   AsBuilt        the token-level macro grammar gives ValueOf(p) except  *)
(*                  where the source separates a lone - or : from a        *)
(*                  following literal or name (FusionSites)                *)
(* and emits the program for the generated crate.                          *)
(***************************************************************************)
EXTENDS Naturals, Integers, Sequences, FiniteSets, RefRead, MacroCorpus, Json, TLC

CONSTANTS MinusFusion, ColonFusion, FuseAnyLiteral, RawStringNames, DotAlways, Quick

M == INSTANCE MacroModel

VARIABLES fam, ix
vars == <<fam, ix>>

S == IF Quick THEN MacroSmallQ ELSE MacroSmall
NS == Len(S)
NoTail == [t |-> "none"]
LIST(es, tail) == [t |-> "list", es |-> es, tail |-> tail]
VEC(es) == [t |-> "vec", es |-> es]

Pick(idx) == [n \in 1..Len(idx) |-> S[idx[n]]]

Families == {"atom", "list", "dotted", "vec", "adj", "nest"}

Indices(f) ==
  CASE f = "atom" -> {<<i>> : i \in 1..Len(MacroAtoms)}
    [] f = "list" -> {<<>>} \cup {<<i>> : i \in 1..NS} \cup {<<i, j>> : i, j \in 1..NS} \cup {<<i, j, k>> : i, j, k \in 1..NS}
    [] f = "dotted" -> {<<t, i>> : t \in 1..Len(MacroTails), i \in 1..NS}
                       \cup {<<t, i, j>> : t \in 1..Len(MacroTails), i \in 1..NS, j \in 1..(IF Quick THEN 3 ELSE NS)}
    [] f = "vec" -> {<<>>} \cup {<<i>> : i \in 1..NS} \cup {<<i, j>> : i, j \in 1..NS}
    [] f = "adj" -> {<<a, b, o, c>> : a \in 1..Len(MacroAtoms), b \in 1..(IF Quick THEN 6 ELSE Len(MacroProbes)),
                                     o \in 1..2, c \in 1..(IF Quick THEN 1 ELSE 2)}
    [] OTHER -> {<<c, a, sh>> : c \in 1..Len(MacroComposites), a \in 1..NS, sh \in 1..7}

Program(f, x) ==
  CASE f = "atom" -> MacroAtoms[x[1]]
    [] f = "list" -> LIST(Pick(x), NoTail)
    [] f = "dotted" -> LIST(Pick(Tail(x)), MacroTails[x[1]])
    [] f = "vec" -> VEC(Pick(x))
    [] f = "adj" -> LET a == MacroAtoms[x[1]]  b == MacroProbes[x[2]]
                        es == IF x[3] = 1 THEN <<a, b>> ELSE <<b, a>>
                    IN IF x[4] = 1 THEN LIST(es, NoTail) ELSE VEC(es)
    [] OTHER -> LET c == MacroComposites[x[1]]  a == S[x[2]] IN
                CASE x[3] = 1 -> LIST(<<c, a>>, NoTail)
                  [] x[3] = 2 -> LIST(<<a, c>>, NoTail)
                  [] x[3] = 3 -> LIST(<<a>>, c)
                  [] x[3] = 4 -> VEC(<<c, a>>)
                  [] x[3] = 5 -> LIST(<<LIST(<<c>>, NoTail), a, c>>, NoTail)
                  [] x[3] = 6 -> LIST(<<a, LIST(<<a, c>>, NoTail)>>, c)
                  [] OTHER -> VEC(<<a, VEC(<<c, LIST(<<a>>, LIST(<<c>>, a))>>)>>)

Init == fam = "none" /\ ix = <<>>
Next == fam = "none" /\ fam' \in Families /\ ix' \in Indices(fam')
Spec == Init /\ [][Next]_vars

P == Program(fam, ix)

DocConsistent ==
  fam # "none" =>
    LET r == ReadOne(M!Render(P), DefaultParse) IN
    (r.t = "ok" /\ r.v = M!ValueOf(P)) \/ PrintT(<<"NOTE", "reference reader disagrees with the documented value", fam, ix, r>>)

Agrees(p) == LET m == M!MacroRead(p) IN m.t = "ok" /\ m.v = M!ValueOf(p)

AsBuilt ==
  fam # "none" =>
    (Agrees(P) \/ M!FusionSites(P) # {} \/ PrintT(<<"NOTE", "macro grammar departs from the documented value", fam, ix, M!MacroRead(P)>>))

\* every fusion site really is one: the as-built grammar misreads the program (so findings are not over-claimed)
SitesAreReal ==
  (fam # "none" /\ M!FusionSites(P) # {} /\ (MinusFusion /\ ColonFusion)) => ~Agrees(P)

\* with a lexer that reports spacing faithfully the grammar is exactly the documented one
Ideal == fam # "none" => Agrees(P)
\* the same statement as AsBuilt, as a hard invariant (for the as-found configuration: TLC must find the "..." programs)
AsBuiltStrict == fam # "none" => (Agrees(P) \/ M!FusionSites(P) # {})

Emit ==
  fam # "none" =>
    PrintT(<<"REPLAY", ToJson([fam |-> fam, ix |-> ix, p |-> P, src |-> M!Source(P), text |-> M!Render(P),
                                exp |-> M!ValueOf(P), pred |-> M!MacroRead(P),
                                sites |-> Cardinality(M!FusionSites(P))])>>)
=============================================================================
