SPECIFICATION Spec
CONSTANTS Mode = "any"
 MaxCells = 1
INVARIANTS Normalises Emit
