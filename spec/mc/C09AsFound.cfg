SPECIFICATION Spec
CONSTANTS
  MinusFusion = TRUE
  ColonFusion = TRUE
  FuseAnyLiteral = TRUE
  DotAlways = TRUE
  Quick = TRUE
INVARIANTS AsBuiltStrict
