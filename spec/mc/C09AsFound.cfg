SPECIFICATION Spec
CONSTANTS
  MinusFusion = TRUE
  ColonFusion = TRUE
  FuseAnyLiteral = TRUE
  RawStringNames = TRUE
  DotAlways = TRUE
  Quick = TRUE
INVARIANTS AsBuiltStrict
