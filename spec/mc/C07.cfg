SPECIFICATION Spec
CONSTANTS
  MaxN = 4
  MaxCalls = 5
  WriteAllEverywhere = TRUE
INVARIANTS TypeOK DeliveredIsPrefix OkMeansComplete FaultSurfaces BufferStartsAtCut Emit
