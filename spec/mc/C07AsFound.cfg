SPECIFICATION Spec
CONSTANTS
  MaxN = 3
  MaxCalls = 4
  WriteAllEverywhere = FALSE
INVARIANTS TypeOK DeliveredIsPrefix OkMeansComplete FaultSurfaces
