SPECIFICATION Spec
INVARIANTS TriviaInsensitive Emit
