SPECIFICATION Spec
CONSTANTS
  MinusFusion = TRUE
  ColonFusion = TRUE
  FuseAnyLiteral = FALSE
  RawStringNames = TRUE
  DotAlways = FALSE
  Quick = TRUE
INVARIANTS DocConsistent AsBuilt SitesAreReal Emit
