SPECIFICATION Spec
CONSTANTS
  MinusFusion = TRUE
  ColonFusion = TRUE
  FuseAnyLiteral = FALSE
  DotAlways = FALSE
  Quick = TRUE
INVARIANTS DocConsistent AsBuilt SitesAreReal Emit
