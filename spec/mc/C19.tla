------------------------------- MODULE C19 -------------------------------
(***************************************************************************)
(* C19 on the specification (truncation clause): for every well-formed     *)
(* single-datum text of the corpus - every token kind, both dialects - and *)
(* every proper byte prefix, the documented reader either still reads a    *)
(* datum or answers "incomplete" (the EOF category); it never calls a      *)
(* truncation malformed.  The texts are emitted for replay: the            *)
(* implementation must classify the failure of every proper prefix as EOF. *)
(***************************************************************************)
EXTENDS Naturals, Sequences, RefRead, Corpus, Json, TLC

VARIABLES t, ro, k        \* text index, options, prefix length (k = Len means the whole text)
vars == <<t, ro, k>>

OptionsFor(i) ==
  CASE DatumDialect[i] = "d" -> {DefaultParse}
    [] DatumDialect[i] = "e" -> {ElispParse}
    [] OTHER -> {DefaultParse, ElispParse}

Init == t \in 1..Len(DatumTexts) /\ ro \in OptionsFor(t) /\ k = Len(DatumTexts[t])
Next == k = Len(DatumTexts[t]) /\ k' \in 0..(k - 1) /\ UNCHANGED <<t, ro>>
Spec == Init /\ [][Next]_vars

Text == DatumTexts[t]
Outcome == ReadOne(SubSeq(Text, 1, k), ro)

\* the corpus texts themselves are well-formed single data according to the reference
CorpusIsWellFormed == k = Len(Text) => Outcome.t \in {"ok", "unspec"}

\* no proper prefix is "malformed"
TruncationIsNotMalformed ==
  k < Len(Text) => (Outcome.t \in {"ok", "inc", "unspec"}
                    \/ PrintT(<<"NOTE", "prefix called malformed", SubSeq(Text, 1, k), Outcome.t>>))

Emit == k = Len(Text) => PrintT(<<"REPLAY", ToJson([text |-> Text, ro |-> ro])>>)
=============================================================================
