SPECIFICATION Spec
CONSTANTS
  Groups = 32
  Big = TRUE
INVARIANTS NonInterference Emit
