SPECIFICATION Spec
CONSTANTS
  Data <- AllData
  MaxIntr = 2
  PositionBeforePeek = TRUE
INVARIANTS SameCursor SameByte SamePosition NoSkip FaultOnlyWhenReached FaultSurfaces
