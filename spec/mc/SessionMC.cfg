SPECIFICATION Spec
CONSTANTS
  Limit = 3
  QuoteCharged = TRUE
  RefundOnLimitError = TRUE
  ErrorsMakeProgress = TRUE
  MaxLen = 5
  Alphabet = {"open", "obr", "vopen", "quote", "dot", "close", "cbr", "atom", "junk"}
  EmitInputs = TRUE
INVARIANTS TypeOK BoundedRecursion BudgetRestored Emit
PROPERTY ItemsConsume
