SPECIFICATION Spec
CONSTANT Deep = FALSE
INVARIANTS TotalAndPartitioned
