SPECIFICATION Spec
CONSTANTS
  MinusFusion = FALSE
  ColonFusion = FALSE
  FuseAnyLiteral = FALSE
  RawStringNames = FALSE
  DotAlways = FALSE
  Quick = TRUE
INVARIANTS DocConsistent Ideal
