SPECIFICATION Spec
CONSTANT MaxLen = 3
INVARIANTS ModelConsistent Emit
