------------------------------- MODULE C12 -------------------------------
(***************************************************************************)
(* C12 on the specification (concatenation and trivia insensitivity): the  *)
(* printed forms of up to MaxVals values, with any trivia string of the    *)
(* table before, between and after them, read back as exactly those values *)
(* followed by end of input - in both dialects.  (The termination clause   *)
(* is a liveness property of the session machine: SessionMC / SessionLive.)*)
(* The value and trivia tables are emitted; the harness builds the same    *)
(* texts and runs them through the four ways of iterating a parser.        *)
(***************************************************************************)
EXTENDS Naturals, Sequences, ValGen, RefRead, RefPrint, Json, TLC

CONSTANT MaxVals

\* whitespace (space, tab, CR, LF, form feed) and line comments, alone and mixed
Trivia == << <<SP>>, <<TAB>>, <<CR>>, <<LF>>, <<FF>>, <<SEMI, 99, LF>>, <<CR, LF, SP, SP>>, <<SP, SEMI, 40, 34, LF, FF, TAB>>, <<SEMI, 120, CR, 121, LF>> >>
\* what may follow the last value: nothing, trivia, or a final comment without newline
Final == << <<>>, <<SP>>, <<LF>>, <<FF>>, <<SEMI, 101, 110, 100>>, <<SP, SEMI>> >>
\* what may precede the first value
Lead == << <<>>, <<SP>>, <<FF, LF>>, <<SEMI, 99, LF>> >>

Values ==
  << Sym(<<102, 111, 111>>), IntV(TRUE, <<4, 2>>), FltV(FALSE, <<1, 5>>, -1), Str(<<97, 32, 59, 98>>), Char(59), Char(32),
     List(<<Sym(<<97>>), IntV(FALSE, One)>>), Vec(<<Sym(<<43>>)>>), Kw(<<107>>), Bytes(<<1, 2>>), Null, Bool(TRUE),
     ListWithTail(<<Sym(<<97>>)>>, Sym(<<98>>)), Sym(<<46, 46, 46>>), Char(955), Sym(<<955>>) >>

Dialects == << [po |-> DefaultPrint, ro |-> DefaultParse], [po |-> ElispPrint, ro |-> ElispParse] >>

VARIABLES vs, tr, dl      \* value indices, trivia indices (lead, between.., final), dialect
vars == <<vs, tr, dl>>

Init == /\ dl \in 1..2
        /\ vs \in UNION {[1..n -> 1..Len(Values)] : n \in 0..1}
        /\ tr = <<>>
Next == /\ tr = <<>>
        /\ \E more \in UNION {[1..n -> 1..Len(Values)] : n \in 0..(MaxVals - 1)} :
             /\ vs' = vs \o more
             /\ \E a \in 1..Len(Lead), z \in 1..Len(Final), mid \in [1..(Len(vs') - 1) -> 1..Len(Trivia)] :
                  tr' = <<a>> \o (IF Len(vs') > 1 THEN mid ELSE <<>>) \o <<z>>
        /\ dl' = dl
Spec == Init /\ [][Next]_vars

D == Dialects[dl]
RECURSIVE Build(_, _)
\* text of values k.. with their separators: tr[1] = lead, tr[k+1] = after value k (final for the last)
Build(k, n) ==
  IF k > n THEN <<>>
  ELSE PrintDatum(Values[vs[k]], D.po) \o (IF k = n THEN Final[tr[n + 1]] ELSE Trivia[tr[k + 1]]) \o Build(k + 1, n)
Text == Lead[tr[1]] \o Build(1, Len(vs))

Expected == [k \in 1..Len(vs) |-> Fold(Values[vs[k]], D.po, D.ro)]

Concatenation ==
  tr # <<>> =>
    LET r == ReadAll(Text, D.ro) IN
    (r.t = "ok" /\ r.vs = Expected) \/ PrintT(<<"NOTE", "concatenation misread", Text, r>>)

Emit == (vs = <<>> /\ tr = <<>> /\ dl = 1) =>
  PrintT(<<"REPLAY", ToJson([values |-> Values, trivia |-> Trivia, final |-> Final, lead |-> Lead, maxvals |-> MaxVals,
                            dialects |-> Dialects])>>)
=============================================================================
