------------------------------- MODULE C08 -------------------------------
(***************************************************************************)
(* C08 on the specification: each parser option governs exactly the tokens *)
(* it names.  For every input (token of the corpus in a syntactic context) *)
(* the reference reader is evaluated under all 1536 option sets; the       *)
(* outcome may depend only on the option dimensions the input exercises    *)
(* (non-interference).  The outcomes, one per value combination of the     *)
(* exercised dimensions, are emitted as expected results for the replay    *)
(* against the implementation.                                             *)
(***************************************************************************)
EXTENDS Naturals, Sequences, FiniteSets, RefRead, Corpus, Json, TLC

CONSTANTS Groups,       \* number of work groups (parallelism only)
          Big           \* TRUE: the corpus plus 500 spliced tokens (thorough tier)

Tokens == IF Big THEN TokenCorpusBig ELSE TokenCorpus

VARIABLES grp, tok, ctx
vars == <<grp, tok, ctx>>

NTok == Len(Tokens)
NCtx == Len(ContextPrefix)

Input(t, c) == ContextPrefix[c] \o Tokens[t] \o ContextSuffix[c]

\* every token in every context: bracketed and parenthesised forms also as the tail after a pair dot ("(x . [a])"),
\* inside vectors and inside brackets
CtxFor(t) == 1..NCtx

(***************************************************************************)
(* The option dimensions an input exercises (C08: "options an input does   *)
(* not exercise").                                                         *)
(***************************************************************************)
Dims == {"kw1", "kw2", "kw3", "nil", "t", "br", "str", "chr", "racket", "digits"}

Contains(bs, b) == \E i \in DOMAIN bs : bs[i] = b

\* bare pieces of a token: the token itself and, for quote shorthands and brackets, what is inside
Strip(tk) ==
  LET a == SelectSeq(tk, LAMBDA b : b \notin {SQ, BQ, COMMA, AT, LP, RP, LB, RB}) IN a

TokDims(tk) ==
  LET n == Len(tk)
      core == Strip(tk)
      m == Len(core)
  IN  (IF n >= 2 /\ tk[1] = HASH /\ tk[2] = COLON THEN {"kw1"} ELSE {})
 \cup (IF m >= 1 /\ core[1] = COLON THEN {"kw2"} ELSE {})
 \cup (IF m >= 1 /\ core[m] = COLON THEN {"kw3"} ELSE {})
 \cup (IF Contains(tk, 110) /\ \E i \in 1..(n - 2) : SubSeq(tk, i, i + 2) = NilName THEN {"nil"} ELSE {})
 \cup (IF core = TName \/ (m >= 1 /\ core[m] = 116 /\ Contains(tk, COLON)) \/ (m >= 1 /\ core[1] = 116 /\ Contains(tk, COLON)) THEN {"t"} ELSE {})
 \cup (IF Contains(tk, LB) \/ Contains(tk, RB) THEN {"br"} ELSE {})
 \cup (IF Contains(tk, DQ) THEN {"str"} ELSE {})
 \cup (IF Contains(tk, QM) THEN {"chr"} ELSE {})
 \cup (IF n >= 2 /\ tk[1] = HASH /\ tk[2] = PCT THEN {"racket"} ELSE {})
 \cup (IF m >= 1 /\ IsDigit(core[1]) THEN {"digits"} ELSE {})

Exercised(t, c) == TokDims(Tokens[t]) \cup (IF c = 6 THEN {"br"} ELSE {})

\* projection of an option record onto a set of dimensions
Proj(ro, ds) ==
  [d \in ds |-> CASE d = "kw1" -> ro.kw[1] [] d = "kw2" -> ro.kw[2] [] d = "kw3" -> ro.kw[3]
                  [] d = "nil" -> ro.nil [] d = "t" -> ro.t [] d = "br" -> ro.br [] d = "str" -> ro.str
                  [] d = "chr" -> ro.chr [] d = "racket" -> ro.racket [] OTHER -> ro.digits]

\* outcome of reading the whole input, reduced to what the replay compares
Outcome(bs, ro) ==
  LET r == ReadOne(bs, ro) IN
  IF r.t = "ok" THEN [t |-> "ok", v |-> r.v] ELSE [t |-> r.t]

Init == grp \in 1..Groups /\ tok = 0 /\ ctx = 0
Next == /\ tok = 0
        /\ tok' \in {t \in 1..NTok : t % Groups = grp % Groups}
        /\ ctx' \in CtxFor(tok')
        /\ grp' = grp
Spec == Init /\ [][Next]_vars

\* two option sets that agree on the exercised dimensions give the same outcome
NonInterference ==
  tok > 0 =>
    LET bs == Input(tok, ctx)
        ds == Exercised(tok, ctx)
        out == [ro \in ParseOptionSets |-> Outcome(bs, ro)]
    IN \A p \in {Proj(ro, ds) : ro \in ParseOptionSets} :
         LET cls == {ro \in ParseOptionSets : Proj(ro, ds) = p}
             o1 == out[CHOOSE ro \in cls : TRUE]
         IN \A ro \in cls : out[ro] = o1 \/ PrintT(<<"NOTE", "interference", bs, ro, out[ro], o1>>)

\* one expected outcome per value combination of the exercised dimensions
Emit ==
  tok > 0 =>
    LET bs == Input(tok, ctx)
        ds == Exercised(tok, ctx)
    IN \A p \in {Proj(ro, ds) : ro \in ParseOptionSets} :
         LET ro == CHOOSE r \in ParseOptionSets : Proj(r, ds) = p IN
         PrintT(<<"REPLAY", ToJson([text |-> bs, tok |-> tok, ctx |-> ctx, dims |-> ds, proj |-> p,
                                   exp |-> Outcome(bs, ro)])>>)
=============================================================================
