---------------------------- MODULE C12Spaced ----------------------------
(***************************************************************************)
(* C12, trivia between the tokens INSIDE a datum: for every value of a     *)
(* pool of nested shapes, every trivia string and both dialects, the text  *)
(* with that trivia at every token boundary reads as the same value        *)
(* (reference reader), and is emitted for replay through the four ways of  *)
(* iterating.  Trivia must contain at least one delimiter, since two atoms *)
(* need one between them.                                                  *)
(***************************************************************************)
EXTENDS Naturals, Integers, Sequences, FiniteSets, RefRead, RefPrint, Json, TLC

Trivia == << <<SP>>, <<TAB>>, <<CR>>, <<LF>>, <<FF>>, <<SP, SP>>, <<SEMI, 99, LF>>, <<CR, LF, SP, SP>>, <<SP, SEMI, 40, 34, LF, FF, TAB>>,
             <<SEMI, 120, CR, 121, LF>>, <<LF, SEMI, SEMI, LF, LF>> >>

A == Sym(<<97>>)
B == Sym(<<98>>)
Pool == <<
  List(<<A, B>>), ListWithTail(<<A>>, B), ListWithTail(<<A, IntV(FALSE, One)>>, Str(<<115>>)), List(<<List(<<A>>), Null, Vec(<<>>)>>),
  Vec(<<A, List(<<B>>), Bytes(<<1, 2>>)>>), Bytes(<<0, 255>>), Bytes(<<>>), Null, Vec(<<>>),
  ListWithTail(<<A>>, List(<<B, A>>)), ListWithTail(<<A>>, Vec(<<B>>)), List(<<Sym(<<113, 117, 111, 116, 101>>), A>>),
  List(<<Kw(<<107>>), Char(40), Char(59), Str(<<59, 40>>), FltV(TRUE, <<1, 5>>, -1), Sym(<<46, 46, 46>>)>>),
  ListWithTail(<<Cons(A, B)>>, Cons(A, B)), Vec(<<Cons(A, IntV(TRUE, <<7>>))>>), List(<<Bool(TRUE), Nil, Sym(<<955>>)>>) >>

Dialects == << [po |-> DefaultPrint, ro |-> DefaultParse], [po |-> ElispPrint, ro |-> ElispParse],
               [po |-> [DefaultPrint EXCEPT !.vec = "br", !.bytes = "r6rs"], ro |-> [DefaultParse EXCEPT !.br = "vec"]] >>

VARIABLES vi, ti, di
vars == <<vi, ti, di>>
Init == vi \in DOMAIN Pool /\ ti \in DOMAIN Trivia /\ di \in DOMAIN Dialects
Next == UNCHANGED vars
Spec == Init /\ [][Next]_vars

D == Dialects[di]
Text == PrintSpaced(Pool[vi], D.po, Trivia[ti])
Expected == Fold(Pool[vi], D.po, D.ro)

TriviaInsensitive ==
  LET r == ReadOne(Text, D.ro) IN
  (r.t = "ok" /\ r.v = Expected) \/ PrintT(<<"NOTE", "spaced text misread", vi, ti, di, r.t>>)

Emit == PrintT(<<"REPLAY", ToJson([text |-> Text, ro |-> D.ro, exp |-> Expected])>>)
=============================================================================
