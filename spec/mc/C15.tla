------------------------------- MODULE C15 -------------------------------
(***************************************************************************)
(* C15 on the specification: for every element sequence xs and tail t of   *)
(* the bounded universe the list model (ListOps) is self-consistent -      *)
(* Build merges list tails, the element-iterator machine driven from its   *)
(* initial state yields xs and then (for a non-null tail) None, t, None,   *)
(* positional indexing agrees with the element sequence - and the expected *)
(* result of every accessor is emitted for replay on the real types.       *)
(***************************************************************************)
EXTENDS Naturals, Integers, Sequences, FiniteSets, ListOps, Json, TLC

CONSTANT MaxLen

Elems == {Nil, Null, Bool(TRUE), IntV(FALSE, <<7>>), FltV(FALSE, <<1, 5>>, -1), Char(97), Str(<<97>>), Sym(<<97>>), Kw(<<97>>),
          Bytes(<<1>>), Vec(<<Sym(<<98>>)>>), List(<<Sym(<<99>>)>>), Cons(Sym(<<97>>), IntV(FALSE, <<1>>))}
Tails == {Null, Nil, Bool(FALSE), IntV(FALSE, <<9>>), Char(98), Str(<<>>), Sym(<<116>>), Kw(<<107>>), Bytes(<<>>), Vec(<<>>), Vec(<<Sym(<<118>>), Sym(<<119>>)>>), Bytes(<<1, 2>>), Str(<<115, 116>>),
          List(<<Sym(<<120>>), Sym(<<121>>)>>), ListWithTail(<<Sym(<<120>>)>>, Sym(<<122>>))}
\* association lists: entries with the three name kinds, duplicates, non-pair entries, improper tail
Keys == {Sym(<<97>>), Str(<<97>>), Kw(<<97>>), Sym(<<98>>), IntV(FALSE, <<1>>)}
Entries == {Cons(k, v) : k \in Keys, v \in {IntV(FALSE, <<1>>), Null}} \cup {Sym(<<97>>), Null, List(<<Sym(<<97>>)>>)}

VARIABLES mode, xs, t
vars == <<mode, xs, t>>

Seqs(S, n) == UNION {[1..k -> S] : k \in 0..n}

Init ==
  \/ (mode = "list" /\ xs \in Seqs(Elems, 1) /\ t \in Tails)
  \/ (mode = "alist" /\ xs \in Seqs(Entries, 1) /\ t \in {Null, Sym(<<116>>)})
Next ==
  /\ Len(xs) <= 1 /\ mode' = mode /\ t' = t
  /\ \E more \in UNION {[1..k -> IF mode = "list" THEN Elems ELSE Entries] : k \in 1..(MaxLen - 1)} : xs' = xs \o more
Spec == Init /\ [][Next]_vars

V == Build(xs, t)

\* drive the iterator machine n steps from state st, collecting what it yields
RECURSIVE Drive(_, _, _)
Drive(v, st, n) == IF n = 0 THEN <<>> ELSE LET r == LINext(v, st) IN <<r[1]>> \o Drive(v, r[2], n - 1)

ModelConsistent ==
  /\ BuildMerges(xs, t)
  /\ LET ya == YieldAll(V) IN
     V.k = "cons" => /\ SubSeq(Drive(V, LIInit(V), Len(ya) + 2), 1, Len(ya)) = ya
                     /\ Drive(V, LIInit(V), Len(ya) + 3)[Len(ya) + 1] = None
                     /\ Drive(V, LIInit(V), Len(ya) + 3)[Len(ya) + 3] = None
  /\ \A i \in 0..(MaxLen + 3) : Nth(V, i) = (IF V.k = "cons" /\ i < Len(Cars(V)) THEN Cars(V)[i + 1]
                                              ELSE IF V.k = "vec" /\ i < Len(V.e) THEN V.e[i + 1] ELSE None)
  /\ IsProperList(V) = ~IsDottedList(V)

Indices == 0..6
Names == {<<97>>, <<98>>, <<122, 122>>}

Emit ==
  PrintT(<<"REPLAY", ToJson(
    [mode |-> mode, xs |-> xs, t |-> t, v |-> V,
     cars |-> Cars(V), tail |-> TailOf(V),
     proper |-> IsProperList(V), dotted |-> IsDottedList(V),
     yield |-> YieldAll(V),
     nth |-> [i \in 1..7 |-> Nth(V, i - 1)], nthmax |-> Nth(V, 1000000),
     byname |-> [n \in 1..3 |-> AssocByName(V, CASE n = 1 -> <<97>> [] n = 2 -> <<98>> [] OTHER -> <<122, 122>>)],
     byvalue |-> [n \in 1..3 |-> AssocByValue(V, CASE n = 1 -> Sym(<<97>>) [] n = 2 -> Str(<<97>>) [] OTHER -> IntV(FALSE, <<1>>))]])>>)
=============================================================================
