----------------------------- MODULE SessionMC -----------------------------
(***************************************************************************)
(* Model checking of the session machine (C03 depth clause, C12 iteration  *)
(* termination, C10 single reader) over all token sequences up to MaxLen   *)
(* and all call histories, and emission of the token sequences for replay  *)
(* against the real parser (with its budget set to Limit by the hook).     *)
(***************************************************************************)
EXTENDS Session, Json, TLC

CONSTANTS MaxLen, Alphabet, EmitInputs

AllInputs == UNION {[1..n -> Alphabet] : n \in 0..MaxLen}

Init == /\ toks \in AllInputs /\ off = 0 /\ depth = Limit /\ last = "-" /\ high = 0

\* a caller keeps calling; after the end of input has been reported nothing changes any more
Next == \/ (last # "none" /\ ReadCall)
        \/ (last \notin {"end-ok", "end-err"} /\ ExpectEnd)

Spec == Init /\ [][Next]_vars
\* the iterating caller: weak fairness of "call again"
IterSpec == Init /\ [][last # "none" /\ ReadCall]_vars /\ WF_vars(last # "none" /\ ReadCall)

\* C12: iteration over a finite input terminates
Terminates == <>(last = "none")

Emit == (EmitInputs /\ last = "-") => PrintT(<<"REPLAY", ToJson([toks |-> toks, limit |-> Limit])>>)
=============================================================================
