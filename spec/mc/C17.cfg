SPECIFICATION Spec
INVARIANTS IllFormedOnlyWhereAllowed Emit
