------------------------------- MODULE ListOps -------------------------------
(***************************************************************************)
(* Lists as chains of cons cells (C15, C10): a list value is determined by *)
(* its element sequence xs and its tail t (the first cdr that is not a     *)
(* cons cell).  Reference results of every accessor, and the iterator      *)
(* machines with their real state names.                                   *)
(***************************************************************************)
EXTENDS Naturals, Integers, Sequences, Sexp

\* element sequence and tail of a value (for a non-cons value: no elements, the value itself)
RECURSIVE Cars(_), TailOf(_)
Cars(v) == IF v.k = "cons" THEN <<v.car>> \o Cars(v.cdr) ELSE <<>>
TailOf(v) == IF v.k = "cons" THEN TailOf(v.cdr) ELSE v

Build(xs, t) == ListWithTail(xs, t)

\* Build merges a list tail into the chain
BuildMerges(xs, t) == Cars(Build(xs, t)) = xs \o Cars(t) /\ TailOf(Build(xs, t)) = TailOf(t)

IsProperList(v) == v.k = "null" \/ (v.k = "cons" /\ TailOf(v).k = "null")
\* the documentation counts every value that is not a proper list as dotted
IsDottedList(v) == ~IsProperList(v)

None == [k |-> "-"]

(***************************************************************************)
(* cons::ListIter - states Cons(i) (about to yield element i), Dot, Rest,  *)
(* Exhausted - as a function of the chain (xs, t).                         *)
(***************************************************************************)
LIInit(v) == IF v.k = "cons" THEN [s |-> "cons", i |-> 1] ELSE [s |-> "exhausted", i |-> 0]

LINext(v, st) ==      \* <<yielded item or None, next state>>
  LET xs == Cars(v) t == TailOf(v) IN
  CASE st.s = "cons" ->
         <<xs[st.i],
           IF st.i < Len(xs) THEN [s |-> "cons", i |-> st.i + 1]
           ELSE IF t.k = "null" THEN [s |-> "exhausted", i |-> 0]
           ELSE [s |-> "dot", i |-> 0]>>
    [] st.s = "dot" -> <<None, [s |-> "rest", i |-> 0]>>
    [] st.s = "rest" -> <<t, [s |-> "exhausted", i |-> 0]>>
    [] OTHER -> <<None, st>>

LIPeek(v, st) ==
  CASE st.s = "cons" -> Cars(v)[st.i]
    [] st.s = "rest" -> TailOf(v)
    [] OTHER -> None

LIIsEmpty(st) == st.s = "exhausted"

\* everything the element iterator yields when driven to exhaustion (None marks the dot)
YieldAll(v) ==
  LET xs == Cars(v) t == TailOf(v) IN
  IF v.k # "cons" THEN <<>>
  ELSE IF t.k = "null" THEN xs ELSE xs \o <<None, t>>

\* positional indexing
\* (a vector is indexed by position as well; a list never continues into a vector that is its tail)
Nth(v, i) ==
  LET xs == Cars(v) IN
  IF v.k = "cons" /\ i < Len(xs) THEN xs[i + 1]
  ELSE IF v.k = "vec" /\ i < Len(v.e) THEN v.e[i + 1]
  ELSE None

\* association list lookup: the cdr of the first entry that is a pair whose car matches
FirstIn(S) == CHOOSE i \in S : \A j \in S : i <= j
AssocAt(xs, S) == IF S = {} THEN None ELSE xs[FirstIn(S)].cdr

\* by name: keys that are strings, symbols or keywords with that name
AssocByName(v, name) ==
  IF v.k # "cons" THEN None
  ELSE LET xs == Cars(v) IN
       AssocAt(xs, {i \in DOMAIN xs : xs[i].k = "cons" /\ xs[i].car.k \in {"str", "sym", "kw"} /\ xs[i].car.s = name})
AssocByValue(v, key) ==
  IF v.k # "cons" THEN None
  ELSE LET xs == Cars(v) IN AssocAt(xs, {i \in DOMAIN xs : xs[i].k = "cons" /\ xs[i].car = key})
=============================================================================
