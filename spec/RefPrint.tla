------------------------------ MODULE RefPrint ------------------------------
(***************************************************************************)
(* The documented printer (DESIGN.md section 3.4): the text the            *)
(* documentation promises for a value under each of the 576 printer option *)
(* sets.  It is used on the model level (round trip with RefRead for every *)
(* compatible pairing) and as a source of documented-form texts for the    *)
(* implementation's parser; it is never compared with the implementation's *)
(* printed text (the properties only fix what the text reads back as).     *)
(* Floats are written as <digits>e<exponent>, one of the forms of the      *)
(* decimal grammar; the implementation uses the shortest form of ryu.      *)
(***************************************************************************)
EXTENDS Naturals, Integers, Sequences, Text, BigNat, Sexp

DigitChars(d) == [i \in 1..Len(d) |-> 48 + d[i]]

RECURSIVE HexDigitsRev(_, _)
HexDigitsRev(n, upper) ==
  LET h == n % 16
      c == IF h < 10 THEN 48 + h ELSE (IF upper THEN 55 ELSE 87) + h
  IN IF n < 16 THEN <<c>> ELSE <<c>> \o HexDigitsRev(n \div 16, upper)
HexLower(n) == Reverse(HexDigitsRev(n, FALSE))
Hex2Upper(n) == LET h == Reverse(HexDigitsRev(n, TRUE)) IN IF Len(h) = 1 THEN <<48>> \o h ELSE h

IntText(neg, mag) == (IF neg THEN <<MINUS>> ELSE <<>>) \o DigitChars(OfNat(mag))

PrintNum(n) ==
  \* "big" (an out-of-range integer literal, denoting a float approximating it) is written with its digits
  IF n.t \in {"int", "big"} THEN (IF n.neg THEN <<MINUS>> ELSE <<>>) \o DigitChars(n.d)
  ELSE (IF n.neg THEN <<MINUS>> ELSE <<>>) \o DigitChars(n.d) \o <<101>> \o
       (IF n.e < 0 THEN <<MINUS>> \o DigitChars(OfNat(0 - n.e)) ELSE DigitChars(OfNat(n.e)))

PrintR6rsChar(c) ==
  IF c >= 32 /\ c < 127 THEN <<HASH, BSL, c>> ELSE <<HASH, BSL, 120>> \o HexLower(c)

ElispEscapedChars == {LP, RP, LB, RB, BSL, SEMI, PIPE, SQ, BQ, HASH, DOT, COMMA}
PrintElispChar(c) ==
  IF c >= 32 /\ c < 127 THEN (IF c \in ElispEscapedChars THEN <<QM, BSL, c>> ELSE <<QM, c>>)
  ELSE <<QM, BSL, 120>> \o HexLower(c)

StrCharR6rs(c) ==
  CASE c = 7 -> <<BSL, 97>> [] c = 8 -> <<BSL, 98>> [] c = 9 -> <<BSL, 116>> [] c = 10 -> <<BSL, 110>>
    [] c = 13 -> <<BSL, 114>> [] c = DQ -> <<BSL, DQ>> [] c = BSL -> <<BSL, BSL>>
    [] c < 32 \/ c = DEL -> <<BSL, 120>> \o Hex2Upper(c) \o <<SEMI>>
    [] OTHER -> EncodeCp(c)

StrCharElisp(c) ==
  CASE c = 7 -> <<BSL, 97>> [] c = 8 -> <<BSL, 98>> [] c = 9 -> <<BSL, 116>> [] c = 10 -> <<BSL, 110>>
    [] c = 13 -> <<BSL, 114>> [] c = DQ -> <<BSL, DQ>> [] c = BSL -> <<BSL, BSL>>
    [] c < 32 \/ c = DEL -> <<BSL, 117, 48, 48>> \o Hex2Upper(c)       \* \u00HH keeps the string multibyte
    [] OTHER -> EncodeCp(c)

PrintStr(s, syn) ==
  <<DQ>> \o Flatten([i \in DOMAIN s |-> IF syn = "r6rs" THEN StrCharR6rs(s[i]) ELSE StrCharElisp(s[i])]) \o <<DQ>>

Octal3(b) == <<BSL, 48 + (b \div 64), 48 + ((b \div 8) % 8), 48 + (b % 8)>>

RECURSIVE Joined(_)       \* texts separated by one space
Joined(ts) == IF ts = <<>> THEN <<>> ELSE IF Len(ts) = 1 THEN ts[1] ELSE ts[1] \o <<SP>> \o Joined(Tail(ts))

PrintBytes(b, po) ==
  IF po.bytes = "elisp" THEN <<DQ>> \o Flatten([i \in DOMAIN b |-> Octal3(b[i])]) \o <<DQ>>
  ELSE (IF po.bytes = "r6rs" THEN <<HASH, 118, 117, 56, LP>> ELSE <<HASH, 117, 56, LP>>)
       \o Joined([i \in DOMAIN b |-> IntText(FALSE, b[i])]) \o <<RP>>

PrintBool(b, po) ==
  IF po.bool = "token" THEN (IF b THEN <<HASH, 116>> ELSE <<HASH, 102>>)
  ELSE (IF b THEN <<116>> ELSE <<110, 105, 108>>)

RECURSIVE PrintDatum(_, _), PrintTail(_, _)

\* the rest of a list after its first element has been printed
PrintTail(v, po) ==
  CASE v.k = "null" -> <<>>
    [] v.k = "cons" -> <<SP>> \o PrintDatum(v.car, po) \o PrintTail(v.cdr, po)
    [] OTHER -> <<SP, DOT, SP>> \o PrintDatum(v, po)

PrintDatum(v, po) ==
  CASE v.k = "nil" ->
         (CASE po.nil = "sym" -> <<110, 105, 108>> [] po.nil = "token" -> <<HASH, 110, 105, 108>>
            [] po.nil = "null" -> <<LP, RP>> [] OTHER -> PrintBool(FALSE, po))
    [] v.k = "null" -> <<LP, RP>>
    [] v.k = "bool" -> PrintBool(v.b, po)
    [] v.k = "num" -> PrintNum(v.n)
    [] v.k = "char" -> IF po.chr = "r6rs" THEN PrintR6rsChar(v.c) ELSE PrintElispChar(v.c)
    [] v.k = "str" -> PrintStr(v.s, po.str)
    [] v.k = "sym" -> Encode(v.s)
    [] v.k = "kw" ->
         (CASE po.kw = "octo" -> <<HASH, COLON>> \o Encode(v.s)
            [] po.kw = "prefix" -> <<COLON>> \o Encode(v.s)
            [] OTHER -> Encode(v.s) \o <<COLON>>)
    [] v.k = "bytes" -> PrintBytes(v.bv, po)
    [] v.k = "cons" -> <<LP>> \o PrintDatum(v.car, po) \o PrintTail(v.cdr, po) \o <<RP>>
    [] OTHER ->     \* vec
         (IF po.vec = "octo" THEN <<HASH, LP>> ELSE <<LB>>)
         \o Joined([i \in DOMAIN v.e |-> PrintDatum(v.e[i], po)])
         \o (IF po.vec = "octo" THEN <<RP>> ELSE <<RB>>)

(***************************************************************************)
(* The same text with the trivia string tr at every token boundary inside  *)
(* the datum (after an opening delimiter, between elements, around the     *)
(* pair dot, before the closing delimiter) - C12: inserting trivia between *)
(* tokens never changes the value.  Atoms are single tokens; a byte vector *)
(* is spaced inside its parentheses (not the unibyte-string rendering).    *)
(***************************************************************************)
RECURSIVE PrintSpaced(_, _, _), SpacedTail(_, _, _), JoinTr(_, _)
JoinTr(ts, tr) == IF ts = <<>> THEN <<>> ELSE IF Len(ts) = 1 THEN ts[1] ELSE ts[1] \o tr \o JoinTr(Tail(ts), tr)
SpacedTail(v, po, tr) ==
  CASE v.k = "null" -> <<>>
    [] v.k = "cons" -> tr \o PrintSpaced(v.car, po, tr) \o SpacedTail(v.cdr, po, tr)
    [] OTHER -> tr \o <<DOT>> \o tr \o PrintSpaced(v, po, tr)
PrintSpaced(v, po, tr) ==
  CASE v.k = "cons" -> <<LP>> \o tr \o PrintSpaced(v.car, po, tr) \o SpacedTail(v.cdr, po, tr) \o tr \o <<RP>>
    [] v.k = "vec" ->
         (IF po.vec = "octo" THEN <<HASH, LP>> ELSE <<LB>>) \o tr
         \o JoinTr([i \in DOMAIN v.e |-> PrintSpaced(v.e[i], po, tr)], tr) \o tr
         \o (IF po.vec = "octo" THEN <<RP>> ELSE <<RB>>)
    [] v.k = "bytes" /\ po.bytes # "elisp" ->
         (IF po.bytes = "r6rs" THEN <<HASH, 118, 117, 56, LP>> ELSE <<HASH, 117, 56, LP>>) \o tr
         \o JoinTr([i \in DOMAIN v.bv |-> IntText(FALSE, v.bv[i])], tr) \o tr \o <<RP>>
    [] OTHER -> PrintDatum(v, po)
=============================================================================
