------------------------------- MODULE BigNat -------------------------------
(***************************************************************************)
(* Natural numbers as sequences of decimal digits, most significant first, *)
(* without leading zeros (zero is <<0>>).  TLC integers are 32-bit; every  *)
(* 64-bit boundary of the numeric properties (C05, C20) is computed with   *)
(* these operators, not pasted in.                                         *)
(***************************************************************************)
EXTENDS Naturals, Sequences

Zero == <<0>>
One  == <<1>>

RECURSIVE StripZeros(_)
StripZeros(d) == IF Len(d) > 1 /\ Head(d) = 0 THEN StripZeros(Tail(d)) ELSE d

Norm(d) == IF d = <<>> THEN Zero ELSE StripZeros(d)

IsZero(d) == Norm(d) = Zero

\* -1, 0, 1 for a < b, a = b, a > b (normalised operands)
RECURSIVE CmpSameLen(_, _)
CmpSameLen(a, b) ==
  IF a = <<>> THEN 0
  ELSE IF Head(a) < Head(b) THEN 0 - 1
  ELSE IF Head(a) > Head(b) THEN 1
  ELSE CmpSameLen(Tail(a), Tail(b))

Cmp(a0, b0) ==
  LET a == Norm(a0) b == Norm(b0) IN
  IF Len(a) < Len(b) THEN 0 - 1 ELSE IF Len(a) > Len(b) THEN 1 ELSE CmpSameLen(a, b)

Leq(a, b) == Cmp(a, b) <= 0
Lt(a, b)  == Cmp(a, b) < 0

\* d * k + c for small k (< 2^15) and small carry-in c, schoolbook from the least significant digit
RECURSIVE MulAddRev(_, _, _)
MulAddRev(rev, k, c) ==   \* rev: digits least significant first; result least significant first
  IF rev = <<>> THEN (IF c = 0 THEN <<>> ELSE <<c % 10>> \o MulAddRev(<<>>, k, c \div 10))
  ELSE LET t == Head(rev) * k + c IN <<t % 10>> \o MulAddRev(Tail(rev), k, t \div 10)

Reverse(s) == [i \in 1..Len(s) |-> s[Len(s) + 1 - i]]

MulAdd(d, k, c) == Norm(Reverse(MulAddRev(Reverse(d), k, c)))
MulSmall(d, k) == MulAdd(d, k, 0)
AddSmall(d, c) == MulAdd(d, 1, c)

\* value of digit sequence ds (each < r) in radix r
RECURSIVE FromRadixAcc(_, _, _)
FromRadixAcc(ds, r, acc) ==
  IF ds = <<>> THEN acc ELSE FromRadixAcc(Tail(ds), r, MulAdd(acc, r, Head(ds)))

FromRadix(ds, r) == FromRadixAcc(ds, r, Zero)

RECURSIVE Pow(_, _)
Pow(b, k) == IF k = 0 THEN One ELSE MulSmall(Pow(b, k - 1), b)
Pow2(k) == Pow(2, k)
Pow10(k) == <<1>> \o [i \in 1..k |-> 0]

\* a + b
RECURSIVE AddRev(_, _, _)
AddRev(a, b, c) ==
  IF a = <<>> /\ b = <<>> THEN (IF c = 0 THEN <<>> ELSE <<c>>)
  ELSE LET x == IF a = <<>> THEN 0 ELSE Head(a)
           y == IF b = <<>> THEN 0 ELSE Head(b)
           t == x + y + c
       IN <<t % 10>> \o AddRev(IF a = <<>> THEN <<>> ELSE Tail(a), IF b = <<>> THEN <<>> ELSE Tail(b), t \div 10)

Add(a, b) == Norm(Reverse(AddRev(Reverse(a), Reverse(b), 0)))

\* a - 1 for a > 0
RECURSIVE DecRev(_)
DecRev(rev) == IF Head(rev) > 0 THEN <<Head(rev) - 1>> \o Tail(rev) ELSE <<9>> \o DecRev(Tail(rev))
Pred(a) == Norm(Reverse(DecRev(Reverse(Norm(a)))))

\* quotient and remainder of d by a small k: <<quotient digits, remainder>>
RECURSIVE DivSmallAcc(_, _, _, _)
DivSmallAcc(d, k, rem, acc) ==
  IF d = <<>> THEN <<Norm(acc), rem>>
  ELSE LET cur == rem * 10 + Head(d) IN DivSmallAcc(Tail(d), k, cur % k, Append(acc, cur \div k))
DivSmall(d, k) == DivSmallAcc(d, k, 0, <<>>)

\* digits of d in radix r (each < r), most significant first
RECURSIVE ToRadixRev(_, _)
ToRadixRev(d, r) ==
  LET qr == DivSmall(d, r) IN
  IF qr[1] = Zero THEN <<qr[2]>> ELSE <<qr[2]>> \o ToRadixRev(qr[1], r)
ToRadix(d, r) == Reverse(ToRadixRev(Norm(d), r))

\* the 64-bit boundaries: written out (TLC would otherwise recompute them on every use) and checked
\* against their definition by the ASSUME below
U64Max == <<1, 8, 4, 4, 6, 7, 4, 4, 0, 7, 3, 7, 0, 9, 5, 5, 1, 6, 1, 5>>
I64MaxPlus1 == <<9, 2, 2, 3, 3, 7, 2, 0, 3, 6, 8, 5, 4, 7, 7, 5, 8, 0, 8>>     \* |i64::MIN|
I64Max == <<9, 2, 2, 3, 3, 7, 2, 0, 3, 6, 8, 5, 4, 7, 7, 5, 8, 0, 7>>
TwoPow53 == <<9, 0, 0, 7, 1, 9, 9, 2, 5, 4, 7, 4, 0, 9, 9, 2>>
ASSUME /\ U64Max = Pred(Pow2(64)) /\ I64MaxPlus1 = Pow2(63) /\ I64Max = Pred(Pow2(63)) /\ TwoPow53 = Pow2(53)

\* small natural -> digits
RECURSIVE OfNatRev(_)
OfNatRev(n) == IF n < 10 THEN <<n>> ELSE <<n % 10>> \o OfNatRev(n \div 10)
OfNat(n) == Reverse(OfNatRev(n))

\* digits -> small natural (caller guarantees it fits)
RECURSIVE ToNatAcc(_, _)
ToNatAcc(d, acc) == IF d = <<>> THEN acc ELSE ToNatAcc(Tail(d), acc * 10 + Head(d))
ToNat(d) == ToNatAcc(d, 0)
=============================================================================
