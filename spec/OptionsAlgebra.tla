--------------------------- MODULE OptionsAlgebra ---------------------------
(***************************************************************************)
(* Beyond the listed properties: the option builders.  Every specification *)
(* module talks about option sets as records (Sexp.tla: DefaultParse,      *)
(* ElispParse, DefaultPrint, ElispPrint); this module ties those records   *)
(* to the code's constructors and builder methods.                         *)
(*                                                                         *)
(* A call is a record [m |-> method, a |-> argument].                      *)
(* parse::Options:  default  new (the empty set: no keyword syntax)  elisp  *)
(*                  kw(k) (accumulates)  kws(S) (replaces)                 *)
(*                  nil(x) t(x) br(x) str(x) chr(x) racket(b) digits(b)    *)
(* print::Options:  default  elisp  kw(k) nil(x) bool(x) vec(x) bytes(x)   *)
(*                  str(x) chr(x)                                          *)
(***************************************************************************)
EXTENDS Naturals, Sequences, FiniteSets, Sexp

Call(m, a) == [m |-> m, a |-> a]

ParseCalls ==
  {Call("default", "-"), Call("new", "-"), Call("elisp", "-")}
  \cup {Call("kw", k) : k \in {"octo", "prefix", "postfix"}}
  \cup {Call("kws", s) : s \in {"", "o", "p", "q", "op", "oq", "pq", "opq"}}      \* o = octo, p = prefix, q = postfix
  \cup {Call("nil", x) : x \in {"sym", "null", "special"}}
  \cup {Call("t", x) : x \in {"sym", "true"}}
  \cup {Call("br", x) : x \in {"list", "vec"}}
  \cup {Call("str", x) : x \in {"r6rs", "elisp"}} \cup {Call("chr", x) : x \in {"r6rs", "elisp"}}
  \cup {Call("racket", x) : x \in {"true", "false"}} \cup {Call("digits", x) : x \in {"true", "false"}}

KwSetOf(s) == <<s \in {"o", "op", "oq", "opq"}, s \in {"p", "op", "pq", "opq"}, s \in {"q", "oq", "pq", "opq"}>>

ApplyParse(o, c) ==
  CASE c.m = "default" -> DefaultParse
    [] c.m = "new" -> [DefaultParse EXCEPT !.kw = <<FALSE, FALSE, FALSE>>]
    [] c.m = "elisp" -> ElispParse
    [] c.m = "kw" -> [o EXCEPT !.kw[KwIndex(c.a)] = TRUE]
    [] c.m = "kws" -> [o EXCEPT !.kw = KwSetOf(c.a)]
    [] c.m = "nil" -> [o EXCEPT !.nil = c.a]
    [] c.m = "t" -> [o EXCEPT !.t = c.a]
    [] c.m = "br" -> [o EXCEPT !.br = c.a]
    [] c.m = "str" -> [o EXCEPT !.str = c.a]
    [] c.m = "chr" -> [o EXCEPT !.chr = c.a]
    [] c.m = "racket" -> [o EXCEPT !.racket = (c.a = "true")]
    [] OTHER -> [o EXCEPT !.digits = (c.a = "true")]

PrintCalls ==
  {Call("default", "-"), Call("elisp", "-")}
  \cup {Call("kw", k) : k \in {"octo", "prefix", "postfix"}}
  \cup {Call("nil", x) : x \in {"sym", "token", "null", "false"}}
  \cup {Call("bool", x) : x \in {"token", "sym"}}
  \cup {Call("vec", x) : x \in {"octo", "br"}}
  \cup {Call("bytes", x) : x \in {"r6rs", "r7rs", "elisp"}}
  \cup {Call("str", x) : x \in {"r6rs", "elisp"}} \cup {Call("chr", x) : x \in {"r6rs", "elisp"}}

ApplyPrint(o, c) ==
  CASE c.m = "default" -> DefaultPrint
    [] c.m = "elisp" -> ElispPrint
    [] c.m = "kw" -> [o EXCEPT !.kw = c.a]
    [] c.m = "nil" -> [o EXCEPT !.nil = c.a]
    [] c.m = "bool" -> [o EXCEPT !.bool = c.a]
    [] c.m = "vec" -> [o EXCEPT !.vec = c.a]
    [] c.m = "bytes" -> [o EXCEPT !.bytes = c.a]
    [] c.m = "str" -> [o EXCEPT !.str = c.a]
    [] OTHER -> [o EXCEPT !.chr = c.a]

RECURSIVE FoldCalls(_, _, _)
FoldCalls(o, cs, parse) ==
  IF cs = <<>> THEN o ELSE FoldCalls(IF parse THEN ApplyParse(o, Head(cs)) ELSE ApplyPrint(o, Head(cs)), Tail(cs), parse)

IsCtor(c) == c.m \in {"new", "elisp", "default"}
=============================================================================
